(* print_scan: scanning the printed form of a well-formed sequence of written tokens
   gives back its shapes (kinds, names, attribute names/values in order, text contents). *)
From Coq Require Import List NArith Bool Lia Arith.
From Tpl Require Import Html.Scan Proofs.ScanConcat Proofs.PrintScanDefs Proofs.PrintScanSteps.
Import ListNotations.
Open Scope N_scope.
Local Arguments adv : simpl never.
Local Arguments Scan.step : simpl never.

(* ---------- prefix / suffix conditions on comment and CDATA bodies ---------- *)

Lemma pre1_dd (b : str) : prefixb [cGT] b = false -> prefixb [cGT] (b ++ [cDASH; cDASH]) = false.
Proof. destruct b as [|x b]; intros H; [reflexivity|exact H]. Qed.

Lemma pre2_dd (b : str) : prefixb [cDASH; cGT] b = false -> prefixb [cDASH; cGT] (b ++ [cDASH; cDASH]) = false.
Proof.
  destruct b as [|x [|y b]]; intros H; [reflexivity| |exact H].
  cbn [app prefixb]. replace (N.eqb cGT cDASH) with false by reflexivity. apply andb_false_r.
Qed.

(* while reading  body ++ [a; a]  (a different from the terminator's last rune c) the end test never fires *)
Lemma no_early_end (p : str) (a c : rune) (b q1 q2 : str) :
  N.eqb c a = false -> containsb (p ++ [c]) b = false ->
  b ++ [a; a] = q1 ++ q2 -> suffixb (p ++ [c]) q1 = false.
Proof.
  intros Hca Hc E. destruct (suffixb (p ++ [c]) q1) eqn:S; [|reflexivity]. exfalso.
  apply app_eq_app in E as [l [[E1 E2]|[E1 E2]]].
  - rewrite E1, (suffix_in_prefix_contains _ _ _ S) in Hc. discriminate.
  - destruct l as [|x l].
    + rewrite app_nil_r in E1. subst q1. rewrite <- (app_nil_r b), (suffix_in_prefix_contains _ _ _ S) in Hc. discriminate.
    + destruct l as [|y l].
      * cbn [app] in E2. injection E2 as Ex _. subst x q1. rewrite suffixb_last_neq in S by exact Hca. discriminate.
      * destruct l as [|z l].
        -- cbn [app] in E2. injection E2 as Ex Ey _. subst x y q1.
           change (b ++ [a; a]) with (b ++ [a] ++ [a]) in S. rewrite app_assoc in S.
           rewrite suffixb_last_neq in S by exact Hca. discriminate.
        -- apply (f_equal (@length rune)) in E2. cbn [length app] in E2. rewrite app_length in E2. cbn [length] in E2. lia.
Qed.

(* ---------- list facts ---------- *)

Lemma NoDup_app_l {A} (a b : list A) : NoDup (a ++ b) -> NoDup a.
Proof.
  induction a as [|x a IH]; cbn [app]; intros H; [constructor|].
  inversion H as [|y l Hn Hd]; subst. constructor; [|auto].
  intros Hi. apply Hn. apply in_or_app; left; exact Hi.
Qed.

Lemma distinctb_NoDup (l : list str) : distinctb l = true -> NoDup l.
Proof.
  induction l as [|x l IH]; cbn [distinctb]; intros H; [constructor|].
  apply andb_true_iff in H as [H1 H2]. constructor; [|auto].
  intros Hi. apply negb_true_iff in H1.
  assert (existsb (str_eqb x) l = true) as E.
  { apply existsb_exists. exists x. split; [exact Hi|apply str_eqb_refl]. }
  rewrite E in H1. discriminate.
Qed.

(* ---------- position-free descriptions of the tag states met on printed tags ---------- *)

(* after the tag name or after a printed attribute: [done] = attributes written so far *)
Inductive bnd (n : str) : list wattr -> tagst -> Prop :=
| BName buf gs cm cd an ans ane av avs ave :
    bnd n [] (mkTag TName buf gs [] n cm cd an ans ane av avs ave)
| BPend done buf gs attrs cm cd an ans ane av avs ave :
    map ashape (rev attrs) = map wshape done ->
    bnd n (done ++ [WA an None]) (mkTag TAttrName buf gs attrs n cm cd an ans ane av avs ave)
| BSpace done buf gs attrs cm cd an ans ane av avs ave :
    map ashape (rev attrs) = map wshape done ->
    bnd n done (mkTag TSpace buf gs attrs n cm cd an ans ane av avs ave)
| BVal done buf gs attrs cm cd an ans ane f t avs ave :
    map ashape (rev attrs) = map wshape done -> is_quote f = false ->
    bnd n (done ++ [WA an (Some (f :: t))]) (mkTag TAttrValue buf gs attrs n cm cd an ans ane (f :: t) avs ave).

(* after the blank that precedes an attribute *)
Inductive blk (n : str) : list wattr -> tagst -> Prop :=
| KSpace done buf gs attrs cm cd an ans ane av avs ave :
    map ashape (rev attrs) = map wshape done ->
    blk n done (mkTag TSpace buf gs attrs n cm cd an ans ane av avs ave)
| KPend done buf gs attrs cm cd an ans ane av avs ave :
    map ashape (rev attrs) = map wshape done ->
    blk n (done ++ [WA an None]) (mkTag TAttrName buf gs attrs n cm cd (an ++ [cSP]) ans ane av avs ave).

(* inside an attribute name: [acc] read so far, all of [done] committed *)
Inductive anm (n : str) (done : list wattr) (acc : str) : tagst -> Prop :=
| ANm buf gs attrs cm cd ans ane av avs ave :
    map ashape (rev attrs) = map wshape done ->
    anm n done acc (mkTag TAttrName buf gs attrs n cm cd acc ans ane av avs ave).

(* inside an attribute value: name [an], value read so far [v] *)
Inductive avl (n : str) (done : list wattr) (an v : str) : tagst -> Prop :=
| AVl buf gs attrs cm cd ans ane avs ave :
    map ashape (rev attrs) = map wshape done ->
    avl n done an v (mkTag TAttrValue buf gs attrs n cm cd an ans ane v avs ave).

Lemma shapes_snoc (a : attr) attrs done (an : str) v :
  map ashape (rev attrs) = map wshape done -> a_name a = an -> a_value a = v ->
  map ashape (rev (a :: attrs)) = map wshape (done ++ [WA an v]).
Proof.
  intros H Hn Hv. cbn [rev]. rewrite !map_app, H. cbn [map wshape]. unfold ashape. rewrite Hn, Hv. reflexivity.
Qed.

Lemma not_dup attrs done an v :
  map ashape (rev attrs) = map wshape done -> NoDup (map wname (done ++ [WA an v])) ->
  has_attr an attrs = false.
Proof.
  intros Hs Hn. unfold has_attr. destruct (existsb _ attrs) eqn:E; [|reflexivity]. exfalso.
  apply existsb_exists in E as (a & Ha & He). apply str_eqb_eq in He.
  rewrite map_app in Hn. cbn [map wname] in Hn. apply NoDup_remove_2 in Hn. rewrite app_nil_r in Hn.
  apply Hn. apply in_rev in Ha. apply (in_map ashape) in Ha. rewrite Hs in Ha.
  apply in_map_iff in Ha as (w & Hw & Hi). apply in_map_iff. exists w. split; [|exact Hi].
  destruct w as [wn wv]. unfold ashape in Hw. cbn [wshape wname] in *. injection Hw as Hw _. congruence.
Qed.

Section P.
Variable is_space : rune -> bool.
Variable to_lower : rune -> rune.
Variable text_tags : list str.
Variable attr_prefix : str.
Variable compile : attr -> bool.
Notation step := (Scan.step is_space to_lower text_tags attr_prefix compile).
Notation run := (@fold_left sstate rune (Scan.step is_space to_lower text_tags attr_prefix compile)).
Notation scan := (Scan.scan is_space to_lower text_tags attr_prefix compile).
Notation raw_tag_of_last := (Scan.raw_tag_of_last to_lower text_tags).
Notation else_name := (Scan.else_name attr_prefix).
Notation plain := (PrintScanDefs.plain is_space).
Notation aplain := (PrintScanDefs.aplain is_space).
Notation wf_wattr := (PrintScanDefs.wf_wattr is_space attr_prefix compile).
Notation wf_wtok := (PrintScanDefs.wf_wtok is_space to_lower text_tags attr_prefix compile).
Notation wf_wtoks := (PrintScanDefs.wf_wtoks is_space to_lower text_tags attr_prefix compile).

Hypothesis Hor : oracle_ok is_space.

Lemma run_app (a b : str) s : run (a ++ b) s = run b (run a s).
Proof. apply fold_left_app. Qed.

Lemma Hsp : is_space cSP = true. Proof. destruct Hor as (H & _); exact H. Qed.
Lemma Hgt : is_space cGT = false. Proof. destruct Hor as (_ & H & _); exact H. Qed.
Lemma Heq : is_space cEQ = false. Proof. destruct Hor as (_ & _ & H & _); exact H. Qed.
Lemma Hdq : is_space cDQ = false. Proof. destruct Hor as (_ & _ & _ & H & _); exact H. Qed.
Lemma Hsq : is_space cSQ = false. Proof. destruct Hor as (_ & _ & _ & _ & H & _); exact H. Qed.
Lemma Hop : forall c, In c [cBANG; cDASH; cLBR; 67; 68; 65; 84] -> is_space c = false.
Proof. destruct Hor as (_ & _ & _ & _ & _ & H); exact H. Qed.

(* ================= (1) comments ================= *)

Lemma comment_loop : forall (l acc : str) toks p buf gs attrs name cd an ans ane av avs ave,
  (forall q1 q2, l = q1 ++ q2 -> q1 <> [] ->
     suffixb sDDGT (acc ++ q1) = false /\ prefixb [cGT] (acc ++ q1) = false /\
     prefixb [cDASH; cGT] (acc ++ q1) = false) ->
  exists p' buf',
    run l (mkS toks p (MTag (mkTag TComment buf gs attrs name acc cd an ans ane av avs ave))) =
    mkS toks p' (MTag (mkTag TComment buf' gs attrs name (acc ++ l) cd an ans ane av avs ave)).
Proof.
  induction l as [|r l IH]; intros acc toks p buf gs attrs name cd an ans ane av avs ave H.
  - exists p, buf. rewrite app_nil_r. reflexivity.
  - cbn [fold_left].
    destruct (H [r] l eq_refl) as (H1 & H2 & H3); [discriminate|].
    rewrite comment_char by assumption.
    edestruct (IH (acc ++ [r])) as (p' & buf' & E).
    2:{ rewrite E. exists p', buf'. rewrite <- app_assoc. reflexivity. }
    intros q1 q2 Hq Hne. rewrite <- app_assoc. apply (H (r :: q1) q2); [rewrite Hq; reflexivity|discriminate].
Qed.

Lemma comment_open toks p p0 :
  exists p',
  run sBANGDD (mkS toks p (MTag (new_tag p0))) =
  mkS toks p' (MTag (mkTag TComment sLTBDD p0 [] sBANGDD [] [] [] (0,0) (0,0) [] (0,0) (0,0))).
Proof.
  unfold new_tag, sBANGDD. cbn [fold_left].
  rewrite tname_char by (first [reflexivity | apply Hop; cbn; tauto]). cbn [app str_eqb N.eqb andb].
  rewrite tname_char by (first [reflexivity | apply Hop; cbn; tauto]). cbn [app str_eqb N.eqb andb].
  rewrite tname_char by (first [reflexivity | apply Hop; cbn; tauto]).
  eexists. reflexivity.
Qed.

Lemma comment_scan toks p p0 (b : str) :
  wf_wtok (WComment b) ->
  exists p' tok,
    run (sBANGDD ++ b ++ sDDGT) (mkS toks p (MTag (new_tag p0))) = mkS (tok :: toks) p' MInit /\
    shape_of tok = shape_of_w (WComment b).
Proof.
  intros (W1 & W2 & W3 & W4 & W5 & W6).
  destruct (comment_open toks p p0) as (p1 & E1).
  edestruct (comment_loop (b ++ [cDASH; cDASH]) [] toks p1) as (p2 & buf2 & E2).
  { intros q1 q2 Hq Hne. cbn [app]. repeat split.
    - exact (no_early_end [cDASH; cDASH] cDASH cGT b q1 q2 eq_refl W4 Hq).
    - destruct (prefixb [cGT] q1) eqn:E; [|reflexivity].
      apply (prefixb_mono _ _ q2) in E. rewrite <- Hq, pre1_dd in E by exact W1. discriminate.
    - destruct (prefixb [cDASH; cGT] q1) eqn:E; [|reflexivity].
      apply (prefixb_mono _ _ q2) in E. rewrite <- Hq, pre2_dd in E by exact W2. discriminate. }
  eexists _, _. split.
  - rewrite run_app, E1.
    change sDDGT with ([cDASH; cDASH] ++ [cGT]). rewrite app_assoc, run_app, E2.
    cbn [fold_left app].
    rewrite (comment_end _ _ _ _ _ _ _ _ _ _ _ _ _ _ _ _ _ _ _ _ b); try assumption.
    + reflexivity.
    + rewrite <- app_assoc. reflexivity.
  - reflexivity.
Qed.

(* ================= (1) CDATA ================= *)

Lemma cdata_loop : forall (l acc : str) toks p buf gs attrs name cm an ans ane av avs ave,
  (forall q1 q2, l = q1 ++ q2 -> q1 <> [] -> suffixb sRRGT (acc ++ q1) = false) ->
  exists p' buf',
    run l (mkS toks p (MTag (mkTag TCData buf gs attrs name cm acc an ans ane av avs ave))) =
    mkS toks p' (MTag (mkTag TCData buf' gs attrs name cm (acc ++ l) an ans ane av avs ave)).
Proof.
  induction l as [|r l IH]; intros acc toks p buf gs attrs name cm an ans ane av avs ave H.
  - exists p, buf. rewrite app_nil_r. reflexivity.
  - cbn [fold_left].
    assert (H1 := H [r] l eq_refl). rewrite cdata_char by (apply H1; discriminate).
    edestruct (IH (acc ++ [r])) as (p' & buf' & E).
    2:{ rewrite E. exists p', buf'. rewrite <- app_assoc. reflexivity. }
    intros q1 q2 Hq Hne. rewrite <- app_assoc. apply (H (r :: q1) q2); [rewrite Hq; reflexivity|discriminate].
Qed.

Lemma cdata_open toks p p0 :
  exists p',
  run sCDATA (mkS toks p (MTag (new_tag p0))) =
  mkS toks p' (MTag (mkTag TCData (cLT :: sCDATA) p0 [] sCDATA [] [] [] (0,0) (0,0) [] (0,0) (0,0))).
Proof.
  unfold new_tag, sCDATA. cbn [fold_left].
  do 7 (rewrite tname_char by (first [reflexivity | apply Hop; cbn; tauto]); cbn [app str_eqb N.eqb andb]).
  rewrite tname_char by (first [reflexivity | apply Hop; cbn; tauto]).
  eexists. reflexivity.
Qed.

Lemma cdata_scan toks p p0 (b : str) :
  wf_wtok (WCData b) ->
  exists p' tok,
    run (sCDATA ++ b ++ sRRGT) (mkS toks p (MTag (new_tag p0))) = mkS (tok :: toks) p' MInit /\
    shape_of tok = shape_of_w (WCData b).
Proof.
  intros W. cbn [PrintScanDefs.wf_wtok] in W.
  destruct (cdata_open toks p p0) as (p1 & E1).
  edestruct (cdata_loop (b ++ [cRBR; cRBR]) [] toks p1) as (p2 & buf2 & E2).
  { intros q1 q2 Hq Hne. cbn [app].
    exact (no_early_end [cRBR; cRBR] cRBR cGT b q1 q2 eq_refl W Hq). }
  eexists _, _. split.
  - rewrite run_app, E1.
    change sRRGT with ([cRBR; cRBR] ++ [cGT]). rewrite app_assoc, run_app, E2.
    cbn [fold_left app].
    rewrite cdata_end; [reflexivity|].
    rewrite <- app_assoc. apply (suffixb_intro sRRGT b).
  - unfold shape_of. cbn [t_kind t_value t_attrs map shape_of_w]. rewrite <- !app_assoc. reflexivity.
Qed.

(* ================= (2)-(4) tags ================= *)

Definition attrs_ok (l : list wattr) : Prop := NoDup (map wname l) /\ Forall wf_wattr l.

Lemma attrs_ok_last done a : attrs_ok (done ++ [a]) -> wf_wattr a.
Proof. intros [_ H]. apply Forall_app in H as [_ H]. inversion H; assumption. Qed.

Lemma attrs_ok_prefix done a rest : attrs_ok (done ++ a :: rest) -> attrs_ok (done ++ [a]).
Proof.
  intros [H1 H2]. change (a :: rest) with ([a] ++ rest) in H1, H2. rewrite app_assoc in H1, H2. split.
  - rewrite map_app in H1. apply NoDup_app_l in H1. exact H1.
  - apply Forall_app in H2 as [H2 _]. exact H2.
Qed.

Lemma plain_inv r : plain r = true -> is_space r = false /\ N.eqb r cGT = false.
Proof.
  unfold PrintScanDefs.plain. intros H. apply andb_true_iff in H as [H1 H2].
  apply negb_true_iff in H1, H2. split; assumption.
Qed.

Lemma aplain_inv r : aplain r = true -> is_space r = false /\ N.eqb r cGT = false /\ N.eqb r cEQ = false.
Proof.
  unfold PrintScanDefs.aplain. intros H. apply andb_true_iff in H as [H1 H2].
  apply plain_inv in H1 as [H1 H3]. apply negb_true_iff in H2. repeat split; assumption.
Qed.

Lemma aplain_ends (s : str) : forallb aplain s = true -> ends_sp s = false.
Proof.
  intros H. unfold ends_sp. destruct (rev s) as [|c r] eqn:E; [reflexivity|].
  assert (In c s) as Hi by (apply in_rev; rewrite E; left; reflexivity).
  rewrite forallb_forall in H. apply H, aplain_inv in Hi as (Hi & _).
  destruct (N.eqb c cSP) eqn:Ec; [|reflexivity]. apply N.eqb_eq in Ec. subst c. rewrite Hsp in Hi. discriminate.
Qed.

Lemma quote_plain f : is_quote f = true -> plain f = true.
Proof.
  unfold is_quote. intros H. apply orb_true_iff in H as [H|H]; apply N.eqb_eq in H; subst f;
    unfold PrintScanDefs.plain; [rewrite Hdq|rewrite Hsq]; reflexivity.
Qed.

(* ----- tag name ----- *)
Lemma name_loop : forall (rest acc : str) toks p buf gs attrs cm cd an ans ane av avs ave,
  forallb plain rest = true ->
  prefixb sBANGDD (acc ++ rest) = false -> prefixb sCDATA (acc ++ rest) = false ->
  exists p' buf',
    run rest (mkS toks p (MTag (mkTag TName buf gs attrs acc cm cd an ans ane av avs ave))) =
    mkS toks p' (MTag (mkTag TName buf' gs attrs (acc ++ rest) cm cd an ans ane av avs ave)).
Proof.
  induction rest as [|r rest IH]; intros acc toks p buf gs attrs cm cd an ans ane av avs ave Hp H1 H2.
  - exists p, buf. rewrite app_nil_r. reflexivity.
  - cbn [forallb] in Hp. apply andb_true_iff in Hp as [Hr Hp]. apply plain_inv in Hr as [Hr1 Hr2].
    cbn [fold_left]. rewrite tname_char by assumption.
    change (r :: rest) with ([r] ++ rest) in H1, H2. rewrite app_assoc in H1, H2.
    rewrite (str_eqb_neq (acc ++ [r]) sBANGDD).
    2:{ intros E. rewrite E, prefixb_app in H1. discriminate. }
    rewrite (str_eqb_neq (acc ++ [r]) sCDATA).
    2:{ intros E. rewrite E, prefixb_app in H2. discriminate. }
    destruct (IH (acc ++ [r]) toks (adv p r) (buf ++ [r]) gs attrs cm cd an ans ane av avs ave Hp H1 H2) as (p' & buf' & E).
    rewrite E. exists p', buf'. rewrite <- app_assoc. reflexivity.
Qed.

(* ----- closing '>' ----- *)
Lemma tag_close n done g toks p :
  bnd n done g -> attrs_ok done ->
  exists tok, step (mkS toks p (MTag g)) cGT = mkS (tok :: toks) (adv p cGT) MInit /\
              shape_of tok = (KTag, n, map wshape done).
Proof.
  intros B Hok. destruct B as [buf gs cm cd an ans ane av avs ave
                              |done buf gs attrs cm cd an ans ane av avs ave Hs
                              |done buf gs attrs cm cd an ans ane av avs ave Hs
                              |done buf gs attrs cm cd an ans ane f t avs ave Hs Hq].
  - rewrite tname_gt. eexists. split; [reflexivity|]. reflexivity.
  - pose proof (attrs_ok_last _ _ Hok) as (Hne & Hpl & Hel).
    pose proof (trim_sp_noend _ (aplain_ends _ Hpl)) as Ht.
    rewrite aname_gt; [|exact Hgt|rewrite Ht; exact Hel|rewrite Ht; exact (not_dup _ _ _ _ Hs (proj1 Hok))].
    eexists. split; [reflexivity|]. unfold shape_of. cbn [t_kind t_name t_attrs].
    rewrite (shapes_snoc _ _ _ an None Hs); [reflexivity|exact Ht|reflexivity].
  - rewrite tspace_gt. eexists. split; [reflexivity|]. unfold shape_of. cbn [t_kind t_name t_attrs].
    rewrite Hs. reflexivity.
  - pose proof (attrs_ok_last _ _ Hok) as (Hne & Hpl & Hv & Hc).
    pose proof (trim_sp_noend _ (aplain_ends _ Hpl)) as Ht.
    rewrite aval_u_gt; [|exact Hq|apply Hc; [exact Ht|reflexivity]|rewrite Ht; exact (not_dup _ _ _ _ Hs (proj1 Hok))].
    eexists. split; [reflexivity|]. unfold shape_of. cbn [t_kind t_name t_attrs].
    rewrite (shapes_snoc _ _ _ an (Some (f :: t)) Hs); [reflexivity|exact Ht|reflexivity].
Qed.

(* ----- the blank before an attribute ----- *)
Lemma tag_blank n done g toks p :
  bnd n done g -> attrs_ok done ->
  exists g', step (mkS toks p (MTag g)) cSP = mkS toks (adv p cSP) (MTag g') /\ blk n done g'.
Proof.
  intros B Hok. destruct B as [buf gs cm cd an ans ane av avs ave
                              |done buf gs attrs cm cd an ans ane av avs ave Hs
                              |done buf gs attrs cm cd an ans ane av avs ave Hs
                              |done buf gs attrs cm cd an ans ane f t avs ave Hs Hq].
  - rewrite tname_sp by exact Hsp. eexists. split; [reflexivity|]. apply KSpace. reflexivity.
  - pose proof (attrs_ok_last _ _ Hok) as (Hne & Hpl & Hel).
    rewrite aname_sp; [|exact Hsp|exact (aplain_ends _ Hpl)].
    eexists. split; [reflexivity|]. apply KPend. exact Hs.
  - rewrite tspace_sp by exact Hsp. eexists. split; [reflexivity|]. apply KSpace. exact Hs.
  - pose proof (attrs_ok_last _ _ Hok) as (Hne & Hpl & Hv & Hc).
    pose proof (trim_sp_noend _ (aplain_ends _ Hpl)) as Ht.
    rewrite aval_u_sp; [|exact Hq|exact Hsp|apply Hc; [exact Ht|reflexivity]|rewrite Ht; exact (not_dup _ _ _ _ Hs (proj1 Hok))].
    eexists. split; [reflexivity|]. apply KSpace.
    apply shapes_snoc; [exact Hs|exact Ht|reflexivity].
Qed.

(* ----- first rune of an attribute name ----- *)
Lemma tag_first n done g toks p r :
  blk n done g -> attrs_ok done -> aplain r = true ->
  exists g', step (mkS toks p (MTag g)) r = mkS toks (adv p r) (MTag g') /\ anm n done [r] g'.
Proof.
  intros B Hok Hr. apply aplain_inv in Hr as (Hr1 & Hr2 & Hr3).
  destruct B as [done buf gs attrs cm cd an ans ane av avs ave Hs
                |done buf gs attrs cm cd an ans ane av avs ave Hs].
  - rewrite tspace_char by assumption. eexists. split; [reflexivity|]. apply ANm. exact Hs.
  - pose proof (attrs_ok_last _ _ Hok) as (Hne & Hpl & Hel).
    rewrite aname_commit_char; try assumption.
    + eexists. split; [reflexivity|]. apply ANm.
      apply shapes_snoc; [exact Hs|apply trim_sp_snoc_sp|reflexivity].
    + rewrite ends_sp_snoc. reflexivity.
    + rewrite trim_sp_snoc_sp. exact Hel.
    + rewrite trim_sp_snoc_sp. exact (not_dup _ _ _ _ Hs (proj1 Hok)).
Qed.

(* ----- the rest of an attribute name ----- *)
Lemma aname_loop n done : forall (rest acc : str) g toks p,
  anm n done acc g -> forallb aplain acc = true -> forallb aplain rest = true ->
  exists g' p', run rest (mkS toks p (MTag g)) = mkS toks p' (MTag g') /\ anm n done (acc ++ rest) g'.
Proof.
  induction rest as [|r rest IH]; intros acc g toks p A Ha Hr.
  - exists g, p. rewrite app_nil_r. split; [reflexivity|exact A].
  - cbn [forallb] in Hr. apply andb_true_iff in Hr as [Hr1 Hr].
    pose proof (aplain_inv _ Hr1) as (Hr2 & Hr3 & Hr4).
    destruct A as [buf gs attrs cm cd ans ane av avs ave Hs].
    cbn [fold_left]. rewrite aname_char; try assumption; [|exact (aplain_ends _ Ha)].
    edestruct (IH (acc ++ [r])) as (g' & p' & E & A').
    + apply ANm. exact Hs.
    + rewrite forallb_app, Ha. cbn [forallb]. rewrite Hr1. reflexivity.
    + exact Hr.
    + exists g', p'. split; [exact E|]. rewrite <- app_assoc in A'. exact A'.
Qed.

(* ----- quoted and unquoted value bodies ----- *)
Lemma q_loop n done an f : is_quote f = true -> forall (body acc : str) g toks p,
  avl n done an (f :: acc) g -> forallb (fun c => negb (N.eqb c f)) body = true ->
  exists g' p', run body (mkS toks p (MTag g)) = mkS toks p' (MTag g') /\ avl n done an (f :: acc ++ body) g'.
Proof.
  intros Hq. induction body as [|r body IH]; intros acc g toks p A Hb.
  - exists g, p. rewrite app_nil_r. split; [reflexivity|exact A].
  - cbn [forallb] in Hb. apply andb_true_iff in Hb as [Hr Hb]. apply negb_true_iff in Hr. rewrite N.eqb_sym in Hr.
    destruct A as [buf gs attrs cm cd ans ane avs ave Hs].
    cbn [fold_left]. rewrite aval_q_char by assumption.
    edestruct (IH (acc ++ [r])) as (g' & p' & E & A').
    + apply AVl. exact Hs.
    + exact Hb.
    + exists g', p'. split; [exact E|]. rewrite <- app_assoc in A'. exact A'.
Qed.

Lemma u_loop n done an f : is_quote f = false -> forall (body acc : str) g toks p,
  avl n done an (f :: acc) g -> forallb plain body = true ->
  exists g' p', run body (mkS toks p (MTag g)) = mkS toks p' (MTag g') /\ avl n done an (f :: acc ++ body) g'.
Proof.
  intros Hq. induction body as [|r body IH]; intros acc g toks p A Hb.
  - exists g, p. rewrite app_nil_r. split; [reflexivity|exact A].
  - cbn [forallb] in Hb. apply andb_true_iff in Hb as [Hr Hb]. apply plain_inv in Hr as [Hr1 Hr2].
    destruct A as [buf gs attrs cm cd ans ane avs ave Hs].
    cbn [fold_left]. rewrite aval_u_char by assumption.
    edestruct (IH (acc ++ [r])) as (g' & p' & E & A').
    + apply AVl. exact Hs.
    + exact Hb.
    + exists g', p'. split; [exact E|]. rewrite <- app_assoc in A'. exact A'.
Qed.

Lemma attrs_ok_init done a : attrs_ok (done ++ [a]) -> attrs_ok done.
Proof.
  intros [H1 H2]. split.
  - rewrite map_app in H1. apply NoDup_app_l in H1. exact H1.
  - apply Forall_app in H2 as [H2 _]. exact H2.
Qed.

Lemma forallb_rev_true {A} (f : A -> bool) l : forallb f l = true -> forallb f (rev l) = true.
Proof.
  rewrite !forallb_forall. intros H x Hx. apply H. apply in_rev. exact Hx.
Qed.

(* ----- one printed attribute: blank, name, optional =value ----- *)
Lemma tag_attr n done a g toks p :
  bnd n done g -> attrs_ok (done ++ [a]) ->
  exists g' p', run (print_wattr a) (mkS toks p (MTag g)) = mkS toks p' (MTag g') /\ bnd n (done ++ [a]) g'.
Proof.
  intros B Hok. pose proof (attrs_ok_init _ _ Hok) as Hok0.
  destruct a as [an v]. pose proof (attrs_ok_last _ _ Hok) as (Hne & Hpl & Hv).
  destruct an as [|r rest]; [contradiction|].
  pose proof Hpl as Hpl'. cbn [forallb] in Hpl'. apply andb_true_iff in Hpl' as [Hr Hrest].
  destruct (tag_blank n done g toks p B Hok0) as (g1 & E1 & K1).
  destruct (tag_first n done g1 toks (adv p cSP) r K1 Hok0 Hr) as (g2 & E2 & A2).
  destruct (aname_loop n done rest [r] g2 toks (adv (adv p cSP) r) A2) as (g3 & p3 & E3 & A3);
    [cbn [forallb]; rewrite Hr; reflexivity|exact Hrest|].
  cbn [app] in A3.
  pose proof (trim_sp_noend _ (aplain_ends _ Hpl)) as Ht.
  destruct v as [v|].
  - destruct Hv as (Hvok & Hc). destruct v as [|f t]; [discriminate|]. cbn [value_okb] in Hvok.
    destruct A3 as [buf gs attrs cm cd ans ane av avs ave Hs].
    assert (plain f = true) as Hf.
    { destruct (is_quote f) eqn:Hq; [exact (quote_plain _ Hq)|].
      cbn [forallb] in Hvok. apply andb_true_iff in Hvok as [Hvok _]. exact Hvok. }
    apply plain_inv in Hf as [Hf1 Hf2].
    destruct (is_quote f) eqn:Hq.
    + destruct (rev t) as [|l m] eqn:Et; [discriminate|].
      apply andb_true_iff in Hvok as [Hl Hm]. apply N.eqb_eq in Hl. subst l.
      assert (t = rev m ++ [f]) as ->.
      { rewrite <- (rev_involutive t), Et. reflexivity. }
      edestruct (q_loop n done (r :: rest) f Hq (rev m) [] (mkTag TAttrValue ((buf ++ [cEQ]) ++ [f]) gs attrs n cm cd (r :: rest) ans ane [f] (adv p3 cEQ) (adv (adv p3 cEQ) f)) toks (adv (adv p3 cEQ) f)) as (g4 & p4 & E4 & A4).
      * apply AVl. exact Hs.
      * apply forallb_rev_true. exact Hm.
      * cbn [app] in A4.
        destruct A4 as [buf4 gs4 attrs4 cm4 cd4 ans4 ane4 avs4 ave4 Hs4].
        eexists _, _. split.
        -- cbn [print_wattr app fold_left]. rewrite E1, E2.
           change (rest ++ cEQ :: f :: rev m ++ [f]) with (rest ++ [cEQ; f] ++ rev m ++ [f]).
           rewrite run_app, E3. rewrite run_app. cbn [fold_left app].
           rewrite aname_eq by exact Heq. rewrite aval_first by assumption.
           rewrite run_app, E4. cbn [fold_left].
           rewrite aval_q_end; [reflexivity|exact Hq| |].
           ++ apply Hc; [exact Ht|reflexivity].
           ++ rewrite Ht. exact (not_dup _ _ _ _ Hs4 (proj1 Hok)).
        -- apply BSpace. apply shapes_snoc; [exact Hs4|exact Ht|reflexivity].
    + cbn [forallb] in Hvok. apply andb_true_iff in Hvok as [_ Hvt].
      edestruct (u_loop n done (r :: rest) f Hq t [] (mkTag TAttrValue ((buf ++ [cEQ]) ++ [f]) gs attrs n cm cd (r :: rest) ans ane [f] (adv p3 cEQ) (adv (adv p3 cEQ) f)) toks (adv (adv p3 cEQ) f)) as (g4 & p4 & E4 & A4).
      * apply AVl. exact Hs.
      * exact Hvt.
      * cbn [app] in A4.
        destruct A4 as [buf4 gs4 attrs4 cm4 cd4 ans4 ane4 avs4 ave4 Hs4].
        eexists _, _. split.
        -- cbn [print_wattr app fold_left]. rewrite E1, E2.
           change (rest ++ cEQ :: f :: t) with (rest ++ [cEQ; f] ++ t).
           rewrite run_app, E3. rewrite run_app. cbn [fold_left app].
           rewrite aname_eq by exact Heq. rewrite aval_first by assumption.
           exact E4.
        -- apply BVal; assumption.
  - destruct A3 as [buf gs attrs cm cd ans ane av avs ave Hs].
    eexists _, _. split.
    + cbn [print_wattr fold_left]. rewrite E1, E2. exact E3.
    + apply BPend. exact Hs.
Qed.

Lemma tag_attrs n : forall rest done g toks p,
  bnd n done g -> attrs_ok (done ++ rest) ->
  exists g' p', run (concat (map print_wattr rest)) (mkS toks p (MTag g)) = mkS toks p' (MTag g') /\
                bnd n (done ++ rest) g'.
Proof.
  induction rest as [|a rest IH]; intros done g toks p B Hok.
  - exists g, p. rewrite app_nil_r. split; [reflexivity|exact B].
  - destruct (tag_attr n done a g toks p B (attrs_ok_prefix _ _ _ Hok)) as (g1 & p1 & E1 & B1).
    change (a :: rest) with ([a] ++ rest) in Hok. rewrite app_assoc in Hok.
    destruct (IH (done ++ [a]) g1 toks p1 B1 Hok) as (g2 & p2 & E2 & B2).
    exists g2, p2. split.
    + cbn [map concat]. rewrite run_app, E1. exact E2.
    + change (a :: rest) with ([a] ++ rest). rewrite app_assoc. exact B2.
Qed.

Lemma tag_scan toks p p0 n attrs :
  wf_wtok (WTag n attrs) ->
  exists p' tok,
    run (n ++ concat (map print_wattr attrs) ++ [cGT]) (mkS toks p (MTag (new_tag p0))) = mkS (tok :: toks) p' MInit /\
    shape_of tok = shape_of_w (WTag n attrs).
Proof.
  intros (W1 & W2 & W3 & W4 & W5 & W6).
  destruct (name_loop n [] toks p [cLT] p0 [] [] [] [] (0,0) (0,0) [] (0,0) (0,0) W1 W2 W3) as (p1 & buf1 & E1).
  cbn [app] in E1.
  assert (attrs_ok ([] ++ attrs)) as Hok by (split; [apply distinctb_NoDup; exact W5|exact W6]).
  edestruct (tag_attrs n attrs [] _ toks p1 (BName n buf1 p0 [] [] [] (0,0) (0,0) [] (0,0) (0,0)) Hok) as (g2 & p2 & E2 & B2).
  cbn [app] in B2, Hok.
  destruct (tag_close n attrs g2 toks p2 B2 Hok) as (tok & E3 & Hsh).
  exists (adv p2 cGT), tok. split; [|exact Hsh].
  rewrite run_app. unfold new_tag. rewrite E1, run_app, E2. cbn [fold_left]. exact E3.
Qed.

(* ================= (5) text ================= *)

Lemma text_loop : forall (rest acc : str) toks p st a b c d e,
  forallb (fun c => negb (N.eqb c cLT)) rest = true ->
  exists p' a' b' c' d' e',
    run rest (mkS toks p (MText (mkText acc st false a b c d e))) =
    mkS toks p' (MText (mkText (acc ++ rest) st false a' b' c' d' e')).
Proof.
  induction rest as [|r rest IH]; intros acc toks p st a b c d e H.
  - exists p, a, b, c, d, e. rewrite app_nil_r. reflexivity.
  - cbn [forallb] in H. apply andb_true_iff in H as [Hr H]. apply negb_true_iff in Hr.
    cbn [fold_left]. rewrite text_char by exact Hr.
    destruct (IH (acc ++ [r]) toks (adv p r) st [] [] (0,0) [] [] H) as (p' & a' & b' & c' & d' & e' & E).
    exists p', a', b', c', d', e'. rewrite E, <- app_assoc. reflexivity.
Qed.

Lemma text_scan toks p (s : str) :
  raw_tag_of_last toks = None -> wf_wtok (WText s) ->
  exists p' st a b c d e, run s (mkS toks p MInit) = mkS toks p' (MText (mkText s st false a b c d e)).
Proof.
  intros Hraw (Hne & Hs). destruct s as [|r rest]; [contradiction|].
  cbn [forallb] in Hs. apply andb_true_iff in Hs as [Hr Hs]. apply negb_true_iff in Hr.
  destruct (text_loop rest [r] toks (adv p r) p [] [] (0,0) [] [] Hs) as (p' & a' & b' & c' & d' & e' & E).
  exists p', p, a', b', c', d', e'. cbn [fold_left]. rewrite init_char by assumption. exact E.
Qed.

(* ================= (6) sequences ================= *)

(* every written form other than text starts with '<' and ends in the initial mode *)
Lemma nontext_scan w : is_text w = false -> wf_wtok w ->
  exists body, print_wtok w = cLT :: body /\
    forall toks p p0, exists p' tok,
      run body (mkS toks p (MTag (new_tag p0))) = mkS (tok :: toks) p' MInit /\ shape_of tok = shape_of_w w.
Proof.
  intros Ht W. destruct w as [s|b|b|n attrs]; [discriminate| | |].
  - exists (sBANGDD ++ b ++ sDDGT). split; [reflexivity|]. intros toks p p0. apply comment_scan. exact W.
  - exists (sCDATA ++ b ++ sRRGT). split; [reflexivity|]. intros toks p p0. apply cdata_scan. exact W.
  - exists (n ++ concat (map print_wattr attrs) ++ [cGT]). split; [reflexivity|]. intros toks p p0. apply tag_scan. exact W.
Qed.

Lemma raw_of_shape tok toks w :
  shape_of tok = shape_of_w w -> wf_wtok w -> raw_tag_of_last (tok :: toks) = None.
Proof.
  intros H W. unfold Scan.raw_tag_of_last. unfold shape_of in H.
  destruct (t_kind tok) eqn:K; [|reflexivity|reflexivity|reflexivity].
  destruct w as [s|b|b|n attrs]; cbn [shape_of_w] in H; try discriminate.
  injection H as Hn _. destruct W as (_ & _ & _ & W4 & _). rewrite Hn, W4. reflexivity.
Qed.

(* scanner states between tokens, with the shapes already produced (a pending text counts as produced) *)
Inductive sok : sstate -> list shape -> Prop :=
| SInit toks p : raw_tag_of_last toks = None -> sok (mkS toks p MInit) (map shape_of (rev toks))
| SText toks p buf st a b c d e :
    sok (mkS toks p (MText (mkText buf st false a b c d e))) (map shape_of (rev toks) ++ [(KText, buf, [])]).

Definition is_init (s : sstate) : bool := match s_mode s with MInit => true | _ => false end.
Definition first_not_text (ws : list wtok) : bool :=
  match ws with w :: _ => negb (is_text w) | [] => true end.

Lemma run_seq : forall ws s sh,
  sok s sh -> Forall wf_wtok ws -> sep_ok ws = true ->
  is_init s = true \/ first_not_text ws = true ->
  exists out, finish (run (print_wtoks ws) s) = inl out /\ map shape_of out = sh ++ map shape_of_w ws.
Proof.
  induction ws as [|w ws IH]; intros s sh Hs Hwf Hsep Hadj.
  - cbn [print_wtoks map concat fold_left]. rewrite app_nil_r.
    destruct Hs as [toks p Hraw|toks p buf st a b c d e].
    + eexists. split; [reflexivity|reflexivity].
    + eexists. split; [reflexivity|]. cbn [s_toks s_pos x_buf x_start rev]. rewrite map_app. reflexivity.
  - inversion Hwf as [|w' ws' Hw Hws]; subst w' ws'.
    cbn [sep_ok] in Hsep. apply andb_true_iff in Hsep as [Hsep1 Hsep].
    change (print_wtoks (w :: ws)) with (print_wtok w ++ print_wtoks ws). rewrite run_app.
    destruct (is_text w) eqn:Ht.
    + (* text: the scanner must be in the initial mode *)
      destruct w as [s0| | |]; try discriminate.
      destruct Hadj as [Hadj|Hadj]; [|cbn in Hadj; discriminate].
      destruct Hs as [toks p Hraw|toks p buf st a b c d e]; [|discriminate].
      destruct (text_scan toks p s0 Hraw Hw) as (p' & st & a & b & c & d & e & E).
      cbn [print_wtok]. rewrite E.
      edestruct (IH _ _ (SText toks p' s0 st a b c d e) Hws Hsep) as (out & Ho & Hsh).
      { right. cbn [negb orb] in Hsep1. exact Hsep1. }
      exists out. split; [exact Ho|]. rewrite Hsh, <- app_assoc. reflexivity.
    + destruct (nontext_scan w Ht Hw) as (body & Hp & Hb). rewrite Hp. cbn [fold_left].
      assert (exists toks' p1 p0, step s cLT = mkS toks' p1 (MTag (new_tag p0)) /\ map shape_of (rev toks') = sh)
        as (toks' & p1 & p0 & E1 & Hsh1).
      { destruct Hs as [toks p Hraw|toks p buf st a b c d e].
        - exists toks, (adv p cLT), p. split; [apply init_lt; exact Hraw|reflexivity].
        - exists (mkTok KText buf st p [] [] :: toks), (adv p cLT), p. split; [apply text_lt|].
          cbn [rev]. rewrite map_app. reflexivity. }
      rewrite E1. destruct (Hb toks' p1 p0) as (p2 & tok & E2 & Hsh2). rewrite E2.
      edestruct (IH _ _ (SInit (tok :: toks') p2 (raw_of_shape _ _ _ Hsh2 Hw)) Hws Hsep) as (out & Ho & Hsh).
      { left. reflexivity. }
      exists out. split; [exact Ho|]. rewrite Hsh. cbn [rev map]. rewrite map_app, Hsh1. cbn [map].
      rewrite Hsh2, <- app_assoc. reflexivity.
Qed.

Theorem print_scan_section ws :
  wf_wtoks ws ->
  exists toks, scan (print_wtoks ws) = inl toks /\ map shape_of toks = map shape_of_w ws.
Proof.
  intros [Hsep Hwf]. unfold Scan.scan, init.
  destruct (run_seq ws (mkS [] (1,1) MInit) [] (SInit [] (1,1) eq_refl) Hwf Hsep) as (out & Ho & Hsh).
  { left. reflexivity. }
  exists out. split; [exact Ho|exact Hsh].
Qed.

End P.

(* ================= main statements ================= *)

(* C17, first sentence: scanning the printed form of a well-formed sequence of written tokens
   recovers the sequence (kinds, tag names, attribute names / raw values in order, text contents). *)
Theorem print_scan : forall (is_space : rune -> bool) (to_lower : rune -> rune) (text_tags : list str)
    (attr_prefix : str) (compile : attr -> bool),
  oracle_ok is_space ->
  forall ws, wf_wtoks is_space to_lower text_tags attr_prefix compile ws ->
  exists toks, scan is_space to_lower text_tags attr_prefix compile (print_wtoks ws) = inl toks /\
               map shape_of toks = map shape_of_w ws.
Proof. exact print_scan_section. Qed.

(* the same with the produced tokens spelled out component-wise *)
Corollary print_scan_length : forall is_space to_lower text_tags attr_prefix compile,
  oracle_ok is_space ->
  forall ws, wf_wtoks is_space to_lower text_tags attr_prefix compile ws ->
  exists toks, scan is_space to_lower text_tags attr_prefix compile (print_wtoks ws) = inl toks /\
               length toks = length ws.
Proof.
  intros is_space to_lower text_tags attr_prefix compile Hor ws Hwf.
  destruct (print_scan _ _ _ _ _ Hor ws Hwf) as (toks & H1 & H2).
  exists toks. split; [exact H1|]. rewrite <- (map_length shape_of toks), H2. apply map_length.
Qed.

(* ---------- non-vacuity: every written form, both attribute-value forms, adjacent tags ---------- *)
Definition ex_space (r : rune) : bool := N.eqb r 32 || N.eqb r 10 || N.eqb r 9.
Definition ex_ws : list wtok :=
  [ WText [104; 105; 32; 62];                                   (* hi >   *)
    WComment [32; 110; 45; 45; 32];                             (* <!-- n-- --> *)
    WTag [112] [WA [97] None;                                   (* <p a :else b="x >y" c='' d=u=1 e> *)
                WA [58; 101; 108; 115; 101] (Some [34; 49; 34]);
                WA [98] (Some [34; 120; 32; 62; 121; 34]);
                WA [99] (Some [39; 39]);
                WA [100] (Some [117; 61; 49]);
                WA [101] None];
    WCData [93; 93; 32; 60; 62];                                (* <![CDATA[]] <>]]> *)
    WTag [47; 112] [];                                          (* </p> *)
    WTag [98; 114; 47] [WA [120] (Some [49])];                  (* <br/ x=1> *)
    WText [116; 97; 105; 108] ].                                (* tail *)

Lemma ex_oracle : oracle_ok ex_space.
Proof.
  repeat split; try reflexivity.
  intros c Hc. cbn [In] in Hc.
  repeat (destruct Hc as [Hc|Hc]; [subst c; reflexivity|]). contradiction.
Qed.

Lemma ex_wf : wf_wtoks ex_space (fun r => r) [[115;99;114;105;112;116]] [58] (fun _ => true) ex_ws.
Proof.
  split; [reflexivity|]. unfold ex_ws.
  repeat (apply Forall_cons || apply Forall_nil);
    cbn [wf_wtok wf_wattr]; repeat split; try discriminate; try (vm_compute; reflexivity);
    repeat (apply Forall_cons || apply Forall_nil); cbn [wf_wattr]; repeat split; try discriminate;
    try (vm_compute; reflexivity).
Qed.

Example print_scan_example :
  exists toks,
    scan ex_space (fun r => r) [[115;99;114;105;112;116]] [58] (fun _ => true) (print_wtoks ex_ws) = inl toks /\
    map shape_of toks = map shape_of_w ex_ws /\ length toks = 7%nat.
Proof. eexists. split; [vm_compute; reflexivity|]. split; vm_compute; reflexivity. Qed.

(* the same through the theorem *)
Example print_scan_example_thm :
  exists toks,
    scan ex_space (fun r => r) [[115;99;114;105;112;116]] [58] (fun _ => true) (print_wtoks ex_ws) = inl toks /\
    map shape_of toks = map shape_of_w ex_ws.
Proof. exact (print_scan _ _ _ _ _ ex_oracle ex_ws ex_wf). Qed.

Print Assumptions print_scan.
Print Assumptions print_scan_length.
Print Assumptions print_scan_example.
Print Assumptions print_scan_example_thm.

Lemma print_scan_nonvacuous : exists is_space to_lower text_tags attr_prefix compile ws,
  oracle_ok is_space /\ wf_wtoks is_space to_lower text_tags attr_prefix compile ws /\ length ws = 7%nat.
Proof.
  exists ex_space, (fun r => r), [[115;99;114;105;112;116]], [58], (fun _ => true), ex_ws.
  split; [exact ex_oracle | split; [exact ex_wf | reflexivity]].
Qed.
