(* C01, last clause: examples for Proofs/IdempotentMain.v.
   (1) non-vacuity: the pipeline theorem applied to a document with the irregular forms (blanks around '=', quoted value
       directly followed by a name, value ending in '/', empty last value, <br/>, text with '>', comment, CDATA, close tag
       with blanks, self-closing raw-text tag whose close tag is stray and contains blanks, empty tag name, empty attribute
       name, close tag with attributes, raw-text element closed by </title TAB>), under a position-dependent directive
       compiler;
   (2) each hypothesis that is known to be necessary, with a counterexample when it is dropped. *)
From Coq Require Import List NArith Bool Lia Arith.
From Tpl Require Import Html.Scan Html.Tree Html.Pipeline Proofs.ScanSpec Proofs.PrintScanDefs Proofs.TagPrint Proofs.ExecSpec
  Proofs.TagPrintTree Proofs.TagPrintExample Proofs.Idempotent Proofs.IdempotentMain.
Import ListNotations.
Open Scope N_scope.

Definition dfb (prefix : str) (toks : list token) : bool :=
  forallb (fun t => forallb (fun a => negb (prefixb prefix (a_name a))) (t_attrs t)) toks.
Lemma dfb_sound prefix toks : dfb prefix toks = true -> directive_free prefix toks.
Proof.
  unfold dfb. intros H t a Ht Ha. rewrite forallb_forall in H. specialize (H t Ht). rewrite forallb_forall in H.
  specialize (H a Ha). apply negb_true_iff in H. exact H.
Qed.

(* ---------- (1) ---------- *)
(* <P  a = 'x'b c=y/ d= ><br/>t>x<!-- c --><![CDATA[z]]></ p ><script a/>if(a</b)</scr ipt >< =q\n></p x>< !-- y --><title>T</title\t><p a=1 =2 e=>tail *)
Definition ex2_doc : str := [60; 80; 32; 32; 97; 32; 61; 32; 39; 120; 39; 98; 32; 99; 61; 121; 47; 32; 100; 61; 32; 62; 60; 98; 114; 47; 62; 116; 62; 120; 60; 33; 45; 45; 32; 99; 32; 45; 45; 62; 60; 33; 91; 67; 68; 65; 84; 65; 91; 122; 93; 93; 62; 60; 47; 32; 112; 32; 62; 60; 115; 99; 114; 105; 112; 116; 32; 97; 47; 62; 105; 102; 40; 97; 60; 47; 98; 41; 60; 47; 115; 99; 114; 32; 105; 112; 116; 32; 62; 60; 32; 61; 113; 10; 62; 60; 47; 112; 32; 120; 62; 60; 32; 33; 45; 45; 32; 121; 32; 45; 45; 62; 60; 116; 105; 116; 108; 101; 62; 84; 60; 47; 116; 105; 116; 108; 101; 9; 62; 60; 112; 32; 97; 61; 49; 32; 61; 50; 32; 101; 61; 62; 116; 97; 105; 108].
Definition ex2_tags : list str := [[115; 99; 114; 105; 112; 116]; [115; 116; 121; 108; 101]; [116; 105; 116; 108; 101]].
(* a directive compiler that depends on the source position: accepts only values that start in the first 3 columns *)
Definition ex2_parse_ok : pos -> str -> bool := fun p _ => N.leb (snd p) 3.
Notation ex2_scan := (scan_html ex_space ex_lower ex2_tags [58] ex2_parse_ok).

Example ex2_idempotent :
  match ex2_scan ex2_doc with
  | inl toks =>
    let out := print_plain (build ex_lower ex_void toks) in
    length toks = 17%nat /\
    exists toks2, ex2_scan out = inl toks2 /\ map shape_of toks2 = map shape_of toks /\
                  print_plain (build ex_lower ex_void toks2) = out
  | inr _ => False
  end.
Proof.
  destruct (ex2_scan ex2_doc) as [toks|e] eqn:Hs; [|vm_compute in Hs; discriminate Hs].
  assert (Hdf : directive_free [58] toks).
  { apply dfb_sound. vm_compute in Hs. injection Hs as <-. vm_compute. reflexivity. }
  split; [vm_compute in Hs; injection Hs as <-; reflexivity|].
  destruct (render_idempotent_pipeline ex_space ex_lower ex2_tags ex_void [58] ex2_parse_ok
              eq_refl eq_refl eq_refl eq_refl eq_refl ex_lower_slash ex2_doc toks Hs Hdf)
    as (toks2 & H1 & _ & H3 & H4 & _).
  exists toks2. auto.
Qed.

(* the same, by computation: the render differs from the source (blanks inside tags) and is a fixed point *)
Example ex2_by_computation :
  match ex2_scan ex2_doc with
  | inl toks =>
    let out := print_plain (build ex_lower ex_void toks) in
    out <> ex2_doc /\
    match ex2_scan out with
    | inl toks2 => map shape_of toks2 = map shape_of toks /\ print_plain (build ex_lower ex_void toks2) = out
    | inr _ => False
    end
  | inr _ => False
  end.
Proof. vm_compute. split; [discriminate|split; reflexivity]. Qed.

(* ---------- (2) necessity ---------- *)
Definition rescans_same (sc : str -> list token + serr) (bd : list token -> node) (src : str) : Prop :=
  match sc src with
  | inl toks => match sc (print_plain (bd toks)) with
                | inl toks2 => map shape_of toks2 = map shape_of toks
                | inr _ => False
                end
  | inr _ => True
  end.

(* to_lower must not map another rune to '/':  <s a/>x<Xs>y  with to_lower 'X' = '/' and raw-text element s:
   the stray close tag <Xs> gets the name "/<Xs", is re-printed as </<Xs>, and the re-scan ends the raw text two runes later *)
Example needs_lower_slash :
  ~ rescans_same (scan ex_space bad_lower [[115]] [58] (fun _ => true)) (build ex_lower ex_void) [60; 115; 32; 97; 47; 62; 120; 60; 88; 115; 62; 121].
Proof. vm_compute. intros H. discriminate H. Qed.

(* the compiler must accept the document's valued attributes at ANY position:  <a  b=c>  is re-printed as <a b=c>, the
   value moves from column 7 to column 6 *)
Example needs_position_independence :
  ~ rescans_same (scan ex_space ex_lower [] [58] (fun a => N.leb 7 (snd (a_vstart a)))) (build ex_lower ex_void) [60; 97; 32; 32; 98; 61; 99; 62].
Proof. vm_compute. intros H. exact H. Qed.

(* ... including the synthetic value of a value-less prefix++else:  <a :else>  is printed as <a :else="true">, and the
   compiler is now asked about it (it was not when the source was scanned) *)
Example needs_else_accepted :
  ~ rescans_same (scan ex_space ex_lower [] [58] (fun a => negb (str_eqb (a_name a) [58;101;108;115;101]))) (build ex_lower ex_void) [60; 97; 32; 58; 101; 108; 115; 101; 62].
Proof. vm_compute. intros H. exact H. Qed.

(* the blank written by print_tag must be white space:  with TAB as the only white space,  <</ TAB s>  is printed
   as  <</ s>  and scanned as one name *)
Example needs_blank_is_space :
  ~ rescans_same (scan (fun r => N.eqb r 9) ex_lower [] [58] (fun _ => true)) (build ex_lower ex_void) [60; 60; 47; 9; 115; 62].
Proof. vm_compute. intros H. discriminate H. Qed.

Print Assumptions ex2_idempotent.
Print Assumptions needs_lower_slash.
Print Assumptions needs_position_independence.
Print Assumptions needs_else_accepted.
Print Assumptions needs_blank_is_space.
