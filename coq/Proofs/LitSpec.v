(* Specification-side definitions for string literals (C14): canonical quoting. *)
From Tpl Require Export Exp.Lit Html.Code.
Open Scope N_scope.

(* escape the delimiter, the backslash and the newline; everything else verbatim *)
Definition esc_rune (q c : rune) : str :=
  if N.eqb c q then [cBS; q] else if N.eqb c cBS then [cBS; cBS] else if N.eqb c cNL then [cBS; 110] else [c].
Definition quote_with (q : rune) (s : str) : str := q :: flat_map (esc_rune q) s ++ [q].
Definition quote_raw (s : str) : str := cBQ :: s ++ [cBQ].
