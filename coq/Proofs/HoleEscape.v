(* C02, structure clause, for the renderer's escape: whatever two values are inserted (escaped) in
   text position or inside a quoted attribute value, the sequence of tags and attribute names of
   the document is the same.  Uses escape_safe: escape never emits LT, GT, the double quote or the single quote. *)
From Coq Require Import List NArith Bool.
From Tpl Require Import Proofs.ExecSpec Proofs.EscapeProps Proofs.PrintScanDefs Proofs.HoleSim Proofs.HoleInvariant Proofs.HoleRaw.
Import ListNotations.
Open Scope N_scope.

Lemma escape_no (v : str) : ~ In cLT (escape v) /\ ~ In cGT (escape v) /\ ~ In cDQ (escape v) /\ ~ In cSQ (escape v).
Proof.
  repeat split; intros H; destruct (escape_safe v _ H) as (H1 & H2 & H3 & H4); congruence.
Qed.

Lemma escape_no_quote q (v : str) : is_quote q = true -> ~ In q (escape v).
Proof.
  intros Hq. destruct (escape_no v) as (_ & _ & Hd & Hs). unfold is_quote in Hq.
  apply orb_true_iff in Hq as [Hq|Hq]; apply N.eqb_eq in Hq; subst q; assumption.
Qed.

Section Esc.
Variable is_space : rune -> bool.
Variable to_lower : rune -> rune.
Variable text_tags : list str.
Variable attr_prefix : str.
Variable compile : attr -> bool.
(* ASSUMPTION: the attribute compiler does not look at source positions *)
Hypothesis Hcomp : forall a1 a2, a_name a1 = a_name a2 -> a_value a1 = a_value a2 -> compile a1 = compile a2.
Notation run := (@fold_left sstate rune (Scan.step is_space to_lower text_tags attr_prefix compile)).
Notation scan := (Scan.scan is_space to_lower text_tags attr_prefix compile).

Theorem escaped_insert_structure_text (pre post v1 v2 : str) :
  text_ctx to_lower text_tags (run pre init) ->
  (exists e, scan (pre ++ escape v1 ++ post) = inr e /\ scan (pre ++ escape v2 ++ post) = inr e) \/
  (exists toks1 toks2,
     scan (pre ++ escape v1 ++ post) = inl toks1 /\ scan (pre ++ escape v2 ++ post) = inl toks2 /\
     tag_struct toks1 = tag_struct toks2 /\
     map tok_np (filter (fun t => negb (is_text_tok t)) toks1) =
     map tok_np (filter (fun t => negb (is_text_tok t)) toks2)).
Proof.
  intros H0.
  destruct (text_hole_invariant is_space to_lower text_tags attr_prefix compile Hcomp pre (escape v1) (escape v2) post H0
              (proj1 (escape_no v1)) (proj1 (escape_no v2))) as [L|(t1 & t2 & E1 & E2 & S1 & S2 & _)]; [left; exact L|].
  right. exists t1, t2. auto.
Qed.

Theorem escaped_insert_structure_attr q (pre post v1 v2 : str) :
  attr_ctx q (run pre init) ->
  (forall a1 a2, a_name a1 = hole_aname (run pre init) -> a_name a2 = hole_aname (run pre init) -> compile a1 = compile a2) ->
  (exists e, scan (pre ++ escape v1 ++ post) = inr e /\ scan (pre ++ escape v2 ++ post) = inr e) \/
  (exists toks1 toks2,
     scan (pre ++ escape v1 ++ post) = inl toks1 /\ scan (pre ++ escape v2 ++ post) = inl toks2 /\
     tag_struct toks1 = tag_struct toks2 /\
     map shape_names toks1 = map shape_names toks2 /\ length toks1 = length toks2).
Proof.
  intros H0 Hhole. pose proof (proj1 H0) as Hq.
  destruct (attr_hole_invariant is_space to_lower text_tags attr_prefix compile Hcomp q pre (escape v1) (escape v2) post H0
              (escape_no_quote q v1 Hq) (escape_no_quote q v2 Hq) Hhole) as [L|(t1 & t2 & E1 & E2 & S1 & S2 & S3 & _)]; [left; exact L|].
  right. exists t1, t2. auto.
Qed.

(* the same inside a raw-text element (no candidate closing tag in progress at the hole) *)
Theorem escaped_insert_structure_raw (pre post v1 v2 : str) :
  raw_ctx (run pre init) ->
  (exists e, scan (pre ++ escape v1 ++ post) = inr e /\ scan (pre ++ escape v2 ++ post) = inr e) \/
  (exists toks1 toks2,
     scan (pre ++ escape v1 ++ post) = inl toks1 /\ scan (pre ++ escape v2 ++ post) = inl toks2 /\
     tag_struct toks1 = tag_struct toks2 /\
     map tok_np (filter (fun t => negb (is_text_tok t)) toks1) =
     map tok_np (filter (fun t => negb (is_text_tok t)) toks2)).
Proof.
  intros H0.
  destruct (raw_hole_invariant is_space to_lower text_tags attr_prefix compile Hcomp pre (escape v1) (escape v2) post H0
              (proj1 (escape_no v1)) (proj1 (escape_no v2))) as [L|(t1 & t2 & E1 & E2 & S1 & S2 & _)]; [left; exact L|].
  right. exists t1, t2. auto.
Qed.

(* both contexts, tag structure only *)
Theorem escaped_insert_structure (pre post v1 v2 : str) :
  text_ctx to_lower text_tags (run pre init) \/
  (exists q, attr_ctx q (run pre init) /\
     forall a1 a2, a_name a1 = hole_aname (run pre init) -> a_name a2 = hole_aname (run pre init) -> compile a1 = compile a2) ->
  ((exists toks, scan (pre ++ escape v1 ++ post) = inl toks) <-> (exists toks, scan (pre ++ escape v2 ++ post) = inl toks)) /\
  forall toks1 toks2,
    scan (pre ++ escape v1 ++ post) = inl toks1 -> scan (pre ++ escape v2 ++ post) = inl toks2 ->
    tag_struct toks1 = tag_struct toks2.
Proof.
  intros H.
  assert (D : (exists e, scan (pre ++ escape v1 ++ post) = inr e /\ scan (pre ++ escape v2 ++ post) = inr e) \/
              (exists toks1 toks2, scan (pre ++ escape v1 ++ post) = inl toks1 /\ scan (pre ++ escape v2 ++ post) = inl toks2 /\
                 tag_struct toks1 = tag_struct toks2)).
  { destruct H as [H|(q & H & Hhole)].
    - destruct (escaped_insert_structure_text pre post v1 v2 H) as [L|(t1 & t2 & E1 & E2 & S & _)]; [left; exact L|].
      right. exists t1, t2. auto.
    - destruct (escaped_insert_structure_attr q pre post v1 v2 H Hhole) as [L|(t1 & t2 & E1 & E2 & S & _)]; [left; exact L|].
      right. exists t1, t2. auto. }
  destruct D as [(e & E1 & E2)|(t1 & t2 & E1 & E2 & S)]; rewrite E1, E2.
  - split; [split; intros [t Ht]; discriminate|]. intros ? ? Ht; discriminate.
  - split; [split; intros _; eauto|]. intros a b Ha Hb. congruence.
Qed.
End Esc.

(* with an attribute compiler that accepts everything (a rendered document has no directive attributes),
   both assumptions on [compile] hold *)
Corollary escaped_insert_structure_nocompile is_space to_lower text_tags attr_prefix (pre post v1 v2 : str) :
  let run := @fold_left sstate rune (Scan.step is_space to_lower text_tags attr_prefix (fun _ => true)) in
  let scan := Scan.scan is_space to_lower text_tags attr_prefix (fun _ => true) in
  text_ctx to_lower text_tags (run pre init) \/ (exists q, attr_ctx q (run pre init)) ->
  ((exists toks, scan (pre ++ escape v1 ++ post) = inl toks) <-> (exists toks, scan (pre ++ escape v2 ++ post) = inl toks)) /\
  forall toks1 toks2,
    scan (pre ++ escape v1 ++ post) = inl toks1 -> scan (pre ++ escape v2 ++ post) = inl toks2 ->
    tag_struct toks1 = tag_struct toks2.
Proof.
  intros run scan H.
  apply (escaped_insert_structure is_space to_lower text_tags attr_prefix (fun _ => true) (fun _ _ _ _ => eq_refl)).
  destruct H as [H|[q H]]; [left; exact H|right]. exists q. split; [exact H|reflexivity].
Qed.

(* non-vacuity:  <p a=Q | escape of x<y  or  escape of the empty string | Q b>t</p>   (Q = double quote) *)
Example escaped_insert_example :
  escape [120;60;121] = hx_s1 /\ escape [] = [] /\
  attr_ctx cDQ (fold_left (Scan.step hx_space (fun r => r) [[115;99;114;105;112;116]] [58] (fun _ => true)) hx_pre2 init) /\
  text_ctx (fun r => r) [[115;99;114;105;112;116]]
    (fold_left (Scan.step hx_space (fun r => r) [[115;99;114;105;112;116]] [58] (fun _ => true)) hx_pre1 init) /\
  (exists toks1 toks2,
    Scan.scan hx_space (fun r => r) [[115;99;114;105;112;116]] [58] (fun _ => true) (hx_pre2 ++ escape [120;60;121] ++ hx_post2) = inl toks1 /\
    Scan.scan hx_space (fun r => r) [[115;99;114;105;112;116]] [58] (fun _ => true) (hx_pre2 ++ escape [] ++ hx_post2) = inl toks2 /\
    tag_struct toks1 = tag_struct toks2 /\ tag_struct toks1 = [([112], [[97]; [98]]); ([47;112], [])]).
Proof.
  split; [reflexivity|]. split; [reflexivity|]. split; [exact attr_ctx_example|]. split; [exact text_ctx_example|].
  eexists. eexists. split; [vm_compute; reflexivity|]. split; [vm_compute; reflexivity|]. split; reflexivity.
Qed.

Print Assumptions escaped_insert_structure_text.
Print Assumptions escaped_insert_structure_attr.
Print Assumptions escaped_insert_structure_raw.
Print Assumptions escaped_insert_structure.
Print Assumptions escaped_insert_structure_nocompile.
