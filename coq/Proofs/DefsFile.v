(* C07 / C19: [add_file] / [add_files] register the file and EVERY definition of its tree, at any
   depth, in one namespace; a second registration of a name is the duplicate-name error.
   Lifts Proofs/DefsRegistered.v ([add_defs]) with Proofs/DefsFuel.v (the fuel is sufficient). *)
From Coq Require Import List NArith Bool Lia String Ascii Permutation.
From Tpl Require Import Html.Exec Html.Manager Proofs.PureRenderTree Proofs.FsProps
  Proofs.DefsRegistered Proofs.DefsFuel.
Import ListNotations.
Open Scope N_scope.

Definition file_tp (root : node) : template := mkT (n_children root) (n_children root).

Lemma nodup_app : forall A (a b : list A), NoDup a -> NoDup b -> (forall x, In x a -> ~ In x b) -> NoDup (a ++ b).
Proof.
  induction a as [|x a IH]; intros b Ha Hb Hd; [exact Hb|].
  apply NoDup_cons_iff in Ha as [Hx Ha]. cbn [app]. constructor.
  - intros Hin. apply in_app_or in Hin as [Hin|Hin]; [exact (Hx Hin)|]. exact (Hd x (or_introl eq_refl) Hin).
  - apply IH; [exact Ha|exact Hb|]. intros y Hy. apply Hd. right. exact Hy.
Qed.
Lemma nodup_app_l : forall A (a b : list A), NoDup (a ++ b) -> NoDup a.
Proof.
  induction a as [|x a IH]; intros b H; [constructor|]. cbn [app] in H. apply NoDup_cons_iff in H as [Hx H].
  constructor; [|exact (IH _ H)]. intros Hin. apply Hx. apply in_or_app. left. exact Hin.
Qed.
Lemma nodup_app_disj : forall A (a b : list A), NoDup (a ++ b) -> forall x, In x a -> In x b -> False.
Proof.
  induction a as [|y a IH]; intros b H x Ha Hb; [destruct Ha|]. cbn [app] in H. apply NoDup_cons_iff in H as [Hy H].
  destruct Ha as [<-|Ha]; [apply Hy; apply in_or_app; right; exact Hb|exact (IH _ H x Ha Hb)].
Qed.

Section File.
Variable is_space : rune -> bool.
Variable to_lower : rune -> rune.
Variable is_letter : rune -> bool.
Variable is_udigit : rune -> bool.
Variable methods : N -> bool -> list (str * N).
Variable call_fn : N -> list value -> fres.
Variable text_tags : list str.
Variable void_elements : list str.
Variable tag_prefix : str.
Variable attr_prefix : str.
Variable global : scope.

Notation T := (list (str * template)).
Notation addfile := (add_file is_space to_lower is_letter is_udigit methods call_fn text_tags void_elements tag_prefix attr_prefix global).
Notation addfiles := (add_files is_space to_lower is_letter is_udigit methods call_fn text_tags void_elements tag_prefix attr_prefix global).
Notation adddefs := (add_defs is_space is_letter is_udigit methods call_fn tag_prefix attr_prefix global).
Notation loadf := (load is_space to_lower text_tags void_elements attr_prefix (pok is_letter is_udigit)).
Notation reg := (reg is_space is_letter is_udigit methods call_fn tag_prefix attr_prefix global).
Notation def_kind := (def_kind is_letter is_udigit methods call_fn tag_prefix attr_prefix global).
Notation def_name_of := (def_name_of is_letter is_udigit methods call_fn tag_prefix attr_prefix global).
Notation body_of := (body_of is_space).
Notation defs_of := (defs_of is_space is_letter is_udigit methods call_fn tag_prefix attr_prefix global).

(* [add_file] as a fold over the pre-order list of the loaded tree (no fuel) *)
Theorem add_file_spec : forall tps name src,
  addfile tps name src =
  match assoc name tps with
  | Some _ => (tps, Some LDup)
  | None =>
    match loadf src with
    | inr e => (tps, Some (LScan e))
    | inl root => reg (nodes root) (tps ++ [(name, file_tp root)])
    end
  end.
Proof.
  intros tps name src. unfold add_file.
  destruct (assoc name tps) as [tp|]; [reflexivity|].
  destruct (loadf src) as [root|e] eqn:El; [|reflexivity].
  apply add_defs_reg. exact (load_height _ _ _ _ _ _ _ _ El).
Qed.

(* 6. on success: the source loads, the file name was free and is registered with the whole tree,
      EVERY defining node of the tree (at any depth) is registered under its name with its trimmed
      children, nothing else is added, and all the names added are pairwise distinct and new *)
Theorem add_file_registers_all : forall tps name src tps',
  addfile tps name src = (tps', None) ->
  exists root,
    loadf src = inl root /\
    assoc name tps = None /\
    tps' = tps ++ (name, file_tp root) :: defs_of (nodes root) /\
    assoc name tps' = Some (file_tp root) /\
    (forall d nm, desc root d -> def_name_of d = Some nm ->
       assoc nm tps' = Some (mkT (trim_blank_ends is_space (n_children d)) (n_children d))) /\
    NoDup (name :: keys (defs_of (nodes root))) /\
    (forall k, In k (keys (defs_of (nodes root))) -> assoc k tps = None) /\
    (forall d, desc root d -> def_kind d <> DErr).
Proof.
  intros tps name src tps' H. rewrite add_file_spec in H.
  destruct (assoc name tps) as [tp|] eqn:Ea; [discriminate|].
  destruct (loadf src) as [root|e] eqn:El; [|discriminate].
  exists root. split; [reflexivity|]. split; [reflexivity|].
  pose proof (reg_ok _ _ _ _ _ _ _ _ _ _ _ H) as (Ht & Hall & Hnd & Hnew).
  pose proof (assoc_snoc_new _ name (file_tp root) tps Ea) as Hname.
  split; [rewrite Ht, <- app_assoc; reflexivity|].
  split; [rewrite Ht; apply assoc_app_some; exact Hname|].
  split.
  { intros d nm Hd Hn. apply desc_nodes in Hd.
    exact (reg_lookup _ _ _ _ _ _ _ _ _ _ _ H d nm Hd Hn). }
  split.
  { constructor; [|exact Hnd]. intros Hin. apply Hnew in Hin. rewrite Hname in Hin. discriminate. }
  split.
  { intros k Hk. apply Hnew in Hk. exact (assoc_app_none_l _ _ _ _ Hk). }
  intros d Hd. apply Hall. apply desc_nodes. exact Hd.
Qed.

(* success, characterised (in particular the fuel is never the reason of a failure) *)
Theorem add_file_success_iff : forall tps name src,
  (exists tps', addfile tps name src = (tps', None)) <->
  assoc name tps = None /\
  exists root, loadf src = inl root /\
    (forall d, desc root d -> def_kind d <> DErr) /\
    NoDup (name :: keys (defs_of (nodes root))) /\
    (forall k, In k (keys (defs_of (nodes root))) -> assoc k tps = None).
Proof.
  intros tps name src. split.
  - intros [tps' H]. destruct (add_file_registers_all _ _ _ _ H) as (root & El & Ea & _ & _ & _ & Hnd & Hnew & Hall).
    split; [exact Ea|]. exists root. auto.
  - intros (Ea & root & El & Hall & Hnd & Hnew). rewrite add_file_spec, Ea, El.
    apply NoDup_cons_iff in Hnd as [Hni Hnd].
    eexists. apply reg_complete; [|exact Hnd|].
    + intros d Hd. apply Hall. apply desc_nodes. exact Hd.
    + intros k Hk. apply assoc_app_none_both; [exact (Hnew k Hk)|].
      rewrite assoc_cons, assoc_nil, str_eqb_neq; [reflexivity|]. intros E. subst k. exact (Hni Hk).
Qed.

(* a definition whose name is taken -- by the manager, by the file itself, or by a defining node
   visited earlier -- makes [add_file] fail; the error is [LDup] when every define attribute visited
   before evaluates *)
Theorem add_file_definition_duplicate : forall tps name src root pre d post nm,
  assoc name tps = None -> loadf src = inl root ->
  nodes root = pre ++ d :: post -> def_name_of d = Some nm ->
  nm = name \/ assoc nm tps <> None \/ (exists d1, In d1 pre /\ def_name_of d1 = Some nm) ->
  snd (addfile tps name src) <> None /\
  ((forall p, In p pre -> def_kind p <> DErr) -> snd (addfile tps name src) = Some LDup).
Proof.
  intros tps name src root pre d post nm Ea El Hl Hn Hdup. unfold add_file. rewrite Ea, El.
  assert (Hdup' : assoc nm (tps ++ [(name, file_tp root)]) <> None \/ (exists d1, In d1 pre /\ def_name_of d1 = Some nm)).
  { destruct Hdup as [->|[Ht|Hd1]]; [left; apply assoc_snoc_self| |right; exact Hd1].
    left. destruct (assoc nm tps) as [tp|] eqn:E; [|congruence].
    unfold file_tp. rewrite (assoc_app_some _ _ _ _ _ E). discriminate. }
  destruct (add_defs_duplicate is_space is_letter is_udigit methods call_fn tag_prefix attr_prefix global
              (S (length src)) root _ pre d post nm Hl Hn Hdup') as [H1 H2].
  split; [exact H1|]. intros Hall. apply H2; [|exact Hall]. exact (load_height _ _ _ _ _ _ _ _ El).
Qed.

(* whatever the result, nothing registered before is changed or removed (the model does not roll
   back a partial registration either) *)
Theorem add_file_extends_app : forall tps name src tps' r,
  addfile tps name src = (tps', r) -> exists added, tps' = tps ++ added.
Proof.
  intros tps name src tps' r H. unfold add_file in H.
  destruct (assoc name tps) as [tp|]; [inversion H; subst; exists []; rewrite app_nil_r; reflexivity|].
  destruct (loadf src) as [root|e]; [|inversion H; subst; exists []; rewrite app_nil_r; reflexivity].
  destruct (DefsRegistered.add_defs_extends _ _ _ _ _ _ _ _ _ _ _ _ _ H) as [added ->].
  eexists. rewrite <- app_assoc. reflexivity.
Qed.

Theorem add_files_extends_app : forall files tps tps' r,
  addfiles tps files = (tps', r) -> exists added, tps' = tps ++ added.
Proof.
  induction files as [|[n s] files IH]; intros tps tps' r H.
  - inversion H; subst. exists []. rewrite app_nil_r. reflexivity.
  - cbn [add_files] in H. destruct (addfile tps n s) as [t1 [e|]] eqn:Hf.
    + inversion H; subst. exact (add_file_extends_app _ _ _ _ _ Hf).
    + destruct (add_file_extends_app _ _ _ _ _ Hf) as [a1 ->]. destruct (IH _ _ _ H) as [a2 ->].
      exists (a1 ++ a2). rewrite app_assoc. reflexivity.
Qed.

(* on success every file and every definition of every file is registered, whatever the order *)
Theorem add_files_registers_all : forall files tps tps',
  addfiles tps files = (tps', None) ->
  forall name src, In (name, src) files ->
  exists root, loadf src = inl root /\
    assoc name tps' = Some (file_tp root) /\
    (forall d nm, desc root d -> def_name_of d = Some nm ->
       assoc nm tps' = Some (mkT (trim_blank_ends is_space (n_children d)) (n_children d))).
Proof.
  induction files as [|[n s] files IH]; intros tps tps' H name src Hin; [destruct Hin|].
  cbn [add_files] in H. destruct (addfile tps n s) as [t1 [e|]] eqn:Hf; [discriminate|].
  destruct Hin as [Hin|Hin]; [|exact (IH _ _ H name src Hin)].
  inversion Hin; subst n s.
  destruct (add_file_registers_all _ _ _ _ Hf) as (root & El & _ & _ & Hname & Hdefs & _).
  destruct (add_files_extends_app _ _ _ _ H) as [added ->].
  exists root. split; [exact El|]. split; [apply assoc_app_some; exact Hname|].
  intros d nm Hd Hn. apply assoc_app_some. exact (Hdefs d nm Hd Hn).
Qed.

(* a name registered by an earlier file (file name or definition) cannot be defined again *)
Theorem add_files_duplicate : forall tps n s files tps1,
  addfile tps n s = (tps1, None) ->
  forall name src, In (name, src) files -> assoc name tps1 <> None ->
  snd (addfiles tps ((n, s) :: files)) <> None.
Proof.
  intros tps n s files tps1 Hf name src Hin Ha. cbn [add_files]. rewrite Hf.
  clear Hf. revert tps1 Ha. induction files as [|[n' s'] files IH]; intros t Ha; [destruct Hin|].
  cbn [add_files]. destruct (addfile t n' s') as [t1 [e|]] eqn:Hf'; [cbn [snd]; discriminate|].
  destruct Hin as [Hin|Hin].
  - inversion Hin; subst n' s'. rewrite (add_file_duplicate _ _ _ _ _ _ _ _ _ _ _ _ _ _ Ha) in Hf'. discriminate.
  - apply (IH Hin). destruct (add_file_extends_app _ _ _ _ _ Hf') as [added ->].
    destruct (assoc name t) as [tp|] eqn:E; [|congruence].
    rewrite (assoc_app_some _ _ _ _ _ E). discriminate.
Qed.

(* ---------- success of [add_files], characterised; it does not depend on the order ---------- *)
Definition file_names (f : str * str) : list str :=
  match loadf (snd f) with
  | inl root => fst f :: keys (defs_of (nodes root))
  | inr _ => [fst f]
  end.
Definition file_ok (f : str * str) : Prop :=
  exists root, loadf (snd f) = inl root /\ forall d, desc root d -> def_kind d <> DErr.

Theorem add_files_success_iff : forall files tps,
  (exists tps', addfiles tps files = (tps', None)) <->
  Forall file_ok files /\
  NoDup (flat_map file_names files) /\
  (forall k, In k (flat_map file_names files) -> assoc k tps = None).
Proof.
  induction files as [|[n s] files IH]; intros tps.
  - split; [intros _|intros _; eexists; reflexivity].
    split; [constructor|]. split; [constructor|intros k []].
  - cbn [add_files flat_map]. split.
    + intros [tps' H]. destruct (addfile tps n s) as [t1 [e|]] eqn:Hf; [discriminate|].
      destruct (add_file_registers_all _ _ _ _ Hf) as (root & El & Ea & Ht1 & _ & _ & Hnd & Hnew & Hall).
      destruct (proj1 (IH t1) (ex_intro _ tps' H)) as (Hok & Hnd' & Hnew').
      assert (En : file_names (n, s) = n :: keys (defs_of (nodes root))).
      { unfold file_names. cbn [fst snd]. rewrite El. reflexivity. }
      assert (Hk1 : keys t1 = keys tps ++ file_names (n, s)).
      { rewrite Ht1, keys_app, En. reflexivity. }
      split; [constructor; [exists root; split; [exact El|exact Hall]|exact Hok]|].
      split.
      * apply nodup_app; [rewrite En; exact Hnd|exact Hnd'|].
        intros k Hk Hk'. apply Hnew' in Hk'. apply (assoc_in_some _ k t1); [|exact Hk'].
        rewrite Hk1. apply in_or_app. right. exact Hk.
      * intros k Hk. apply in_app_or in Hk as [Hk|Hk].
        -- rewrite En in Hk. destruct Hk as [<-|Hk]; [exact Ea|exact (Hnew k Hk)].
        -- apply Hnew' in Hk. rewrite Ht1 in Hk. exact (assoc_app_none_l _ _ _ _ Hk).
    + intros (Hok & Hnd & Hnew). inversion Hok as [|f fs [root [El Hall]] Hok']; subst. cbn [snd] in El.
      assert (En : file_names (n, s) = n :: keys (defs_of (nodes root))).
      { unfold file_names. cbn [fst snd]. rewrite El. reflexivity. }
      rewrite En in Hnd, Hnew.
      assert (Hs : exists t1, addfile tps n s = (t1, None)).
      { apply add_file_success_iff. split; [apply Hnew; left; reflexivity|].
        exists root. split; [exact El|]. split; [exact Hall|].
        split; [exact (nodup_app_l _ _ _ Hnd)|].
        intros k Hk. apply Hnew. right. apply in_or_app. left. exact Hk. }
      destruct Hs as [t1 Hf]. rewrite Hf.
      destruct (add_file_registers_all _ _ _ _ Hf) as (root' & El' & _ & Ht1 & _).
      rewrite El in El'. inversion El'; subst root'.
      apply IH. split; [exact Hok'|]. split; [exact (NoDup_app_remove_l _ _ Hnd)|].
      intros k Hk. rewrite Ht1. apply assoc_app_none_both; [apply Hnew; apply in_or_app; right; exact Hk|].
      apply assoc_not_in_none. intros Hin.
      exact (nodup_app_disj _ _ _ Hnd k Hin Hk).
Qed.

(* C07: if the files load in one order they load in every order (and then every name resolves to
   the same template, [load_order_irrelevant] / [FragmentProps.add_files_templates_perm_empty]) *)
Theorem add_files_order_irrelevant_success : forall files1 files2 tps tps1,
  Permutation files1 files2 ->
  addfiles tps files1 = (tps1, None) ->
  exists tps2, addfiles tps files2 = (tps2, None).
Proof.
  intros files1 files2 tps tps1 Hp H.
  destruct (proj1 (add_files_success_iff files1 tps) (ex_intro _ tps1 H)) as (Hok & Hnd & Hnew).
  pose proof (Permutation_flat_map file_names Hp) as Hpf.
  apply add_files_success_iff. split; [exact (Permutation_Forall Hp Hok)|].
  split; [exact (Permutation_NoDup Hpf Hnd)|].
  intros k Hk. apply Hnew. exact (Permutation_in k (Permutation_sym Hpf) Hk).
Qed.

End File.

Print Assumptions add_file_spec.
Print Assumptions add_file_registers_all.
Print Assumptions add_file_success_iff.
Print Assumptions add_file_definition_duplicate.
Print Assumptions add_files_registers_all.
Print Assumptions add_files_duplicate.
Print Assumptions add_files_success_iff.
Print Assumptions add_files_order_irrelevant_success.

(* ================= non-vacuity ================= *)
Definition s2r (s : string) : str := map N_of_ascii (list_ascii_of_string s).
Definition x_space (r : rune) : bool := N.eqb r 32 || N.eqb r 10.
Definition x_lower (r : rune) : rune := r.
Definition x_letter (r : rune) : bool := (97 <=? r) && (r <=? 122).
Definition x_digit (_ : rune) : bool := false.
Definition x_methods (_ : N) (_ : bool) : list (str * N) := [].
Definition x_call (_ : N) (_ : list value) : fres := FPanic.
Definition x_global : scope := SData (VMap []).
Notation x_addfile := (add_file x_space x_lower x_letter x_digit x_methods x_call [] [] [116; 58] [58] x_global).
Notation x_addfiles := (add_files x_space x_lower x_letter x_digit x_methods x_call [] [] [116; 58] [58] x_global).
Notation x_load := (load x_space x_lower [] [] [58] (pok x_letter x_digit)).
Notation x_name := (def_name_of x_letter x_digit x_methods x_call [116; 58] [58] x_global).
(* the source text of a fragment body *)
Definition src_of (l : list node) : str := concat (map t_value (flat_map flatten l)).
Definition show (tps : list (str * template)) : list (str * str * str) :=
  map (fun kv => (fst kv, src_of (tp_children (snd kv)), src_of (tp_ctx (snd kv)))) tps.

(* a definition nested in a definition (b in a) and one nested in ordinary elements (c in ul/li) *)
Definition x_src : str :=
  s2r "<div :define=""a""> <u>x</u><i :define=""b"">y</i> </div><ul><li><b :define=""c"">z</b></li></ul>".

Eval vm_compute in (let '(tps, r) := x_addfile [] (s2r "f") x_src in (show tps, r)).

Example x_three_definitions :
  let '(tps, r) := x_addfile [] (s2r "f") x_src in
  r = None /\
  show tps =
    [ (s2r "f", x_src, x_src);
      (s2r "a", s2r "<u>x</u><i :define=""b"">y</i>", s2r " <u>x</u><i :define=""b"">y</i> ");   (* trimmed body / all children *)
      (s2r "b", s2r "y", s2r "y");
      (s2r "c", s2r "z", s2r "z") ].
Proof. vm_compute. split; reflexivity. Qed.

(* the defining nodes of the loaded tree, in pre-order, as [def_name_of] sees them *)
Example x_names :
  match x_load x_src with
  | inl root => flat_map (fun d => match x_name d with Some nm => [nm] | None => [] end) (nodes root)
                = [s2r "a"; s2r "b"; s2r "c"] /\ height root = 5%nat
  | inr _ => False
  end.
Proof. vm_compute. split; reflexivity. Qed.

(* the same through the theorem: the hypothesis (success) holds, the conclusion gives the lookups *)
Example x_by_theorem : forall tps',
  x_addfile [] (s2r "f") x_src = (tps', None) ->
  exists root, x_load x_src = inl root /\ assoc (s2r "f") tps' = Some (file_tp root) /\
    forall d nm, desc root d -> x_name d = Some nm ->
      assoc nm tps' = Some (mkT (trim_blank_ends x_space (n_children d)) (n_children d)).
Proof.
  intros tps' H. destruct (add_file_registers_all _ _ _ _ _ _ _ _ _ _ _ _ _ _ _ H) as (root & El & _ & _ & Hn & Hd & _).
  exists root. split; [exact El|]. split; [exact Hn|exact Hd].
Qed.
Example x_success : exists tps', x_addfile [] (s2r "f") x_src = (tps', None).
Proof. eexists. vm_compute. reflexivity. Qed.

(* duplicates: the same name twice in one file (nested); a definition named like its file; a
   definition of a name registered by an earlier file; what was registered before the failure stays *)
Example x_dup_nested :
  let '(tps, r) := x_addfile [] (s2r "f") (s2r "<div :define=""a"">x<i :define=""a"">y</i></div>") in
  r = Some LDup /\ map fst tps = [s2r "f"; s2r "a"].
Proof. vm_compute. split; reflexivity. Qed.
Example x_dup_file_name :
  snd (x_addfile [] (s2r "f") (s2r "<ul><li><b :define=""f"">z</b></li></ul>")) = Some LDup.
Proof. vm_compute. reflexivity. Qed.
Example x_dup_across_files :
  snd (x_addfiles [] [(s2r "f", x_src); (s2r "g", s2r "<p><q :define=""b"">w</q></p>")]) = Some LDup /\
  snd (x_addfiles [] [(s2r "f", x_src); (s2r "c", s2r "w")]) = Some LDup /\
  snd (x_addfiles [] [(s2r "f", x_src); (s2r "g", s2r "<p><q :define=""d"">w</q></p>")]) = None.
Proof. vm_compute. repeat split; reflexivity. Qed.
(* a define attribute that does not evaluate: [LEval], not a registration *)
Example x_eval_error :
  snd (x_addfile [] (s2r "f") (s2r "<a :define=""${x}"">x</a>")) = Some LEval.
Proof. vm_compute. reflexivity. Qed.
