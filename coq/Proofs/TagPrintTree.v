(* C01, last clause, tree side: what [print_plain (build toks)] is in terms of the token list, and
   that it differs from the source only by white space (inside tags).

   - [print_plain_tokens]: print_plain (build toks) = concat (ptoks 0 toks), where [ptoks] prints each
     token either verbatim ([t_value]) or, for a tag token that ends up as the OWN token of a node,
     by [print_tag].  A close tag that closes an open element is the node's [n_end] and is printed
     verbatim; a close tag met at depth 0 (stray) becomes a leaf and is printed by [print_tag].
   - [render_differs_only_by_space]: filter nonspace (print_plain (build toks)) = filter nonspace src
     for every scanned document whose tags carry no synthetic else value. *)
From Coq Require Import List NArith Bool Lia Arith.
From Tpl Require Import Proofs.ScanSpec Proofs.ScanConcat Proofs.BuildFlatten Proofs.ExecSpec Proofs.TagPrint.
Import ListNotations.
Open Scope N_scope.

(* ---------- 3. print_plain of a built tree, token by token ---------- *)

Definition head_str (t : token) : str :=
  match t_kind t with KTag => print_tag t | _ => t_value t end.
Definition opt_head (o : option token) : str := match o with Some t => head_str t | None => [] end.
Definition opt_val (o : option token) : str := match o with Some t => t_value t | None => [] end.

Lemma forall2_impl (A B : Type) (P Q : A -> B -> Prop) (l : list A) (m : list B) :
  (forall a b, P a b -> Q a b) -> Forall2 P l m -> Forall2 Q l m.
Proof. intros H F. induction F; constructor; auto. Qed.

Lemma print_plain_eq i tok ch e :
  print_plain (Node i tok ch e) = opt_head tok ++ flat_map print_plain ch ++ opt_val e.
Proof. destruct tok, e; reflexivity. Qed.

Section Build.
Variable to_lower : rune -> rune.
Variable void_elements : list str.
Notation is_void := (Tree.is_void to_lower void_elements).
Notation bstep := (Tree.bstep to_lower void_elements).
Notation build := (Tree.build to_lower void_elements).

(* the printed form of one token, given the number of open elements; and the new number *)
Definition ptok (depth : nat) (t : token) : str * nat :=
  match t_kind t with
  | KTag =>
    let v := is_void (t_name t) in
    if is_close t || v then
      if is_self_close t || v then (print_tag t, depth)                 (* <br>, <x/> : a leaf *)
      else match depth with
           | O => (print_tag t, O)                                     (* stray close tag: a leaf *)
           | S d => (t_value t, d)                                     (* closes an element: its n_end *)
           end
    else (print_tag t, S depth)                                        (* open tag *)
  | _ => (t_value t, depth)                                            (* text, comment, CDATA *)
  end.

Fixpoint ptoks (depth : nat) (toks : list token) : list str :=
  match toks with
  | [] => []
  | t :: r => fst (ptok depth t) :: ptoks (snd (ptok depth t)) r
  end.

(* every token is printed verbatim or (tags only) by print_tag *)
Definition printed_as (t : token) (o : str) : Prop :=
  (t_kind t <> KTag -> o = t_value t) /\ (o = t_value t \/ (t_kind t = KTag /\ o = print_tag t)).

Lemma ptok_spec d t : printed_as t (fst (ptok d t)).
Proof.
  unfold ptok, printed_as. destruct (t_kind t) eqn:Ek.
  - split; [intros H; contradiction H; reflexivity|].
    destruct (is_close t || is_void (t_name t)); [|right; split; reflexivity].
    destruct (is_self_close t || is_void (t_name t)); [right; split; reflexivity|].
    destruct d; [right; split; reflexivity|left; reflexivity].
  - split; [reflexivity|left; reflexivity].
  - split; [reflexivity|left; reflexivity].
  - split; [reflexivity|left; reflexivity].
Qed.

Lemma ptoks_spec : forall toks d, Forall2 printed_as toks (ptoks d toks).
Proof.
  induction toks as [|t toks IH]; intros d; cbn [ptoks]; constructor; [apply ptok_spec|apply IH].
Qed.

Lemma ptoks_length toks : forall d, length (ptoks d toks) = length toks.
Proof. induction toks as [|t toks IH]; intros d; cbn [ptoks length]; [reflexivity|rewrite IH; reflexivity]. Qed.

(* printed form of a reversed list of siblings / of the zipper *)
Definition pp_rev (cur : list node) : str := flat_map print_plain (rev cur).

Lemma pp_rev_cons n cur : pp_rev (n :: cur) = pp_rev cur ++ print_plain n.
Proof. unfold pp_rev. cbn [rev]. rewrite flat_map_app. cbn [flat_map]. rewrite app_nil_r. reflexivity. Qed.

Fixpoint sprint (st : list frame) : str :=
  match st with
  | [] => []
  | f :: st' => sprint st' ++ pp_rev (f_sibs f) ++ opt_head (f_tok f)
  end.

Definition zprint (b : bstate) : str := sprint (b_stack b) ++ pp_rev (b_cur b).

Lemma zprint_leaf cur st i n t :
  zprint (mkB (leaf i t :: cur) st n) = zprint (mkB cur st 0) ++ head_str t.
Proof.
  unfold zprint. cbn [b_stack b_cur]. rewrite pp_rev_cons. unfold leaf. rewrite print_plain_eq.
  cbn [opt_head opt_val flat_map app]. rewrite app_nil_r, app_assoc. reflexivity.
Qed.

Lemma bstep_zprint b t :
  zprint (bstep b t) = zprint b ++ fst (ptok (length (b_stack b)) t) /\
  length (b_stack (bstep b t)) = snd (ptok (length (b_stack b)) t).
Proof.
  destruct b as [cur st nx]. unfold Tree.bstep, ptok. cbn [b_cur b_stack b_next].
  assert (Hnt : t_kind t <> KTag -> head_str t = t_value t).
  { unfold head_str. destruct (t_kind t); [intros H; contradiction H; reflexivity|reflexivity..]. }
  assert (Htag : t_kind t = KTag -> head_str t = print_tag t).
  { unfold head_str. intros ->. reflexivity. }
  destruct (t_kind t) eqn:Ek;
    try (cbn [fst snd b_stack]; rewrite zprint_leaf, Hnt by discriminate; split; reflexivity).
  specialize (Htag eq_refl).
  destruct (is_close t || is_void (t_name t)).
  - destruct (is_self_close t || is_void (t_name t)).
    + cbn [fst snd b_stack]. rewrite zprint_leaf, Htag. split; reflexivity.
    + destruct st as [|f st']; cbn [length fst snd b_stack].
      * rewrite zprint_leaf, Htag. split; reflexivity.
      * split; [|reflexivity]. unfold zprint. cbn [b_stack b_cur sprint].
        rewrite pp_rev_cons, print_plain_eq. cbn [opt_val]. fold (pp_rev cur).
        rewrite <- !app_assoc. reflexivity.
  - cbn [fst snd b_stack length]. split; [|reflexivity].
    unfold zprint. cbn [b_stack b_cur sprint f_sibs f_tok opt_head].
    unfold pp_rev at 2. cbn [rev flat_map]. rewrite app_nil_r, Htag, <- !app_assoc. reflexivity.
Qed.

Lemma fold_bstep_zprint : forall toks b,
  zprint (fold_left bstep toks b) = zprint b ++ concat (ptoks (length (b_stack b)) toks).
Proof.
  induction toks as [|t toks IH]; intros b; cbn [fold_left ptoks concat].
  - rewrite app_nil_r. reflexivity.
  - destruct (bstep_zprint b t) as [Hz Hd]. rewrite IH, Hz, Hd, <- app_assoc. reflexivity.
Qed.

Lemma close_all_print : forall st cur, pp_rev (close_all cur st) = sprint st ++ pp_rev cur.
Proof.
  induction st as [|f st IH]; intros cur.
  - reflexivity.
  - cbn [close_all sprint]. rewrite IH, pp_rev_cons, print_plain_eq.
    cbn [opt_val]. fold (pp_rev cur). rewrite app_nil_r, <- !app_assoc. reflexivity.
Qed.

Theorem print_plain_tokens_sec (toks : list token) :
  print_plain (build toks) = concat (ptoks 0 toks).
Proof.
  unfold Tree.build. rewrite print_plain_eq. cbn [opt_head opt_val app]. rewrite app_nil_r.
  fold (pp_rev (close_all (b_cur (fold_left bstep toks (mkB [] [] 1)))
                          (b_stack (fold_left bstep toks (mkB [] [] 1))))).
  rewrite close_all_print. fold (zprint (fold_left bstep toks (mkB [] [] 1))).
  rewrite fold_bstep_zprint. reflexivity.
Qed.
End Build.

Theorem print_plain_tokens (to_lower : rune -> rune) (void_elements : list str) (toks : list token) :
  print_plain (build to_lower void_elements toks) = concat (ptoks to_lower void_elements 0 toks) /\
  Forall2 printed_as toks (ptoks to_lower void_elements 0 toks).
Proof. split; [apply print_plain_tokens_sec|apply ptoks_spec]. Qed.

(* the form asked for: a list of per-token strings *)
Corollary print_plain_tokens_ex (to_lower : rune -> rune) (void_elements : list str) (toks : list token) :
  exists outs : list str,
    print_plain (build to_lower void_elements toks) = concat outs /\
    Forall2 (fun t o => (t_kind t <> KTag -> o = t_value t) /\ (o = print_tag t \/ o = t_value t)) toks outs.
Proof.
  exists (ptoks to_lower void_elements 0 toks). destruct (print_plain_tokens to_lower void_elements toks) as [H1 H2].
  split; [exact H1|]. eapply forall2_impl; [|exact H2].
  intros t o [Ha [Hb|[_ Hb]]]; (split; [exact Ha|]); [right|left]; exact Hb.
Qed.

(* ---------- 4. the printed tree differs from the source only by white space ---------- *)

Section Render.
Variable is_space : rune -> bool.
Variable to_lower : rune -> rune.          (* of the scanner *)
Variable text_tags : list str.
Variable attr_prefix : str.
Variable compile : attr -> bool.
Variable tree_lower : rune -> rune.        (* of the tree builder (the same function in the pipeline) *)
Variable void_elements : list str.
Hypothesis Hsp : is_space cSP = true.

Notation scan := (Scan.scan is_space to_lower text_tags attr_prefix compile).
Notation build := (Tree.build tree_lower void_elements).
Notation ptoks := (ptoks tree_lower void_elements).
Notation nsp := (nsp is_space).
Notation lower := (Scan.lower to_lower).

Lemma nsp_concat (l : list str) : nsp (concat l) = concat (map nsp l).
Proof.
  induction l as [|x l IH]; [reflexivity|]. cbn [concat map]. rewrite nsp_app, IH. reflexivity.
Qed.

Lemma forall2_concat_rel (R : str -> str) (toks : list token) (outs : list str) :
  Forall2 (fun t o => R o = R (t_value t)) toks outs ->
  concat (map R outs) = concat (map R (map t_value toks)).
Proof.
  induction 1 as [|t o toks outs Hto _ IH]; [reflexivity|]. cbn [map concat]. rewrite Hto, IH. reflexivity.
Qed.

(* generic form: whatever makes the printed tags agree with their source up to white space *)
Theorem render_tokenwise_gen (toks : list token) :
  (forall t, In t toks -> t_kind t = KTag -> nsp (print_tag t) = nsp (t_value t)) ->
  exists outs : list str,
    print_plain (build toks) = concat outs /\
    Forall2 (fun t o => (t_kind t <> KTag -> o = t_value t) /\ nsp o = nsp (t_value t)) toks outs.
Proof.
  intros H. exists (ptoks 0 toks). split; [apply print_plain_tokens_sec|].
  pose proof (ptoks_spec tree_lower void_elements toks 0) as F.
  assert (G : forall l outs, Forall2 printed_as l outs -> (forall t, In t l -> In t toks) ->
            Forall2 (fun t o => (t_kind t <> KTag -> o = t_value t) /\ nsp o = nsp (t_value t)) l outs).
  { induction 1 as [|t o l outs Hto _ IH]; intros Hin; constructor.
    - destruct Hto as [Ha [Hb|[Hk Hb]]]; (split; [exact Ha|]).
      + rewrite Hb. reflexivity.
      + rewrite Hb. apply H; [apply Hin; left; reflexivity|exact Hk].
    - apply IH. intros t' Ht'. apply Hin. right. exact Ht'. }
  apply G; [exact F|auto].
Qed.

Theorem render_differs_only_by_space_gen (src : str) (toks : list token) :
  scan src = inl toks ->
  (forall t, In t toks -> t_kind t = KTag -> nsp (print_tag t) = nsp (t_value t)) ->
  nsp (print_plain (build toks)) = nsp src.
Proof.
  intros Hs H. destruct (render_tokenwise_gen toks H) as (outs & Hp & F).
  rewrite Hp, <- (scan_concat _ _ _ _ _ _ _ Hs), !nsp_concat.
  apply (forall2_concat_rel nsp). eapply forall2_impl; [|exact F]. intros t o [_ E]. exact E.
Qed.

(* 4a: no raw-text elements configured: only [is_space 32 = true] is needed *)
Theorem render_differs_only_by_space_notext (src : str) (toks : list token) :
  text_tags = [] ->
  scan src = inl toks ->
  (forall t, In t toks -> t_kind t = KTag -> no_synth_else attr_prefix t) ->
  nsp (print_plain (build toks)) = nsp src.
Proof.
  intros Htt Hs Hn. apply render_differs_only_by_space_gen; [exact Hs|].
  intros t Ht Hk.
  destruct (tag_print_general is_space to_lower text_tags attr_prefix compile Hsp src toks Hs t Ht Hk) as [He|Hc].
  - apply (emitted_exact is_space attr_prefix); [apply Hn; assumption|exact He].
  - destruct Hc as (_ & _ & _ & n & Hin & _). rewrite Htt in Hin. contradiction Hin.
Qed.

Section RawClose.
Hypothesis HltS : is_space cLT = false.
Hypothesis HgtS : is_space cGT = false.
Hypothesis HslL : forall c, to_lower c = cSLASH -> c = cSLASH.

(* 4: every scanned document without synthetic else values *)
Theorem render_differs_only_by_space (src : str) (toks : list token) :
  scan src = inl toks ->
  (forall t, In t toks -> t_kind t = KTag -> no_synth_else attr_prefix t) ->
  nsp (print_plain (build toks)) = nsp src /\
  exists outs : list str,
    print_plain (build toks) = concat outs /\
    Forall2 (fun t o => (t_kind t <> KTag -> o = t_value t) /\ nsp o = nsp (t_value t)) toks outs.
Proof.
  intros Hs Hn.
  assert (H : forall t, In t toks -> t_kind t = KTag -> nsp (print_tag t) = nsp (t_value t)).
  { intros t Ht Hk.
    apply (tag_print_nonspace is_space to_lower text_tags attr_prefix compile Hsp HltS HgtS HslL src toks Hs t Ht Hk).
    apply Hn; assumption. }
  split; [apply render_differs_only_by_space_gen; assumption|apply render_tokenwise_gen; exact H].
Qed.
End RawClose.
End Render.

(* ---------- closed statements ---------- *)
Check (print_plain_tokens : forall (to_lower : rune -> rune) (void_elements : list str) (toks : list token),
  print_plain (build to_lower void_elements toks) = concat (ptoks to_lower void_elements 0 toks) /\
  Forall2 printed_as toks (ptoks to_lower void_elements 0 toks)).
Check (render_differs_only_by_space_gen : forall (is_space : rune -> bool) (to_lower : rune -> rune)
    (text_tags : list str) (attr_prefix : str) (compile : attr -> bool)
    (tree_lower : rune -> rune) (void_elements : list str) (src : str) (toks : list token),
  scan is_space to_lower text_tags attr_prefix compile src = inl toks ->
  (forall t, In t toks -> t_kind t = KTag -> nsp is_space (print_tag t) = nsp is_space (t_value t)) ->
  nsp is_space (print_plain (build tree_lower void_elements toks)) = nsp is_space src).
Check (render_differs_only_by_space_notext : forall (is_space : rune -> bool) (to_lower : rune -> rune)
    (text_tags : list str) (attr_prefix : str) (compile : attr -> bool)
    (tree_lower : rune -> rune) (void_elements : list str),
  is_space cSP = true ->
  forall (src : str) (toks : list token),
  text_tags = [] ->
  scan is_space to_lower text_tags attr_prefix compile src = inl toks ->
  (forall t, In t toks -> t_kind t = KTag -> no_synth_else attr_prefix t) ->
  nsp is_space (print_plain (build tree_lower void_elements toks)) = nsp is_space src).
Check (render_differs_only_by_space : forall (is_space : rune -> bool) (to_lower : rune -> rune)
    (text_tags : list str) (attr_prefix : str) (compile : attr -> bool)
    (tree_lower : rune -> rune) (void_elements : list str),
  is_space cSP = true -> is_space cLT = false -> is_space cGT = false ->
  (forall c, to_lower c = cSLASH -> c = cSLASH) ->
  forall (src : str) (toks : list token),
  scan is_space to_lower text_tags attr_prefix compile src = inl toks ->
  (forall t, In t toks -> t_kind t = KTag -> no_synth_else attr_prefix t) ->
  nsp is_space (print_plain (build tree_lower void_elements toks)) = nsp is_space src /\
  exists outs : list str,
    print_plain (build tree_lower void_elements toks) = concat outs /\
    Forall2 (fun t o => (t_kind t <> KTag -> o = t_value t) /\ nsp is_space o = nsp is_space (t_value t)) toks outs).
Print Assumptions print_plain_tokens.
Print Assumptions print_plain_tokens_ex.
Print Assumptions render_differs_only_by_space_gen.
Print Assumptions render_differs_only_by_space_notext.
Print Assumptions render_differs_only_by_space.
