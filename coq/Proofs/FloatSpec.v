(* C09, float half: the float operations of the evaluator model (Exp/Float.v) ARE IEEE-754 binary64
   arithmetic with round-to-nearest-even, stated against the real-number specification with Flocq's
   correctness theorems; float64(i) of an int64 is the nearest-even rounding of i; a mixed int/float
   operation converts the integer operand first.

   All statements are about the bit patterns the evaluator carries ([fbits = Z]); [b64_of_bits]
   reads a pattern back as a Flocq binary64 value. *)
From Coq Require Import ZArith Reals Lia Lra Bool.
From Flocq Require Import Core.Core IEEE754.BinarySingleNaN IEEE754.Binary IEEE754.Bits.
Require Import Flocq.Prop.Round_odd.
From Tpl Require Import Exp.Float Exp.Value Exp.Eval Proofs.IntOps.
Open Scope R_scope.

Notation fexp := (FLT_exp (-1074) 53).
Notation rnd := (round radix2 fexp ZnearestE).
Notation fmax := (bpow radix2 1024).
(* Flocq's binary_float functions at the binary64 parameters *)
Notation B2R := (Binary.B2R 53 1024).
Notation B2FF := (Binary.B2FF 53 1024).
Notation is_finite := (Binary.is_finite 53 1024).
Notation is_nan := (Binary.is_nan 53 1024).
Notation Bsign := (Binary.Bsign 53 1024).
Notation Binf := (Binary.B754_infinity 53 1024).
Notation Bzero := (Binary.B754_zero 53 1024).

(* ------------------------------------------------------------------------------------------ *)
(** * 1. Bit patterns                                                                          *)
(* ------------------------------------------------------------------------------------------ *)

Definition valid_bits (a : Z) : Prop := (0 <= a < 2 ^ 64)%Z.

(* every binary64 value (NaN payloads included) survives the trip through its bit pattern *)
Theorem b64_of_bits_of_b64 : forall x : binary64, b64_of_bits (bits_of_b64 x) = x.
Proof. intro x. exact (binary_float_of_bits_of_binary_float 52 11 eq_refl eq_refl eq_refl x). Qed.

Theorem bits_of_b64_valid : forall x : binary64, valid_bits (bits_of_b64 x).
Proof. intro x. exact (bits_of_binary_float_range 52 11 eq_refl eq_refl x). Qed.

Theorem bits_of_b64_of_bits : forall a, valid_bits a -> bits_of_b64 (b64_of_bits a) = a.
Proof. intros a Ha. exact (bits_of_binary_float_of_bits 52 11 eq_refl eq_refl eq_refl a Ha). Qed.

(* a pattern is valid exactly when it is the pattern of a binary64 value *)
Theorem valid_bits_iff : forall a, valid_bits a <-> exists x : binary64, a = bits_of_b64 x.
Proof.
  intro a. split.
  - intro Ha. exists (b64_of_bits a). symmetry. apply bits_of_b64_of_bits, Ha.
  - intros [x Hx]. subst a. apply bits_of_b64_valid.
Qed.

(* the operations only ever produce valid patterns *)
Theorem f_ops_valid : forall a b z m e,
  valid_bits (f_add a b) /\ valid_bits (f_sub a b) /\ valid_bits (f_mul a b) /\ valid_bits (f_div a b) /\
  valid_bits (f_neg a) /\ valid_bits (f_of_Z z) /\ valid_bits (f_of_Zexp m e) /\ valid_bits (f_of_dec m e).
Proof.
  intros a b z m e. unfold f_add, f_sub, f_mul, f_div, f_neg, f_of_dec, f_of_Z, f_of_Zexp.
  repeat split; try apply bits_of_b64_valid.
  - destruct (0 <=? e)%Z; apply bits_of_b64_valid.
  - destruct (0 <=? e)%Z; apply bits_of_b64_valid.
Qed.

(* ------------------------------------------------------------------------------------------ *)
(** * Auxiliary facts                                                                          *)
(* ------------------------------------------------------------------------------------------ *)

(* Flocq's binary64 exponent function is FLT_exp (-1074) 53 *)
Lemma fexp64 : SpecFloat.fexp 53 1024 = fexp.
Proof. reflexivity. Qed.

Lemma fmax_pos : 0 < fmax.
Proof. apply bpow_gt_0. Qed.

(* an overflowing result in round-to-nearest-even is the infinity of the given sign *)
Lemma overflow_NE_inf : forall (r : binary64) s,
  B2FF r = Binary.binary_overflow 53 1024 mode_NE s -> r = Binf s.
Proof.
  intros r s H. apply B2FF_inj. rewrite H. reflexivity.
Qed.

(* sign bit of a finite number versus the sign of its real value *)
Lemma Bsign_true_le : forall x : binary64, is_finite x = true -> Bsign x = true -> B2R x <= 0.
Proof.
  intros x Fx Sx. destruct x as [s|s|s pl Hpl|s m e He]; try discriminate.
  - simpl. lra.
  - simpl in Sx. subst s. simpl. apply Rlt_le, F2R_lt_0. reflexivity.
Qed.
Lemma Bsign_false_ge : forall x : binary64, is_finite x = true -> Bsign x = false -> 0 <= B2R x.
Proof.
  intros x Fx Sx. destruct x as [s|s|s pl Hpl|s m e He]; try discriminate.
  - simpl. lra.
  - simpl in Sx. subst s. simpl. apply Rlt_le, F2R_gt_0. reflexivity.
Qed.
Lemma Bsign_Rlt : forall x : binary64, is_finite x = true -> B2R x <> 0 -> Bsign x = Rlt_bool (B2R x) 0.
Proof.
  intros x Fx Nz. destruct (Bsign x) eqn:Sx.
  - symmetry. apply Rlt_bool_true. pose proof (Bsign_true_le x Fx Sx). lra.
  - symmetry. apply Rlt_bool_false. apply Bsign_false_ge; assumption.
Qed.

Lemma rnd_0 : rnd 0 = 0.
Proof. apply round_0. apply valid_rnd_N. Qed.

(* dichotomy used by every "otherwise" branch *)
Lemma Rlt_bool_fmax_false : forall v, fmax <= Rabs v -> Rlt_bool (Rabs v) fmax = false.
Proof. intros v H. apply Rlt_bool_false, H. Qed.

(* ------------------------------------------------------------------------------------------ *)
(** * 2. Arithmetic: + - * /                                                                   *)
(* ------------------------------------------------------------------------------------------ *)

Section Arith.
Variables a b : fbits.
Let x : binary64 := b64_of_bits a.
Let y : binary64 := b64_of_bits b.

(** addition *)
Theorem f_add_spec :
  is_finite x = true -> is_finite y = true ->
  let r := b64_of_bits (f_add a b) in
  (Rabs (rnd (B2R x + B2R y)) < fmax ->
     is_finite r = true /\ B2R r = rnd (B2R x + B2R y)) /\
  (fmax <= Rabs (rnd (B2R x + B2R y)) ->
     r = Binf (Rlt_bool (B2R x + B2R y) 0) /\ Bsign x = Bsign y).
Proof.
  intros Fx Fy r.
  assert (Er : r = b64_plus mode_NE x y) by (unfold r, f_add; apply b64_of_bits_of_b64).
  unfold b64_plus in Er.
  match type of Er with _ = Binary.Bplus _ _ ?hp ?hm _ _ _ _ =>
    pose proof (Bplus_correct 53 1024 hp hm binop_nan_pl64 mode_NE x y Fx Fy) as C end.
  rewrite <- Er in C. rewrite fexp64 in C. cbn [round_mode] in C.
  split; intro Hb.
  - rewrite Rlt_bool_true in C by exact Hb. destruct C as (C1 & C2 & _). split; assumption.
  - rewrite Rlt_bool_fmax_false in C by exact Hb. destruct C as (C1 & C2).
    split; [|exact C2].
    rewrite (overflow_NE_inf _ _ C1). f_equal.
    assert (Nz : B2R x + B2R y <> 0).
    { intro E. rewrite E, rnd_0, Rabs_R0 in Hb. pose proof fmax_pos. lra. }
    destruct (Bsign x) eqn:Sx.
    + symmetry in C2. pose proof (Bsign_true_le x Fx Sx). pose proof (Bsign_true_le y Fy C2).
      symmetry. apply Rlt_bool_true. lra.
    + symmetry in C2. pose proof (Bsign_false_ge x Fx Sx). pose proof (Bsign_false_ge y Fy C2).
      symmetry. apply Rlt_bool_false. lra.
Qed.

(** subtraction *)
Theorem f_sub_spec :
  is_finite x = true -> is_finite y = true ->
  let r := b64_of_bits (f_sub a b) in
  (Rabs (rnd (B2R x - B2R y)) < fmax ->
     is_finite r = true /\ B2R r = rnd (B2R x - B2R y)) /\
  (fmax <= Rabs (rnd (B2R x - B2R y)) ->
     r = Binf (Rlt_bool (B2R x - B2R y) 0) /\ Bsign x = negb (Bsign y)).
Proof.
  intros Fx Fy r.
  assert (Er : r = b64_minus mode_NE x y) by (unfold r, f_sub; apply b64_of_bits_of_b64).
  unfold b64_minus in Er.
  match type of Er with _ = Binary.Bminus _ _ ?hp ?hm _ _ _ _ =>
    pose proof (Bminus_correct 53 1024 hp hm binop_nan_pl64 mode_NE x y Fx Fy) as C end.
  rewrite <- Er in C. rewrite fexp64 in C. cbn [round_mode] in C.
  split; intro Hb.
  - rewrite Rlt_bool_true in C by exact Hb. destruct C as (C1 & C2 & _). split; assumption.
  - rewrite Rlt_bool_fmax_false in C by exact Hb. destruct C as (C1 & C2).
    split; [|exact C2].
    rewrite (overflow_NE_inf _ _ C1). f_equal.
    assert (Nz : B2R x - B2R y <> 0).
    { intro E. rewrite E, rnd_0, Rabs_R0 in Hb. pose proof fmax_pos. lra. }
    destruct (Bsign x) eqn:Sx.
    + assert (Sy : Bsign y = false) by (destruct (Bsign y); [discriminate C2|reflexivity]).
      pose proof (Bsign_true_le x Fx Sx). pose proof (Bsign_false_ge y Fy Sy).
      symmetry. apply Rlt_bool_true. lra.
    + assert (Sy : Bsign y = true) by (destruct (Bsign y); [reflexivity|discriminate C2]).
      pose proof (Bsign_false_ge x Fx Sx). pose proof (Bsign_true_le y Fy Sy).
      symmetry. apply Rlt_bool_false. lra.
Qed.

(** multiplication *)
Theorem f_mul_spec :
  is_finite x = true -> is_finite y = true ->
  let r := b64_of_bits (f_mul a b) in
  (Rabs (rnd (B2R x * B2R y)) < fmax ->
     is_finite r = true /\ B2R r = rnd (B2R x * B2R y) /\ Bsign r = xorb (Bsign x) (Bsign y)) /\
  (fmax <= Rabs (rnd (B2R x * B2R y)) ->
     r = Binf (Rlt_bool (B2R x * B2R y) 0)).
Proof.
  intros Fx Fy r.
  assert (Er : r = b64_mult mode_NE x y) by (unfold r, f_mul; apply b64_of_bits_of_b64).
  unfold b64_mult in Er.
  match type of Er with _ = Binary.Bmult _ _ ?hp ?hm _ _ _ _ =>
    pose proof (Bmult_correct 53 1024 hp hm binop_nan_pl64 mode_NE x y) as C end.
  rewrite <- Er in C. rewrite fexp64 in C. cbn [round_mode] in C.
  split; intro Hb.
  - rewrite Rlt_bool_true in C by exact Hb. destruct C as (C1 & C2 & C3).
    rewrite Fx, Fy in C2. split; [exact C2|]. split; [exact C1|].
    apply C3. destruct r; try reflexivity; discriminate C2.
  - rewrite Rlt_bool_fmax_false in C by exact Hb.
    rewrite (overflow_NE_inf _ _ C). f_equal.
    assert (Nz : B2R x * B2R y <> 0).
    { intro E. rewrite E, rnd_0, Rabs_R0 in Hb. pose proof fmax_pos. lra. }
    assert (Nx : B2R x <> 0) by (intro E; apply Nz; rewrite E; ring).
    assert (Ny : B2R y <> 0) by (intro E; apply Nz; rewrite E; ring).
    rewrite (Bsign_Rlt x Fx Nx), (Bsign_Rlt y Fy Ny).
    destruct (Rlt_bool_spec (B2R x) 0) as [Hx|Hx]; destruct (Rlt_bool_spec (B2R y) 0) as [Hy|Hy]; cbn [xorb]; symmetry.
    + apply Rlt_bool_false. apply Rlt_le. replace (B2R x * B2R y) with ((- B2R x) * (- B2R y)) by ring.
      apply Rmult_lt_0_compat; lra.
    + apply Rlt_bool_true. assert (0 < (- B2R x) * B2R y) by (apply Rmult_lt_0_compat; lra). lra.
    + apply Rlt_bool_true. assert (0 < B2R x * (- B2R y)) by (apply Rmult_lt_0_compat; lra). lra.
    + apply Rlt_bool_false. apply Rlt_le. apply Rmult_lt_0_compat; lra.
Qed.

(** division by a nonzero finite divisor *)
Theorem f_div_spec :
  is_finite x = true -> is_finite y = true -> B2R y <> 0 ->
  let r := b64_of_bits (f_div a b) in
  (Rabs (rnd (B2R x / B2R y)) < fmax ->
     is_finite r = true /\ B2R r = rnd (B2R x / B2R y) /\ Bsign r = xorb (Bsign x) (Bsign y)) /\
  (fmax <= Rabs (rnd (B2R x / B2R y)) ->
     r = Binf (Rlt_bool (B2R x / B2R y) 0)).
Proof.
  intros Fx Fy Ny r.
  assert (Er : r = b64_div mode_NE x y) by (unfold r, f_div; apply b64_of_bits_of_b64).
  unfold b64_div in Er.
  match type of Er with _ = Binary.Bdiv _ _ ?hp ?hm _ _ _ _ =>
    pose proof (Bdiv_correct 53 1024 hp hm binop_nan_pl64 mode_NE x y Ny) as C end.
  rewrite <- Er in C. rewrite fexp64 in C. cbn [round_mode] in C.
  split; intro Hb.
  - rewrite Rlt_bool_true in C by exact Hb. destruct C as (C1 & C2 & C3).
    rewrite Fx in C2. split; [exact C2|]. split; [exact C1|].
    apply C3. destruct r; try reflexivity; discriminate C2.
  - rewrite Rlt_bool_fmax_false in C by exact Hb.
    rewrite (overflow_NE_inf _ _ C). f_equal.
    assert (Nz : B2R x / B2R y <> 0).
    { intro E. rewrite E, rnd_0, Rabs_R0 in Hb. pose proof fmax_pos. lra. }
    assert (Nx : B2R x <> 0) by (intro E; apply Nz; rewrite E; unfold Rdiv; ring).
    rewrite (Bsign_Rlt x Fx Nx), (Bsign_Rlt y Fy Ny).
    unfold Rdiv.
    destruct (Rlt_bool_spec (B2R x) 0) as [Hx|Hx]; destruct (Rlt_bool_spec (B2R y) 0) as [Hy|Hy]; cbn [xorb]; symmetry.
    + assert (0 < / - B2R y) by (apply Rinv_0_lt_compat; lra).
      apply Rlt_bool_false. apply Rlt_le. replace (B2R x * / B2R y) with ((- B2R x) * / (- B2R y)).
      * apply Rmult_lt_0_compat; lra.
      * rewrite Rinv_opp. ring.
    + assert (0 < / B2R y) by (apply Rinv_0_lt_compat; lra).
      apply Rlt_bool_true. assert (0 < (- B2R x) * / B2R y) by (apply Rmult_lt_0_compat; lra). lra.
    + assert (0 < / - B2R y) by (apply Rinv_0_lt_compat; lra).
      apply Rlt_bool_true. assert (0 < B2R x * / (- B2R y)) by (apply Rmult_lt_0_compat; lra).
      rewrite Rinv_opp in *. lra.
    + assert (0 < / B2R y) by (apply Rinv_0_lt_compat; lra).
      apply Rlt_bool_false. apply Rlt_le. apply Rmult_lt_0_compat; lra.
Qed.

(** negation is exact and flips the sign bit (also of zeros and infinities) *)
Theorem f_neg_spec :
  let r := b64_of_bits (f_neg a) in
  B2R r = - B2R x /\ is_finite r = is_finite x /\ (is_nan x = false -> Bsign r = negb (Bsign x)).
Proof.
  intro r.
  assert (Er : r = b64_opp x) by (unfold r, f_neg; apply b64_of_bits_of_b64).
  rewrite Er. unfold b64_opp. split; [apply B2R_Bopp|]. split; [apply is_finite_Bopp|].
  intro Hn. apply Bsign_Bopp, Hn.
Qed.

(** special operands *)
Theorem f_div_by_zero :     (* finite nonzero / (+-0) = infinity with the xor of the sign bits *)
  is_finite x = true -> B2R x <> 0 -> is_finite y = true -> B2R y = 0 ->
  b64_of_bits (f_div a b) = Binf (xorb (Bsign x) (Bsign y)).
Proof.
  intros Fx Nx Fy Zy. unfold f_div. rewrite b64_of_bits_of_b64. fold x y.
  destruct x as [sx|sx|sx plx Hplx|sx mx ex Hx]; try discriminate Fx.
  - exfalso. apply Nx. reflexivity.
  - destruct y as [sy|sy|sy ply Hply|sy my ey Hy]; try discriminate Fy.
    + reflexivity.
    + exfalso. simpl in Zy. apply eq_0_F2R in Zy. destruct sy; discriminate Zy.
Qed.

Theorem f_div_zero_zero :   (* 0/0 = NaN *)
  is_finite x = true -> B2R x = 0 -> is_finite y = true -> B2R y = 0 ->
  is_nan (b64_of_bits (f_div a b)) = true.
Proof.
  intros Fx Zx Fy Zy. unfold f_div. rewrite b64_of_bits_of_b64. fold x y.
  destruct x as [sx|sx|sx plx Hplx|sx mx ex Hx]; try discriminate Fx.
  - destruct y as [sy|sy|sy ply Hply|sy my ey Hy]; try discriminate Fy.
    + reflexivity.
    + exfalso. simpl in Zy. apply eq_0_F2R in Zy. destruct sy; discriminate Zy.
  - exfalso. simpl in Zx. apply eq_0_F2R in Zx. destruct sx; discriminate Zx.
Qed.

Theorem f_div_inf :         (* finite / infinity = zero with the xor of the sign bits *)
  forall sy, is_finite x = true -> y = Binf sy ->
  b64_of_bits (f_div a b) = Bzero (xorb (Bsign x) sy).
Proof.
  intros sy Fx Ey. unfold f_div. rewrite b64_of_bits_of_b64. fold x y. rewrite Ey.
  destruct x as [sx|sx|sx plx Hplx|sx mx ex Hx]; try discriminate Fx; reflexivity.
Qed.

Theorem f_sub_inf_inf :     (* inf - inf = NaN,  inf + (-inf) = NaN *)
  forall s, x = Binf s -> y = Binf s ->
  is_nan (b64_of_bits (f_sub a b)) = true /\
  is_nan (b64_of_bits (f_add a (f_neg b))) = true.
Proof.
  intros s Ex Ey. unfold f_sub, f_add, f_neg. rewrite !b64_of_bits_of_b64. fold x y. rewrite Ex, Ey.
  destruct s; split; reflexivity.
Qed.

Theorem f_add_inf :         (* infinity + finite = that infinity *)
  forall s, x = Binf s -> is_finite y = true ->
  b64_of_bits (f_add a b) = Binf s /\ b64_of_bits (f_add b a) = Binf s.
Proof.
  intros s Ex Fy. unfold f_add. rewrite !b64_of_bits_of_b64. fold x y. rewrite Ex.
  destruct y as [sy|sy|sy ply Hply|sy my ey Hy]; try discriminate Fy; split; reflexivity.
Qed.

Theorem f_mul_zero_inf :    (* 0 * inf = NaN *)
  forall s, is_finite x = true -> B2R x = 0 -> y = Binf s ->
  is_nan (b64_of_bits (f_mul a b)) = true /\ is_nan (b64_of_bits (f_mul b a)) = true.
Proof.
  intros s Fx Zx Ey. unfold f_mul. rewrite !b64_of_bits_of_b64. fold x y. rewrite Ey.
  destruct x as [sx|sx|sx plx Hplx|sx mx ex Hx]; try discriminate Fx.
  - split; reflexivity.
  - exfalso. simpl in Zx. apply eq_0_F2R in Zx. destruct sx; discriminate Zx.
Qed.

Theorem f_nan_propagates :  (* a NaN operand gives a NaN result *)
  is_nan x = true ->
  is_nan (b64_of_bits (f_add a b)) = true /\ is_nan (b64_of_bits (f_add b a)) = true /\
  is_nan (b64_of_bits (f_sub a b)) = true /\ is_nan (b64_of_bits (f_sub b a)) = true /\
  is_nan (b64_of_bits (f_mul a b)) = true /\ is_nan (b64_of_bits (f_mul b a)) = true /\
  is_nan (b64_of_bits (f_div a b)) = true /\ is_nan (b64_of_bits (f_div b a)) = true.
Proof.
  intros Nx. unfold f_add, f_sub, f_mul, f_div. rewrite !b64_of_bits_of_b64. fold x y.
  destruct x as [sx|sx|sx plx Hplx|sx mx ex Hx]; try discriminate Nx.
  destruct y as [sy|sy|sy ply Hply|sy my ey Hy]; repeat split; reflexivity.
Qed.

(** comparison *)
Theorem f_cmp_spec :
  is_finite x = true -> is_finite y = true ->
  f_cmp a b = Some (Rcompare (B2R x) (B2R y)).
Proof.
  intros Fx Fy. unfold f_cmp, b64_compare. fold x y. apply Bcompare_correct; assumption.
Qed.

Theorem f_cmp_nan : is_nan x = true -> f_cmp a b = None /\ f_cmp b a = None.
Proof.
  intros Nx. unfold f_cmp, b64_compare. fold x y.
  destruct x as [sx|sx|sx plx Hplx|sx mx ex Hx]; try discriminate Nx.
  destruct y as [sy|sy|sy ply Hply|sy my ey Hy]; split; reflexivity.
Qed.

Theorem f_cmp_inf :         (* infinities are ordered beyond every finite number *)
  forall s, x = Binf s -> is_finite y = true ->
  f_cmp a b = Some (if s then Lt else Gt) /\ f_cmp b a = Some (if s then Gt else Lt).
Proof.
  intros s Ex Fy. unfold f_cmp, b64_compare. fold x y. rewrite Ex.
  destruct y as [sy|sy|sy ply Hply|sy my ey Hy]; try discriminate Fy; destruct s; split; reflexivity.
Qed.

End Arith.

(* ------------------------------------------------------------------------------------------ *)
(** * 3. Conversions: m * 2^e and int64 -> float64                                            *)
(* ------------------------------------------------------------------------------------------ *)

(* f_of_Zexp m e is the correctly rounded m * 2^e (used for float64(i) with e = 0, for the
   hexadecimal literals and for the last step of the decimal literals) *)
Theorem f_of_Zexp_spec : forall m e,
  let v := F2R (Float radix2 m e) in
  let r := b64_of_bits (f_of_Zexp m e) in
  (Rabs (rnd v) < fmax -> is_finite r = true /\ B2R r = rnd v) /\
  (fmax <= Rabs (rnd v) -> r = Binf (Rlt_bool v 0)).
Proof.
  intros m e v r.
  assert (Er : r = binary_normalize 53 1024 Hprec64 Hmax64 mode_NE m e false)
    by (unfold r, f_of_Zexp; apply b64_of_bits_of_b64).
  pose proof (binary_normalize_correct 53 1024 Hprec64 Hmax64 mode_NE m e false) as C.
  rewrite <- Er in C. rewrite fexp64 in C. cbn [round_mode] in C. fold v in C.
  split; intro Hb.
  - rewrite Rlt_bool_true in C by exact Hb. destruct C as (C1 & C2 & _). split; assumption.
  - rewrite Rlt_bool_fmax_false in C by exact Hb. apply overflow_NE_inf, C.
Qed.

Lemma F2R_exp0 : forall z, F2R (Float radix2 z 0) = IZR z.
Proof. intro z. unfold F2R. simpl. ring. Qed.

(* float64(z): nearest-even rounding of z, whenever that does not overflow *)
Theorem f_of_Z_spec : forall z,
  Rabs (rnd (IZR z)) < fmax ->
  is_finite (b64_of_bits (f_of_Z z)) = true /\ B2R (b64_of_bits (f_of_Z z)) = rnd (IZR z).
Proof.
  intros z Hb. unfold f_of_Z.
  pose proof (f_of_Zexp_spec z 0) as C. cbv zeta in C. rewrite F2R_exp0 in C.
  apply (proj1 C), Hb.
Qed.

Lemma format_bpow64 : forall e, (-1074 <= e)%Z -> generic_format radix2 fexp (bpow radix2 e).
Proof. intros e He. apply generic_format_FLT_bpow; [reflexivity|exact He]. Qed.

Lemma rnd_abs_le_bpow : forall v e, (-1074 <= e)%Z -> Rabs v <= bpow radix2 e -> Rabs (rnd v) <= bpow radix2 e.
Proof.
  intros v e He Hv. apply abs_round_le_generic.
  - apply FLT_exp_valid. reflexivity.
  - apply valid_rnd_N.
  - apply format_bpow64, He.
  - exact Hv.
Qed.

Lemma Rabs_IZR_le_pow : forall z e, (0 <= e)%Z -> (Z.abs z <= 2 ^ e)%Z -> Rabs (IZR z) <= bpow radix2 e.
Proof.
  intros z e He Hz. rewrite <- abs_IZR. rewrite <- (IZR_Zpower radix2 e He). apply IZR_le. exact Hz.
Qed.

(* every int64 (indeed every |z| <= 2^63) is in range *)
Theorem int64_no_overflow : forall z, (Z.abs z <= 2 ^ 63)%Z -> Rabs (rnd (IZR z)) < fmax.
Proof.
  intros z Hz. apply Rle_lt_trans with (bpow radix2 63).
  - apply rnd_abs_le_bpow; [lia|]. apply Rabs_IZR_le_pow; [lia|exact Hz].
  - apply bpow_lt. reflexivity.
Qed.

Theorem f_of_Z_int64 : forall z, in64 z ->
  is_finite (b64_of_bits (f_of_Z z)) = true /\ B2R (b64_of_bits (f_of_Z z)) = rnd (IZR z).
Proof.
  intros z Hz. apply f_of_Z_spec, int64_no_overflow.
  unfold in64, two63 in Hz. lia.
Qed.

(* integers up to 2^53 in magnitude are representable: the conversion is exact *)
Lemma format_small_int : forall z, (Z.abs z <= 2 ^ 53)%Z -> generic_format radix2 fexp (IZR z).
Proof.
  intros z Hz. destruct (Z.eq_dec (Z.abs z) (2 ^ 53)) as [E|N].
  - apply generic_format_abs_inv. rewrite <- abs_IZR, E.
    change (2 ^ 53)%Z with (radix2 ^ 53)%Z. rewrite IZR_Zpower by lia. apply format_bpow64. lia.
  - apply generic_format_FLT. apply (FLT_spec radix2 (-1074) 53 (IZR z) (Float radix2 z 0)).
    + symmetry. apply F2R_exp0.
    + simpl. change (Z.pow_pos 2 53) with (2 ^ 53)%Z. lia.
    + simpl. lia.
Qed.

Theorem f_of_Z_exact : forall z, (Z.abs z <= 2 ^ 53)%Z ->
  is_finite (b64_of_bits (f_of_Z z)) = true /\ B2R (b64_of_bits (f_of_Z z)) = IZR z.
Proof.
  intros z Hz.
  assert (Hb : Rabs (rnd (IZR z)) < fmax) by (apply int64_no_overflow; lia).
  destruct (f_of_Z_spec z Hb) as (F & V). split; [exact F|].
  rewrite V. apply round_generic; [apply valid_rnd_N|]. apply format_small_int, Hz.
Qed.

(* 2^53 + 1 is the first integer that is NOT exact: it rounds (ties-to-even) down to 2^53 *)
Example f_of_Z_inexact : f_of_Z (2 ^ 53 + 1) = f_of_Z (2 ^ 53) /\ f_of_Z (2 ^ 53 + 3) = f_of_Z (2 ^ 53 + 4).
Proof. split; vm_compute; reflexivity. Qed.

(* ------------------------------------------------------------------------------------------ *)
(** * 5. The evaluator converts the integer operand of a mixed operation                       *)
(* ------------------------------------------------------------------------------------------ *)

(* [is_int] reads an integer value as its int64 value (wrap64 is the identity on int64, IntOps.wrap64_id) *)
Definition fop (op : binop) : option (fbits -> fbits -> fbits) :=
  match op with BAdd => Some f_add | BSub => Some f_sub | BMul => Some f_mul | BDiv => Some f_div | _ => None end.

Theorem mixed_arith_spec : forall op f k i fl g,
  fop op = Some f ->
  num_bin op (VInt k i) (VFloat fl g) = Ok (VFloat false (f (f_of_Z (wrap64 i)) g)) /\
  num_bin op (VFloat fl g) (VInt k i) = Ok (VFloat false (f g (f_of_Z (wrap64 i)))) /\
  bin_op op (VInt k i) (VFloat fl g) = Ok (VFloat false (f (f_of_Z (wrap64 i)) g)) /\
  bin_op op (VFloat fl g) (VInt k i) = Ok (VFloat false (f g (f_of_Z (wrap64 i)))).
Proof.
  intros op f k i fl g Hop.
  destruct op; cbn [fop] in Hop; try discriminate Hop; injection Hop as <-; repeat split; reflexivity.
Qed.

Theorem float_arith_spec : forall op f fl1 g1 fl2 g2,
  fop op = Some f ->
  num_bin op (VFloat fl1 g1) (VFloat fl2 g2) = Ok (VFloat false (f g1 g2)) /\
  bin_op op (VFloat fl1 g1) (VFloat fl2 g2) = Ok (VFloat false (f g1 g2)).
Proof.
  intros op f fl1 g1 fl2 g2 Hop.
  destruct op; cbn [fop] in Hop; try discriminate Hop; injection Hop as <-; split; reflexivity.
Qed.

(* the four instances spelled out, for an int64 operand *)
Corollary mixed_add_spec : forall k i fl g, in64 i ->
  num_bin BAdd (VInt k i) (VFloat fl g) = Ok (VFloat false (f_add (f_of_Z i) g)) /\
  num_bin BAdd (VFloat fl g) (VInt k i) = Ok (VFloat false (f_add g (f_of_Z i))).
Proof.
  intros k i fl g Hi. destruct (mixed_arith_spec BAdd f_add k i fl g eq_refl) as (A & B & _).
  rewrite (wrap64_id i Hi) in A, B. split; assumption.
Qed.
Corollary mixed_sub_spec : forall k i fl g, in64 i ->
  num_bin BSub (VInt k i) (VFloat fl g) = Ok (VFloat false (f_sub (f_of_Z i) g)) /\
  num_bin BSub (VFloat fl g) (VInt k i) = Ok (VFloat false (f_sub g (f_of_Z i))).
Proof.
  intros k i fl g Hi. destruct (mixed_arith_spec BSub f_sub k i fl g eq_refl) as (A & B & _).
  rewrite (wrap64_id i Hi) in A, B. split; assumption.
Qed.
Corollary mixed_mul_spec : forall k i fl g, in64 i ->
  num_bin BMul (VInt k i) (VFloat fl g) = Ok (VFloat false (f_mul (f_of_Z i) g)) /\
  num_bin BMul (VFloat fl g) (VInt k i) = Ok (VFloat false (f_mul g (f_of_Z i))).
Proof.
  intros k i fl g Hi. destruct (mixed_arith_spec BMul f_mul k i fl g eq_refl) as (A & B & _).
  rewrite (wrap64_id i Hi) in A, B. split; assumption.
Qed.
Corollary mixed_div_spec : forall k i fl g, in64 i ->
  num_bin BDiv (VInt k i) (VFloat fl g) = Ok (VFloat false (f_div (f_of_Z i) g)) /\
  num_bin BDiv (VFloat fl g) (VInt k i) = Ok (VFloat false (f_div g (f_of_Z i))).
Proof.
  intros k i fl g Hi. destruct (mixed_arith_spec BDiv f_div k i fl g eq_refl) as (A & B & _).
  rewrite (wrap64_id i Hi) in A, B. split; assumption.
Qed.

(* mixed comparisons convert the integer operand the same way; two integers are compared exactly *)
Theorem mixed_compare_spec : forall k i fl g,
  num_compare (VInt k i) (VFloat fl g) = Some (f_cmp (f_of_Z (wrap64 i)) g) /\
  num_compare (VFloat fl g) (VInt k i) = Some (f_cmp g (f_of_Z (wrap64 i))).
Proof. intros. split; reflexivity. Qed.

(* the other operators (%, shifts, bit operations) reject a float operand *)
Theorem float_other_ops_rejected : forall op fl g v,
  In op [BMod; BShl; BShr; BAnd; BAndNot; BOr; BXor] ->
  bin_op op (VFloat fl g) v = Err COther /\ bin_op op v (VFloat fl g) = Err COther.
Proof.
  intros op fl g v Hop. cbn [In] in Hop.
  repeat (destruct Hop as [<-|Hop]; [split; [reflexivity|destruct v; reflexivity]|]). destruct Hop.
Qed.

(* End to end, on real numbers: i + y for an int64 i and a finite float y is
   rnd (rnd i + y) -- convert (one rounding), then add (one rounding). *)
Theorem mixed_add_real : forall k i fl (y : binary64),
  in64 i -> is_finite y = true ->
  Rabs (rnd (rnd (IZR i) + B2R y)) < fmax ->
  exists r, num_bin BAdd (VInt k i) (VFloat fl (bits_of_b64 y)) = Ok (VFloat false r) /\
            is_finite (b64_of_bits r) = true /\
            B2R (b64_of_bits r) = rnd (rnd (IZR i) + B2R y).
Proof.
  intros k i fl y Hi Fy Hb.
  exists (f_add (f_of_Z i) (bits_of_b64 y)). split; [apply mixed_add_spec, Hi|].
  destruct (f_of_Z_int64 i Hi) as (Fi & Vi).
  pose proof (f_add_spec (f_of_Z i) (bits_of_b64 y)) as C. cbv zeta in C.
  rewrite b64_of_bits_of_b64 in C. rewrite Vi in C.
  apply (proj1 (C Fi Fy)), Hb.
Qed.

(* ... and i < y (etc.) compares the converted integer with y as real numbers *)
Theorem mixed_rel_real : forall k i fl (y : binary64),
  in64 i -> is_finite y = true ->
  let c := Some (Rcompare (rnd (IZR i)) (B2R y)) in
  let c' := Some (Rcompare (B2R y) (rnd (IZR i))) in
  (forall op, In op [BLt; BLe; BGt; BGe; BEq] ->
     rel_op op (VInt k i) (VFloat fl (bits_of_b64 y)) = Ok (VBool (cmp_holds op c)) /\
     rel_op op (VFloat fl (bits_of_b64 y)) (VInt k i) = Ok (VBool (cmp_holds op c'))) /\
  rel_op BNe (VInt k i) (VFloat fl (bits_of_b64 y)) = Ok (VBool (negb (cmp_holds BEq c))) /\
  rel_op BNe (VFloat fl (bits_of_b64 y)) (VInt k i) = Ok (VBool (negb (cmp_holds BEq c'))).
Proof.
  intros k i fl y Hi Fy c c'.
  destruct (f_of_Z_int64 i Hi) as (Fi & Vi).
  assert (E1 : num_compare (VInt k i) (VFloat fl (bits_of_b64 y)) = Some c).
  { destruct (mixed_compare_spec k i fl (bits_of_b64 y)) as (A & _). rewrite A, (wrap64_id i Hi). f_equal.
    pose proof (f_cmp_spec (f_of_Z i) (bits_of_b64 y)) as C. rewrite b64_of_bits_of_b64, Vi in C. exact (C Fi Fy). }
  assert (E2 : num_compare (VFloat fl (bits_of_b64 y)) (VInt k i) = Some c').
  { destruct (mixed_compare_spec k i fl (bits_of_b64 y)) as (_ & A). rewrite A, (wrap64_id i Hi). f_equal.
    pose proof (f_cmp_spec (bits_of_b64 y) (f_of_Z i)) as C. rewrite b64_of_bits_of_b64, Vi in C. exact (C Fy Fi). }
  split; [|split].
  - intros op Hop. cbn [In] in Hop.
    repeat (destruct Hop as [<-|Hop]; [unfold rel_op, loose_equal; rewrite E1, E2; split; reflexivity|]).
    destruct Hop.
  - unfold rel_op, loose_equal. rewrite E1. reflexivity.
  - unfold rel_op, loose_equal. rewrite E2. reflexivity.
Qed.

Lemma cmp_holds_real : forall u v,
  cmp_holds BLt (Some (Rcompare u v)) = Rlt_bool u v /\ cmp_holds BLe (Some (Rcompare u v)) = Rle_bool u v /\
  cmp_holds BGt (Some (Rcompare u v)) = Rlt_bool v u /\ cmp_holds BGe (Some (Rcompare u v)) = Rle_bool v u /\
  cmp_holds BEq (Some (Rcompare u v)) = Req_bool u v.
Proof.
  intros u v. unfold Rlt_bool, Rle_bool, Req_bool. rewrite (Rcompare_sym v u).
  destruct (Rcompare u v); repeat split; reflexivity.
Qed.

(* ------------------------------------------------------------------------------------------ *)
(** * 6. Decimal literals: f_of_dec m e10 is the correctly rounded m * 10^e10                  *)
(* ------------------------------------------------------------------------------------------ *)

(* round-to-odd of a real strictly between two consecutive even integers is the odd one between *)
Lemma Zrnd_odd_between : forall q w, IZR (2 * q) < w < IZR (2 * q + 2) -> Zrnd_odd w = (2 * q + 1)%Z.
Proof.
  intros q w [Hlo Hhi].
  destruct (Rlt_le_dec w (IZR (2 * q + 1))) as [Hm|Hm].
  - assert (Hf : Zfloor w = (2 * q)%Z) by (apply Zfloor_imp; split; [lra|exact Hm]).
    unfold Zrnd_odd. destruct (Req_EM_T w (IZR (Zfloor w))) as [E|NE].
    + exfalso. rewrite Hf in E. lra.
    + rewrite Hf at 1. rewrite Z.even_mul. cbn [Z.even orb].
      rewrite Zceil_floor_neq by (intro E; apply NE; symmetry; exact E). rewrite Hf. reflexivity.
  - assert (Hf : Zfloor w = (2 * q + 1)%Z).
    { apply Zfloor_imp. split; [exact Hm|]. replace (2 * q + 1 + 1)%Z with (2 * q + 2)%Z by ring. exact Hhi. }
    unfold Zrnd_odd. destruct (Req_EM_T w (IZR (Zfloor w))) as [E|NE]; [exact Hf|].
    rewrite Hf. rewrite Z.add_comm, Z.even_add_mul_2. reflexivity.
Qed.

Lemma IZR_pow2 : forall s, (0 <= s)%Z -> IZR (2 ^ s) = bpow radix2 s.
Proof. intros s Hs. apply (IZR_Zpower radix2 s Hs). Qed.

(* The quotient step.  N = m * 2^s is divided by d; the quotient q (at least 54 bits) gets the
   sticky bit "remainder nonzero" appended.  Rounding that once to nearest-even gives the correctly
   rounded m / d: the sticky-bit number is the round-to-odd of m / d in a format with (at least) two
   more digits than binary64 (Flocq's round_N_odd). *)
Lemma quot_sticky_round : forall m d s,
  (0 < m)%Z -> (0 < d)%Z -> (0 <= s)%Z -> (2 ^ 53 * d <= m * 2 ^ s)%Z ->
  let q := ((m * 2 ^ s) / d)%Z in
  let r := ((m * 2 ^ s) mod d)%Z in
  rnd (F2R (Float radix2 (2 * q + (if (r =? 0)%Z then 0 else 1)) (- (s + 1)))) = rnd (IZR m / IZR d).
Proof.
  intros m d s Hm Hd Hs Hbig q r.
  set (v := IZR m / IZR d).
  assert (HD : 0 < IZR d) by (apply IZR_lt; exact Hd).
  assert (HM : 0 < IZR m) by (apply IZR_lt; exact Hm).
  assert (HS : 0 < bpow radix2 s) by apply bpow_gt_0.
  assert (HN : IZR m * bpow radix2 s = IZR d * IZR q + IZR r).
  { rewrite <- IZR_pow2 by exact Hs. rewrite <- !mult_IZR, <- plus_IZR. f_equal.
    unfold q, r. apply Z.div_mod. lia. }
  assert (Hr : (0 <= r < d)%Z) by (unfold r; apply Z.mod_pos_bound; exact Hd).
  (* v scaled to the exponent of the quotient *)
  assert (Hw : v * bpow radix2 (s + 1) * IZR d = 2 * (IZR d * IZR q + IZR r)).
  { rewrite <- HN. rewrite bpow_plus. change (bpow radix2 1) with 2. unfold v. field. lra. }
  destruct (Z.eqb_spec r 0) as [Hr0|Hr0].
  - (* exact quotient: no rounding error before the final rounding *)
    f_equal. rewrite Hr0 in Hw.
    assert (Ev : v * bpow radix2 (s + 1) = 2 * IZR q) by nra.
    unfold F2R. cbn [Fnum Fexp]. rewrite Z.add_0_r, mult_IZR.
    rewrite <- Ev. rewrite Rmult_assoc, <- bpow_plus. replace (s + 1 + - (s + 1))%Z with 0%Z by ring.
    simpl. ring.
  - (* inexact quotient *)
    assert (HR : 0 < IZR r < IZR d) by (split; apply IZR_lt; lia).
    set (w := v * bpow radix2 (s + 1)) in *.
    assert (Hwb : IZR (2 * q) < w < IZR (2 * q + 2)).
    { rewrite plus_IZR, mult_IZR. split; nra. }
    (* v is large enough for its quotient to have at least 55 bits *)
    assert (Hv : bpow radix2 (53 - s) <= v).
    { assert (Hb : bpow radix2 53 * IZR d <= IZR m * bpow radix2 s).
      { rewrite <- !IZR_pow2 by lia. rewrite <- !mult_IZR. apply IZR_le. exact Hbig. }
      unfold Zminus. rewrite bpow_plus, bpow_opp. unfold v.
      replace (bpow radix2 53 * / bpow radix2 s) with (bpow radix2 53 * IZR d * (/ bpow radix2 s * / IZR d)) by (field; lra).
      replace (IZR m / IZR d) with (IZR m * bpow radix2 s * (/ bpow radix2 s * / IZR d)) by (field; lra).
      apply Rmult_le_compat_r; [|exact Hb].
      apply Rlt_le, Rmult_lt_0_compat; apply Rinv_0_lt_compat; assumption. }
    assert (Hvpos : 0 < v) by (pose proof (bpow_gt_0 radix2 (53 - s)); lra).
    assert (Hmag : (54 - s <= mag radix2 v)%Z).
    { apply mag_ge_bpow. replace (54 - s - 1)%Z with (53 - s)%Z by ring. rewrite Rabs_pos_eq by lra. exact Hv. }
    (* the extended format: precision P, where P is the bit length of the quotient *)
    set (P := (mag radix2 v + s + 1)%Z).
    set (emin' := Z.min (- (s + 1)) (-1076)).
    set (fexpe := FLT_exp emin' P).
    assert (HP : (55 <= P)%Z) by (unfold P; lia).
    assert (Hce : fexpe (mag radix2 v) = (- (s + 1))%Z) by (unfold fexpe, FLT_exp, emin', P; lia).
    assert (Hodd : round radix2 fexpe Zrnd_odd v = F2R (Float radix2 (2 * q + 1) (- (s + 1)))).
    { unfold round, scaled_mantissa, cexp. rewrite Hce, Z.opp_involutive. fold w.
      rewrite (Zrnd_odd_between q w Hwb). reflexivity. }
    rewrite <- Hodd.
    apply (@round_N_odd radix2 eq_refl fexp fexpe (fun x => negb (Z.even x))).
    + apply FLT_exp_valid. reflexivity.
    + apply exists_NE_FLT. right. reflexivity.
    + apply FLT_exp_valid. unfold Prec_gt_0. lia.
    + apply exists_NE_FLT. right. lia.
    + intro e. unfold fexpe, FLT_exp, emin'. lia.
Qed.

(* the shift chosen by f_of_dec gives a quotient of at least 2^65 (more than the 54 bits needed) *)
Lemma dec_shift_enough : forall m d s, (0 < m)%Z -> (0 < d)%Z ->
  s = Z.max 0 (66 + Z.log2 d - Z.log2 (Z.max m 1)) ->
  (0 <= s)%Z /\ (2 ^ 65 * d <= m * 2 ^ s)%Z.
Proof.
  intros m d s Hm Hd Es. rewrite (Z.max_l m 1) in Es by lia.
  assert (Hs0 : (0 <= s)%Z) by lia. split; [exact Hs0|].
  pose proof (Z.log2_spec m Hm) as [Hm1 _]. pose proof (Z.log2_spec d Hd) as [_ Hd2].
  pose proof (Z.log2_nonneg m) as Lm. pose proof (Z.log2_nonneg d) as Ld.
  assert (Hs : (66 + Z.log2 d <= Z.log2 m + s)%Z) by lia.
  assert (H1 : (2 ^ (66 + Z.log2 d) <= 2 ^ (Z.log2 m + s))%Z) by (apply Z.pow_le_mono_r; lia).
  rewrite !Z.pow_add_r in H1 by lia.
  rewrite Z.pow_succ_r in Hd2 by lia.
  assert (H2 : (0 <= 2 ^ s)%Z) by (apply Z.pow_nonneg; lia).
  assert (H3 : (2 ^ Z.log2 m * 2 ^ s <= m * 2 ^ s)%Z) by (apply Z.mul_le_mono_nonneg_r; lia).
  set (A := (2 ^ Z.log2 d)%Z) in *. set (B := (2 ^ Z.log2 m * 2 ^ s)%Z) in *. set (C := (m * 2 ^ s)%Z) in *.
  change (2 ^ 66)%Z with 73786976294838206464%Z in H1. change (2 ^ 65)%Z with 36893488147419103232%Z.
  lia.
Qed.

Definition radix10 : radix := Build_radix 10 eq_refl.

Lemma pow10_pos : forall e, (0 <= e)%Z -> IZR (10 ^ e) = powerRZ 10 e.
Proof.
  intros e He. change (10 ^ e)%Z with (radix10 ^ e)%Z. rewrite (IZR_Zpower radix10 e He).
  apply (bpow_powerRZ radix10).
Qed.
Lemma pow10_neg : forall e, (e < 0)%Z -> powerRZ 10 e = / IZR (10 ^ (- e)).
Proof.
  intros e He. rewrite pow10_pos by lia. change 10 with (IZR radix10).
  rewrite <- !bpow_powerRZ. rewrite bpow_opp. rewrite Rinv_inv. reflexivity.
Qed.

(* f_of_dec hands f_of_Zexp a dyadic number whose nearest-even rounding is that of m * 10^e10 *)
Lemma f_of_dec_reduce : forall m e10, (0 <= m)%Z ->
  exists n e, f_of_dec m e10 = f_of_Zexp n e /\ (0 <= n)%Z /\
              rnd (F2R (Float radix2 n e)) = rnd (IZR m * powerRZ 10 e10).
Proof.
  intros m e10 Hm. unfold f_of_dec. destruct (Z.leb_spec 0 e10) as [He|He].
  - exists (m * 10 ^ e10)%Z, 0%Z. split; [reflexivity|]. split; [apply Z.mul_nonneg_nonneg; [exact Hm|apply Z.pow_nonneg; lia]|].
    rewrite F2R_exp0, mult_IZR, pow10_pos by exact He. reflexivity.
  - cbv zeta.
    set (d := (10 ^ (- e10))%Z). set (s := Z.max 0 (66 + Z.log2 d - Z.log2 (Z.max m 1))).
    assert (Hd : (0 < d)%Z) by (apply Z.pow_pos_nonneg; lia).
    exists (2 * (m * 2 ^ s / d) + (if (m * 2 ^ s) mod d =? 0 then 0 else 1))%Z, (- (s + 1))%Z.
    split; [reflexivity|].
    assert (Hs0 : (0 <= s)%Z) by (unfold s; lia).
    split.
    { assert (0 <= m * 2 ^ s / d)%Z by (apply Z.div_pos; [apply Z.mul_nonneg_nonneg; [exact Hm|apply Z.pow_nonneg; lia]|exact Hd]).
      destruct (m * 2 ^ s mod d =? 0)%Z; lia. }
    rewrite pow10_neg by exact He. fold d.
    destruct (Z.eq_dec m 0) as [Hm0|Hm0].
    + subst m. rewrite Z.mul_0_l, Z.div_0_l, Z.mod_0_l by lia. cbn [Z.eqb Z.mul Z.add].
      rewrite F2R_0. f_equal. ring.
    + destruct (dec_shift_enough m d s ltac:(lia) Hd eq_refl) as (_ & Hbig).
      apply (quot_sticky_round m d s); [lia|exact Hd|exact Hs0|lia].
Qed.

Theorem f_of_dec_spec : forall m e10, (0 <= m)%Z ->
  let v := IZR m * powerRZ 10 e10 in
  let r := b64_of_bits (f_of_dec m e10) in
  (Rabs (rnd v) < fmax -> is_finite r = true /\ B2R r = rnd v) /\
  (fmax <= Rabs (rnd v) -> r = Binf false).
Proof.
  intros m e10 Hm v r.
  destruct (f_of_dec_reduce m e10 Hm) as (n & e & E & Hn & Hv). fold v in Hv.
  unfold r. rewrite E. pose proof (f_of_Zexp_spec n e) as C. cbv zeta in C. rewrite Hv in C.
  split; [exact (proj1 C)|]. intro Hb. rewrite (proj2 C Hb). f_equal.
  apply Rlt_bool_false. apply F2R_ge_0. exact Hn.
Qed.

(* the literal parser rejects exactly the overflowing case (f_is_inf), so an accepted decimal
   literal denotes the correctly rounded value *)
Corollary f_of_dec_accepted : forall m e10, (0 <= m)%Z ->
  f_is_inf (f_of_dec m e10) = false ->
  is_finite (b64_of_bits (f_of_dec m e10)) = true /\
  B2R (b64_of_bits (f_of_dec m e10)) = rnd (IZR m * powerRZ 10 e10).
Proof.
  intros m e10 Hm Hinf. destruct (f_of_dec_spec m e10 Hm) as (A & B). cbv zeta in A, B.
  destruct (Rlt_le_dec (Rabs (rnd (IZR m * powerRZ 10 e10))) fmax) as [Hb|Hb]; [exact (A Hb)|].
  exfalso. unfold f_is_inf in Hinf. rewrite (B Hb) in Hinf. discriminate Hinf.
Qed.

(* known bit patterns (strconv.ParseFloat): 0.1, 1e22, 1e23 (a halfway-ish case), the smallest
   subnormal, 2^53+1 (a tie, to even), the largest finite number, and overflow *)
Example dec_examples :
  f_of_dec 1 (-1) = 4591870180066957722%Z /\                          (* 0.1  = 0x3FB999999999999A *)
  f_of_dec 1 22 = 0x4480F0CF064DD592%Z /\                             (* 1e22, exact *)
  f_of_dec 1 23 = 0x44B52D02C7E14AF6%Z /\                             (* 1e23 *)
  f_of_dec 49 (-325) = 1%Z /\                                         (* 4.9e-324 = smallest subnormal *)
  f_of_dec 90071992547409930 (-1) = 0x4340000000000000%Z /\           (* 9007199254740993.0 -> 2^53 *)
  f_of_dec 17976931348623157 292 = 0x7FEFFFFFFFFFFFFF%Z /\            (* MaxFloat64 *)
  f_of_dec 25 (-1) = 0x4004000000000000%Z /\                          (* 2.5 *)
  f_is_inf (f_of_dec 1 309) = true /\ f_is_inf (f_of_dec 17976931348623159 292) = true.
Proof. vm_compute. repeat split; reflexivity. Qed.

(* the literal parser on concrete texts: "0.1", "1e23", "0x1p-2" (= 0.25), "1e309" (range error) *)
Example parse_float_lit_examples :
  parse_float_lit [48; 46; 49]%N = Some 4591870180066957722%Z /\
  parse_float_lit [49; 101; 50; 51]%N = Some 0x44B52D02C7E14AF6%Z /\
  parse_float_lit [48; 120; 49; 112; 45; 50]%N = Some 0x3FD0000000000000%Z /\
  parse_float_lit [49; 101; 51; 48; 57]%N = None.
Proof. vm_compute. repeat split; reflexivity. Qed.

(* ------------------------------------------------------------------------------------------ *)
(** * The same statements for operands given as binary64 values                                *)
(* ------------------------------------------------------------------------------------------ *)

Section OnValues.
Variables x y : binary64.
Hypothesis Fx : is_finite x = true.
Hypothesis Fy : is_finite y = true.
Let a := bits_of_b64 x.
Let b := bits_of_b64 y.

Theorem f_add_b64 :
  let r := b64_of_bits (f_add a b) in
  (Rabs (rnd (B2R x + B2R y)) < fmax -> is_finite r = true /\ B2R r = rnd (B2R x + B2R y)) /\
  (fmax <= Rabs (rnd (B2R x + B2R y)) -> r = Binf (Rlt_bool (B2R x + B2R y) 0) /\ Bsign x = Bsign y).
Proof.
  pose proof (f_add_spec a b) as C. unfold a, b in *. rewrite !b64_of_bits_of_b64 in C. exact (C Fx Fy).
Qed.
Theorem f_sub_b64 :
  let r := b64_of_bits (f_sub a b) in
  (Rabs (rnd (B2R x - B2R y)) < fmax -> is_finite r = true /\ B2R r = rnd (B2R x - B2R y)) /\
  (fmax <= Rabs (rnd (B2R x - B2R y)) -> r = Binf (Rlt_bool (B2R x - B2R y) 0) /\ Bsign x = negb (Bsign y)).
Proof.
  pose proof (f_sub_spec a b) as C. unfold a, b in *. rewrite !b64_of_bits_of_b64 in C. exact (C Fx Fy).
Qed.
Theorem f_mul_b64 :
  let r := b64_of_bits (f_mul a b) in
  (Rabs (rnd (B2R x * B2R y)) < fmax ->
     is_finite r = true /\ B2R r = rnd (B2R x * B2R y) /\ Bsign r = xorb (Bsign x) (Bsign y)) /\
  (fmax <= Rabs (rnd (B2R x * B2R y)) -> r = Binf (Rlt_bool (B2R x * B2R y) 0)).
Proof.
  pose proof (f_mul_spec a b) as C. unfold a, b in *. rewrite !b64_of_bits_of_b64 in C. exact (C Fx Fy).
Qed.
Theorem f_div_b64 :
  B2R y <> 0 ->
  let r := b64_of_bits (f_div a b) in
  (Rabs (rnd (B2R x / B2R y)) < fmax ->
     is_finite r = true /\ B2R r = rnd (B2R x / B2R y) /\ Bsign r = xorb (Bsign x) (Bsign y)) /\
  (fmax <= Rabs (rnd (B2R x / B2R y)) -> r = Binf (Rlt_bool (B2R x / B2R y) 0)).
Proof.
  intro Ny. pose proof (f_div_spec a b) as C. unfold a, b in *. rewrite !b64_of_bits_of_b64 in C. exact (C Fx Fy Ny).
Qed.
Theorem f_cmp_b64 : f_cmp a b = Some (Rcompare (B2R x) (B2R y)).
Proof.
  pose proof (f_cmp_spec a b) as C. unfold a, b in *. rewrite !b64_of_bits_of_b64 in C. exact (C Fx Fy).
Qed.
End OnValues.

Print Assumptions b64_of_bits_of_b64.
Print Assumptions bits_of_b64_of_bits.
Print Assumptions f_ops_valid.
Print Assumptions f_add_spec.
Print Assumptions f_sub_spec.
Print Assumptions f_mul_spec.
Print Assumptions f_div_spec.
Print Assumptions f_neg_spec.
Print Assumptions f_div_by_zero.
Print Assumptions f_div_zero_zero.
Print Assumptions f_div_inf.
Print Assumptions f_sub_inf_inf.
Print Assumptions f_add_inf.
Print Assumptions f_mul_zero_inf.
Print Assumptions f_nan_propagates.
Print Assumptions f_cmp_spec.
Print Assumptions f_cmp_nan.
Print Assumptions f_cmp_inf.
Print Assumptions f_of_Zexp_spec.
Print Assumptions f_of_Z_spec.
Print Assumptions f_of_Z_int64.
Print Assumptions f_of_Z_exact.
Print Assumptions mixed_arith_spec.
Print Assumptions float_arith_spec.
Print Assumptions mixed_add_spec.
Print Assumptions mixed_compare_spec.
Print Assumptions float_other_ops_rejected.
Print Assumptions mixed_add_real.
Print Assumptions mixed_rel_real.
Print Assumptions f_of_dec_spec.
Print Assumptions f_of_dec_accepted.
Print Assumptions dec_examples.
Print Assumptions f_add_b64.
Print Assumptions f_sub_b64.
Print Assumptions f_mul_b64.
Print Assumptions f_div_b64.
Print Assumptions f_cmp_b64.
