(* What the insertion points emit (C02): :text escapes, :raw is verbatim, a dynamic attribute is
   emitted as  name="escape(value)". For any behaviour [exec] of nested renders. *)
From Tpl Require Import Html.Exec.
Open Scope N_scope.

Definition directive_names : list str :=
  [d_with; d_if; d_else_if; d_elseif; d_elif; d_else; d_range; d_remove; d_text; d_raw; d_define; d_replace; d_insert].
Definition is_directive (cmd : str) : bool := existsb (str_eqb cmd) directive_names.

Section Emit.
Variable is_space : rune -> bool.
Variable to_lower : rune -> rune.
Variable is_letter : rune -> bool.
Variable is_udigit : rune -> bool.
Variable methods : N -> bool -> list (str * N).
Variable call_fn : N -> list value -> fres.
Variable mgr : manager.
Variable exec : N -> list node -> node -> scope -> bool -> tbl -> rst -> R.
Notation attr_ev := (attr_evaluate is_letter is_udigit methods call_fn mgr).
Notation step := (attr_step is_space is_letter is_udigit methods call_fn mgr exec).
Notation child := (run_child is_space is_letter is_udigit methods call_fn mgr exec).

Lemma text_emits_escape : forall n ls top t st a v lg,
  l_child ls = CText a true -> attr_ev a (l_sc ls) (r_log st) = (AOk v, lg) ->
  child n ls top t st = wr top (escape v) t (set_log st lg).
Proof. intros n ls top t st a v lg Hc He. unfold run_child. rewrite Hc, He. reflexivity. Qed.

Lemma raw_emits_verbatim : forall n ls top t st a v lg,
  l_child ls = CText a false -> attr_ev a (l_sc ls) (r_log st) = (AOk v, lg) ->
  child n ls top t st = wr top v t (set_log st lg).
Proof. intros n ls top t st a v lg Hc He. unfold run_child. rewrite Hc, He. reflexivity. Qed.

Lemma insertion_failure_propagates : forall n ls top t st a esc c lg,
  l_child ls = CText a esc -> attr_ev a (l_sc ls) (r_log st) = (AErr c, lg) ->
  child n ls top t st = ([], RErr c, t, set_log st lg).
Proof. intros n ls top t st a esc c lg Hc He. unfold run_child. rewrite Hc, He. reflexivity. Qed.

Lemma dynattr_emits_escape : forall mask ctx n attrs a ls t st cmd v lg,
  a_name a = prefix mgr ++ cmd -> is_directive cmd = false ->
  attr_ev a (l_sc ls) (r_log st) = (AOk v, lg) ->
  step mask ctx n attrs a ls t st =
    (inl (add_tagbuf ls ([cSP] ++ cmd ++ [cEQ; cDQ] ++ escape v ++ [cDQ])), t, set_log st lg).
Proof.
  intros mask ctx n attrs a ls t st cmd v lg Hn Hd He.
  unfold is_directive, directive_names in Hd. cbn [existsb] in Hd.
  repeat (apply orb_false_elim in Hd; destruct Hd as [? Hd]).
  unfold attr_step.
  assert (Hp : prefixb (prefix mgr) (a_name a) = true).
  { rewrite Hn. clear. induction (prefix mgr) as [|x p IH]; [reflexivity|]. cbn. rewrite N.eqb_refl. exact IH. }
  rewrite Hp.
  assert (Hs : skipn (length (prefix mgr)) (a_name a) = cmd).
  { rewrite Hn. clear. induction (prefix mgr) as [|x p IH]; [reflexivity|]. exact IH. }
  rewrite Hs.
  unfold is_cond_name, cond_names. cbn [existsb].
  repeat match goal with H : str_eqb cmd _ = false |- _ => rewrite H; clear H end.
  cbn [orb]. rewrite He. reflexivity.
Qed.
End Emit.
Print Assumptions dynattr_emits_escape.
