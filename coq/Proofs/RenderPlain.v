(* C01: a tree without directives is printed as it is. *)
From Tpl Require Import Proofs.ExecSpec Proofs.SortProps.
From Coq Require Import Lia.
Open Scope N_scope.

(* Extra side condition (see the report): [print_plain] prints the children and the end token of EVERY
   node, the renderer only those of tag nodes (and the children of the token-less root).  The trees
   produced by [build] have the following shape, which makes the two agree. *)
Definition shaped_head (tok : option token) (ch : list node) (e : option token) : Prop :=
  match tok with
  | None => e = None
  | Some t => match t_kind t with KTag => True | _ => ch = [] /\ e = None end
  end.
Fixpoint shaped (n : node) : Prop :=
  let 'Node _ tok ch e := n in
  shaped_head tok ch e /\
  (fix all (l : list node) : Prop := match l with [] => True | c :: r => shaped c /\ all r end) ch.

Lemma shaped_all_forall : forall ch,
  (fix all (l : list node) : Prop := match l with [] => True | c :: r => shaped c /\ all r end) ch <-> Forall shaped ch.
Proof.
  induction ch as [|c r IH]; split; intros H.
  - constructor.
  - exact I.
  - destruct H as [H1 H2]. constructor; [exact H1|apply IH; exact H2].
  - inversion H as [|c' r' H1 H2]; subst c' r'. split; [exact H1|apply IH; exact H2].
Qed.

Lemma shaped_node : forall i tok ch e, shaped (Node i tok ch e) <-> shaped_head tok ch e /\ Forall shaped ch.
Proof. intros i tok ch e. cbn [shaped]. rewrite shaped_all_forall. reflexivity. Qed.

(* ---------- small string facts ---------- *)
Lemma prefixb_app_self : forall e s, prefixb e (e ++ s) = true.
Proof. induction e as [|x e IH]; intros s; cbn; [reflexivity|]. rewrite N.eqb_refl. apply IH. Qed.

Lemma str_eqb_true : forall a b, str_eqb a b = true -> a = b.
Proof.
  induction a as [|x a IH]; intros [|y b] H; cbn in H; try discriminate H; [reflexivity|].
  apply andb_true_iff in H. destruct H as [H1 H2]. apply N.eqb_eq in H1. subst y. f_equal. apply IH. exact H2.
Qed.

Lemma height_child : forall ch c, In c ch -> (height c <= fold_right (fun c m => Nat.max (height c) m) O ch)%nat.
Proof.
  induction ch as [|x r IH]; intros c Hin; [destruct Hin|].
  cbn [fold_right]. destruct Hin as [Hx|Hin]; [subst x; lia|]. specialize (IH c Hin). lia.
Qed.

Section RenderPlain.
Variable is_space : rune -> bool.
Variable to_lower : rune -> rune.
Variable is_letter : rune -> bool.
Variable is_udigit : rune -> bool.
Variable methods : N -> bool -> list (str * N).
Variable call_fn : N -> list value -> fres.
Variable mgr : manager.
Notation pfx := (m_attr_prefix mgr).
Notation plainN := (plain is_space to_lower mgr).

Definition plain_attrs (l : list attr) : Prop := forall a, In a l -> prefixb pfx (a_name a) = false.

Lemma plain_children : forall i tok ch e, plainN (Node i tok ch e) -> forall c, In c ch -> plainN c.
Proof.
  intros i tok ch e [_ H]. induction ch as [|x r IH]; intros c Hin; [destruct Hin|].
  destruct H as [H1 H2]. destruct Hin as [Hx|Hin]; [subst x; exact H1|exact (IH H2 c Hin)].
Qed.

Lemma shaped_children : forall i tok ch e, shaped (Node i tok ch e) -> forall c, In c ch -> shaped c.
Proof.
  intros i tok ch e H c Hin. apply shaped_node in H. destruct H as [_ H].
  rewrite Forall_forall in H. apply H. exact Hin.
Qed.

(* ---------- no attribute carries a directive name ---------- *)
Lemma has_attr_named_plain : forall l x, plain_attrs l -> has_attr_named l (pfx ++ x) = false.
Proof.
  intros l x Hl. unfold has_attr_named.
  destruct (existsb (fun a => str_eqb (a_name a) (pfx ++ x)) l) eqn:E; [|reflexivity].
  apply existsb_exists in E. destruct E as [a [Hin Heq]]. apply str_eqb_true in Heq.
  specialize (Hl a Hin). rewrite Heq, prefixb_app_self in Hl. discriminate Hl.
Qed.

Lemma has_dir_plain : forall l d, plain_attrs l -> has_dir mgr l d = false.
Proof. intros l d Hl. unfold has_dir, prefix. apply has_attr_named_plain. exact Hl. Qed.

Lemma init_plain : forall mask tok sc, plain_attrs (t_attrs tok) ->
  str_eqb (block_key to_lower (t_name tok)) (m_tag_prefix mgr ++ d_block) = false ->
  init_lstate to_lower mgr mask tok sc = mkL sc false CDefault (cLT :: t_name tok) [] [] false.
Proof.
  intros mask tok sc Ha Hb. unfold init_lstate. cbv zeta. rewrite Hb.
  assert (He : existsb (has_dir mgr (t_attrs tok)) cond_names = false).
  { unfold cond_names. cbn [existsb]. rewrite !has_dir_plain by exact Ha. reflexivity. }
  rewrite He. rewrite !has_dir_plain by exact Ha. reflexivity.
Qed.

(* ---------- the writer ---------- *)
Definition wok (top : bool) (st : rst) : Prop := top = false \/ r_budget st = None.

Lemma wr_ok : forall top s t st, wok top st -> wr top s t st = (s, ROk, t, st).
Proof.
  intros top s t st H. unfold wr, write. destruct top; [|reflexivity].
  destruct H as [H|H]; [discriminate H|]. rewrite H. reflexivity.
Qed.

Lemma seq2_ok : forall o1 t s f o2 r t2 s2, f t s = (o2, r, t2, s2) -> seq2 (o1, ROk, t, s) f = (o1 ++ o2, r, t2, s2).
Proof. intros o1 t s f o2 r t2 s2 H. unfold seq2. rewrite H. reflexivity. Qed.

Lemma end_ok : forall top (e : option token) t st, wok top st ->
  match e with Some x => wr top (t_value x) t st | None => ([], ROk, t, st) end
  = (match e with Some x => t_value x | None => [] end, ROk, t, st).
Proof. intros top e t st Hw. destruct e as [x|]; [apply wr_ok; exact Hw|reflexivity]. Qed.

(* ---------- the pieces of the body, for any recursive call ---------- *)
Section Body.
Variable exec : N -> list node -> node -> scope -> bool -> tbl -> rst -> R.

Lemma attr_step_plain : forall mask ctx n attrs a ls t st, plain_attrs attrs -> prefixb pfx (a_name a) = false ->
  attr_step is_space is_letter is_udigit methods call_fn mgr exec mask ctx n attrs a ls t st
  = (inl (add_tagbuf ls (print_attr a)), t, st).
Proof.
  intros mask ctx n attrs a ls t st Hattrs Hp. unfold attr_step, prefix. cbv zeta. rewrite Hp.
  rewrite has_attr_named_plain by exact Hattrs. reflexivity.
Qed.

Lemma is_owner_plain : forall mask a, prefixb pfx (a_name a) = false -> is_owner mgr mask a = false.
Proof. intros mask a Hp. unfold is_owner, prefix. cbv zeta. rewrite Hp. reflexivity. Qed.

Lemma run_attrs_plain : forall mask ctx n attrs l sc np ch tb co di re t st, plain_attrs attrs -> plain_attrs l ->
  run_attrs is_space is_letter is_udigit methods call_fn mgr exec mask ctx n attrs l (mkL sc np ch tb co di re) t st
  = (inl (mkL sc np ch (tb ++ flat_map print_attr l) co di re), t, st).
Proof.
  intros mask ctx n attrs l. induction l as [|a l IH]; intros sc np ch tb co di re t st Hattrs Hl.
  - cbn [run_attrs flat_map]. rewrite app_nil_r. reflexivity.
  - cbn [run_attrs flat_map].
    assert (Hp : prefixb pfx (a_name a) = false) by (apply Hl; left; reflexivity).
    rewrite attr_step_plain by assumption. rewrite is_owner_plain by exact Hp.
    unfold add_tagbuf. cbn [l_sc l_np l_child l_tagbuf l_content l_direct l_replace].
    rewrite IH; [|exact Hattrs|intros x Hx; apply Hl; right; exact Hx].
    rewrite app_assoc. reflexivity.
Qed.

Lemma exec_list_plain : forall ctx l sc top t st,
  (forall c, In c l -> forall ctx' sc', exec 0 ctx' c sc' top t st = (print_plain c, ROk, t, st)) ->
  exec_list exec ctx l sc top t st = (flat_map print_plain l, ROk, t, st).
Proof.
  intros ctx l sc top t st. induction l as [|c r IH]; intros H; cbn [exec_list flat_map].
  - reflexivity.
  - rewrite (H c (or_introl eq_refl)). apply seq2_ok. apply IH.
    intros x Hx. apply H. right. exact Hx.
Qed.

Lemma exec_body_plain : forall mask ctx n sc top t st,
  wok top st -> plainN n -> shaped n ->
  (forall c, In c (n_children n) -> forall ctx' sc', exec 0 ctx' c sc' top t st = (print_plain c, ROk, t, st)) ->
  exec_body is_space to_lower is_letter is_udigit methods call_fn mgr exec mask ctx n sc top t st
  = (print_plain n, ROk, t, st).
Proof.
  intros mask ctx n sc top t st Hw Hplain Hshaped Hch.
  destruct n as [id tok ch e]. cbn [n_children] in Hch.
  apply shaped_node in Hshaped. destruct Hshaped as [Hhead _].
  destruct Hplain as [Htok _].
  unfold exec_body. cbn [n_tok n_children print_plain].
  destruct tok as [tk|].
  - unfold plain_tok in Htok. unfold shaped_head in Hhead. destruct (t_kind tk) eqn:K.
    + (* tag *)
      destruct Htok as [Hattrs Hblock]. fold (plain_attrs (t_attrs tk)) in Hattrs.
      unfold exec_tag, prefix.
      rewrite sorted_plain_id by exact Hattrs.
      rewrite init_plain by assumption.
      rewrite run_attrs_plain by assumption.
      rewrite wr_ok by exact Hw.
      unfold token_buf. cbn [l_direct l_np l_tagbuf l_content].
      erewrite seq2_ok.
      2:{ unfold run_child. cbn [l_child l_sc n_children].
          rewrite exec_list_plain by exact Hch.
          apply seq2_ok. cbn [n_end l_np]. apply end_ok. exact Hw. }
      unfold print_tag. cbn [app]. rewrite <- !app_assoc. reflexivity.
    + (* text *)
      destruct Hhead as [Hc He]. subst ch e. rewrite wr_ok by exact Hw. cbn [flat_map app]. rewrite app_nil_r. reflexivity.
    + (* comment *)
      destruct Hhead as [Hc He]. subst ch e. rewrite Htok. rewrite wr_ok by exact Hw. cbn [flat_map app]. rewrite app_nil_r. reflexivity.
    + (* cdata *)
      destruct Hhead as [Hc He]. subst ch e. rewrite wr_ok by exact Hw. cbn [flat_map app]. rewrite app_nil_r. reflexivity.
  - (* token-less root *)
    unfold shaped_head in Hhead. subst e. rewrite wr_ok by exact Hw.
    erewrite seq2_ok; [|apply exec_list_plain; exact Hch]. cbn [app]. rewrite app_nil_r. reflexivity.
Qed.
End Body.

(* ---------- the knot ---------- *)
Theorem render_plain_gen : forall fuel n mask ctx sc top t st,
  wok top st -> plainN n -> shaped n -> (height n <= fuel)%nat ->
  exec_node is_space to_lower is_letter is_udigit methods call_fn mgr fuel mask ctx n sc top t st
  = (print_plain n, ROk, t, st).
Proof.
  induction fuel as [|f IH]; intros n mask ctx sc top t st Hw Hp Hs Hh.
  - destruct n as [id tok ch e]. cbn [height] in Hh. lia.
  - cbn [exec_node]. apply exec_body_plain; try assumption.
    intros c Hin ctx' sc'. destruct n as [id tok ch e]. cbn [n_children] in Hin.
    apply IH.
    + exact Hw.
    + exact (plain_children id tok ch e Hp c Hin).
    + exact (shaped_children id tok ch e Hs c Hin).
    + cbn [height] in Hh. pose proof (height_child ch c Hin) as Hc. lia.
Qed.
End RenderPlain.

Theorem render_plain : forall is_space to_lower is_letter is_udigit methods call_fn mgr,
  m_attr_prefix mgr <> [] ->
  forall n fuel mask ctx sc t st, plain is_space to_lower mgr n -> shaped n -> (height n <= fuel)%nat ->
  exec_node is_space to_lower is_letter is_udigit methods call_fn mgr fuel mask ctx n sc false t st
  = (print_plain n, ROk, t, st).
Proof.
  intros is_space to_lower is_letter is_udigit methods call_fn mgr _ n fuel mask ctx sc t st Hp Hs Hh.
  apply render_plain_gen; try assumption. left. reflexivity.
Qed.

Theorem render_plain_top : forall is_space to_lower is_letter is_udigit methods call_fn mgr,
  m_attr_prefix mgr <> [] ->
  forall n fuel mask ctx sc t st, plain is_space to_lower mgr n -> shaped n -> (height n <= fuel)%nat ->
  r_budget st = None ->
  exec_node is_space to_lower is_letter is_udigit methods call_fn mgr fuel mask ctx n sc true t st
  = (print_plain n, ROk, t, st).
Proof.
  intros is_space to_lower is_letter is_udigit methods call_fn mgr _ n fuel mask ctx sc t st Hp Hs Hh Hb.
  apply render_plain_gen; try assumption. right. exact Hb.
Qed.

(* ---------- the side condition holds for every tree the parser builds ---------- *)
Section BuildShaped.
Variable to_lower : rune -> rune.
Variable void_elements : list str.

Definition frame_ok (f : frame) : Prop :=
  (exists t, f_tok f = Some t /\ t_kind t = KTag) /\ Forall shaped (f_sibs f).
Definition bstate_ok (b : bstate) : Prop := Forall shaped (b_cur b) /\ Forall frame_ok (b_stack b).

Lemma leaf_shaped : forall i t, shaped (leaf i t).
Proof.
  intros i t. unfold leaf. apply shaped_node. split; [|constructor].
  unfold shaped_head. destruct (t_kind t); auto.
Qed.

Lemma forall_rev : forall (A : Type) (P : A -> Prop) l, Forall P l -> Forall P (rev l).
Proof. intros A P l H. rewrite Forall_forall in *. intros x Hx. apply H. apply in_rev. exact Hx. Qed.

Lemma bstep_ok : forall b t, bstate_ok b -> bstate_ok (bstep to_lower void_elements b t).
Proof.
  intros b t [Hcur Hst]. unfold bstep. cbv zeta.
  destruct (t_kind t) eqn:K.
  - destruct (is_close t || is_void to_lower void_elements (t_name t)).
    + destruct (is_self_close t || is_void to_lower void_elements (t_name t)).
      * split; cbn [b_cur b_stack]; [constructor; [apply leaf_shaped|exact Hcur]|exact Hst].
      * destruct (b_stack b) as [|f st'] eqn:Es.
        -- split; cbn [b_cur b_stack]; [constructor; [apply leaf_shaped|exact Hcur]|constructor].
        -- inversion Hst as [|f' st'' Hf Hst']; subst f' st''. destruct Hf as [[tk [Htk Hk]] Hsibs].
           split; cbn [b_cur b_stack]; [|exact Hst'].
           constructor; [|exact Hsibs]. apply shaped_node. split.
           ++ unfold shaped_head. rewrite Htk, Hk. exact I.
           ++ apply forall_rev. exact Hcur.
    + split; cbn [b_cur b_stack]; [constructor|].
      constructor; [|exact Hst]. split; cbn [f_tok f_sibs]; [exists t; auto|exact Hcur].
  - split; cbn [b_cur b_stack]; [constructor; [apply leaf_shaped|exact Hcur]|exact Hst].
  - split; cbn [b_cur b_stack]; [constructor; [apply leaf_shaped|exact Hcur]|exact Hst].
  - split; cbn [b_cur b_stack]; [constructor; [apply leaf_shaped|exact Hcur]|exact Hst].
Qed.

Lemma fold_bstep_ok : forall toks b, bstate_ok b -> bstate_ok (fold_left (bstep to_lower void_elements) toks b).
Proof.
  induction toks as [|t r IH]; intros b Hb; cbn [fold_left]; [exact Hb|]. apply IH. apply bstep_ok. exact Hb.
Qed.

Lemma close_all_ok : forall st cur, Forall shaped cur -> Forall frame_ok st -> Forall shaped (close_all cur st).
Proof.
  induction st as [|f st IH]; intros cur Hcur Hst; cbn [close_all]; [exact Hcur|].
  inversion Hst as [|f' st' Hf Hst']; subst f' st'. destruct Hf as [[tk [Htk Hk]] Hsibs].
  apply IH; [|exact Hst']. constructor; [|exact Hsibs]. apply shaped_node. split.
  - unfold shaped_head. rewrite Htk, Hk. exact I.
  - apply forall_rev. exact Hcur.
Qed.

Theorem build_shaped : forall toks, shaped (build to_lower void_elements toks).
Proof.
  intros toks. unfold build. cbv zeta. apply shaped_node. split; [reflexivity|].
  apply forall_rev.
  destruct (fold_bstep_ok toks (mkB [] [] 1)) as [Hcur Hst]; [split; constructor|].
  apply close_all_ok; assumption.
Qed.
End BuildShaped.

(* ---------- the side condition is needed: a text node carrying an end token ---------- *)
Example shaped_needed :
  let n := Node 1 (Some (mkTok KText [97] (1,1) (1,2) [] [])) [] (Some (mkTok KTag [98] (1,2) (1,3) [] [])) in
  (forall is_space to_lower mgr, plain is_space to_lower mgr n) /\ height n = 1%nat /\
  forall is_space to_lower is_letter is_udigit methods call_fn mgr mask ctx sc t st,
    exec_node is_space to_lower is_letter is_udigit methods call_fn mgr 1 mask ctx n sc false t st
    <> (print_plain n, ROk, t, st).
Proof.
  cbv zeta. split; [|split].
  - intros is_space to_lower mgr. cbn. auto.
  - reflexivity.
  - intros is_space to_lower is_letter is_udigit methods call_fn mgr mask ctx sc t st H.
    cbn [exec_node] in H. unfold exec_body in H. cbn in H. discriminate H.
Qed.

Print Assumptions render_plain.
Print Assumptions render_plain_top.
Print Assumptions build_shaped.
