(* Accepted directive values are well bracketed: the token list of an accepting code scan is
     BegEnd (Literal | CodeStart CodeValue CodeEnd)* BegEnd [BegEnd]
   and every CodeValue in it was accepted by [compile]. *)
From Tpl Require Import Base.Runes Html.Code.
From Coq Require Import Lia.
Open Scope N_scope.

Inductive body : list ctok -> Prop :=
| body_nil : body []
| body_lit : forall t r, c_kind t = Literal -> c_value t <> [] -> body r -> body (t :: r)
| body_code : forall s v e r, c_kind s = CodeStart -> c_kind v = CodeValue -> c_kind e = CodeEnd ->
    body r -> body (s :: v :: e :: r).

Lemma body_app : forall a b, body a -> body b -> body (a ++ b).
Proof.
  intros a b Ha Hb. induction Ha as [|t r Hk Hv Hr IH|s v e r Hs Hv He Hr IH]; cbn [app].
  - exact Hb.
  - apply body_lit; assumption.
  - apply body_code; assumption.
Qed.

Lemma body_snoc_lit : forall mid t, body mid -> c_kind t = Literal -> c_value t <> [] -> body (mid ++ [t]).
Proof.
  intros mid t Hm Hk Hv. apply body_app; [exact Hm|]. apply body_lit; [exact Hk|exact Hv|apply body_nil].
Qed.

Lemma body_snoc_code : forall mid s v e, body mid ->
  c_kind s = CodeStart -> c_kind v = CodeValue -> c_kind e = CodeEnd -> body (mid ++ [s; v; e]).
Proof.
  intros mid s v e Hm Hs Hv He. apply body_app; [exact Hm|].
  apply body_code; [exact Hs|exact Hv|exact He|apply body_nil].
Qed.

(* the tail of an accepted token list: body, then the closing quote, maybe a second one *)
Definition closed_tail (mid : list ctok) : Prop :=
  body mid \/ exists mid' c', mid = mid' ++ [c'] /\ body mid' /\ c_kind c' = BegEnd.

Section G.
Variable compile : pos -> str -> bool.

(* Shape of the (reversed) token list kept in the state, by mode. *)
Definition open_shape (toks : list ctok) : Prop :=
  exists o mid, rev toks = o :: mid /\ c_kind o = BegEnd /\ body mid.
Definition block_shape (toks : list ctok) : Prop :=
  exists o mid s, rev toks = o :: mid ++ [s] /\ c_kind o = BegEnd /\ body mid /\ c_kind s = CodeStart.
Definition closed_shape (toks : list ctok) : Prop :=
  exists o mid c, rev toks = o :: mid ++ [c] /\ c_kind o = BegEnd /\ body mid /\ c_kind c = BegEnd.
Definition done_shape (toks : list ctok) : Prop :=
  exists o mid c, rev toks = o :: mid ++ [c] /\ c_kind o = BegEnd /\ c_kind c = BegEnd /\ closed_tail mid.

Definition shape (toks : list ctok) (m : cmode) : Prop :=
  match m with
  | CErr _ => True
  | CInit => toks = []
  | CText _ _ _ | CDollar _ _ _ | CEndQ => open_shape toks
  | CBlock _ _ _ | CStr _ _ _ _ => block_shape toks
  | CClosed => closed_shape toks
  | CDone => done_shape toks
  end.

Definition compiled (toks : list ctok) : Prop :=
  forall t, In t toks -> c_kind t = CodeValue -> compile (c_start t) (c_value t) = true.

Definition GInv (toks : list ctok) (m : cmode) : Prop := shape toks m /\ compiled toks.

Definition RG (c : cres) : Prop := match c with CR t _ _ m _ => GInv t m end.

(* --- transitions on shapes --- *)
Lemma open_first : forall t, c_kind t = BegEnd -> open_shape [t].
Proof.
  intros t Hk. exists t, []. cbn [rev app]. split; [reflexivity|]. split; [exact Hk|apply body_nil].
Qed.

Lemma open_lit : forall toks t, open_shape toks -> c_kind t = Literal -> c_value t <> [] -> open_shape (t :: toks).
Proof.
  intros toks t [o [mid [Hr [Ho Hb]]]] Hk Hv. exists o, (mid ++ [t]). cbn [rev]. rewrite Hr.
  split; [reflexivity|]. split; [exact Ho|]. apply body_snoc_lit; assumption.
Qed.

Lemma open_close_done : forall toks c, open_shape toks -> c_kind c = BegEnd -> done_shape (c :: toks).
Proof.
  intros toks c [o [mid [Hr [Ho Hb]]]] Hc. exists o, mid, c. cbn [rev]. rewrite Hr.
  split; [reflexivity|]. split; [exact Ho|]. split; [exact Hc|]. left. exact Hb.
Qed.

Lemma open_close_closed : forall toks c, open_shape toks -> c_kind c = BegEnd -> closed_shape (c :: toks).
Proof.
  intros toks c [o [mid [Hr [Ho Hb]]]] Hc. exists o, mid, c. cbn [rev]. rewrite Hr.
  split; [reflexivity|]. split; [exact Ho|]. split; [exact Hb|exact Hc].
Qed.

Lemma closed_close_done : forall toks c, closed_shape toks -> c_kind c = BegEnd -> done_shape (c :: toks).
Proof.
  intros toks c [o [mid [c' [Hr [Ho [Hb Hc']]]]]] Hc. exists o, (mid ++ [c']), c. cbn [rev]. rewrite Hr.
  split; [reflexivity|]. split; [exact Ho|]. split; [exact Hc|].
  right. exists mid, c'. split; [reflexivity|]. split; [exact Hb|exact Hc'].
Qed.

Lemma open_start : forall toks s, open_shape toks -> c_kind s = CodeStart -> block_shape (s :: toks).
Proof.
  intros toks s [o [mid [Hr [Ho Hb]]]] Hs. exists o, mid, s. cbn [rev]. rewrite Hr.
  split; [reflexivity|]. split; [exact Ho|]. split; [exact Hb|exact Hs].
Qed.

Lemma block_end : forall toks v e, block_shape toks -> c_kind v = CodeValue -> c_kind e = CodeEnd ->
  open_shape (e :: v :: toks).
Proof.
  intros toks v e [o [mid [s [Hr [Ho [Hb Hs]]]]]] Hv He. exists o, (mid ++ [s; v; e]). cbn [rev]. rewrite Hr.
  split.
  - cbn [app]. repeat rewrite <- app_assoc. reflexivity.
  - split; [exact Ho|]. apply body_snoc_code; assumption.
Qed.

Lemma compiled_cons : forall t toks, compiled toks ->
  (c_kind t = CodeValue -> compile (c_start t) (c_value t) = true) -> compiled (t :: toks).
Proof.
  intros t toks Hc Ht u [Hu|Hu] Hk.
  - subst u. apply Ht. exact Hk.
  - apply Hc; assumption.
Qed.

Lemma compiled_cons_other : forall t toks, compiled toks -> c_kind t <> CodeValue -> compiled (t :: toks).
Proof.
  intros t toks Hc Hn. apply compiled_cons; [exact Hc|]. intros Hk. exfalso. apply Hn. exact Hk.
Qed.

Ltac split_ifs :=
  repeat match goal with
  | |- context [if ?c then _ else _] => let E := fresh "E" in destruct c eqn:E
  | |- context [match ?b with [] => _ | _ :: _ => _ end] => is_var b; destruct b
  end.

Ltac comp_tac :=
  repeat first
    [ assumption
    | apply compiled_cons_other; [|cbn [c_kind]; discriminate] ].

Lemma disp_G : forall toks f b m r p0 p1,
  GInv toks m -> RG (cdispatch compile toks f b m r p0 p1).
Proof.
  intros toks f b m r p0 p1 [HS HC].
  destruct m as [| | | |buf st endp|buf st endp|buf st endp|q esc buf st|e];
    cbn [cdispatch]; cbn [shape] in HS; split_ifs; cbn [RG]; unfold GInv; cbn [shape];
    try (split; [exact I|exact HC]);
    try (split; [exact HS|exact HC]).
  - (* CInit, quote *) subst toks. split; [apply open_first; reflexivity|comp_tac].
  - (* CEndQ, quote *) split; [apply open_close_done; [exact HS|reflexivity]|comp_tac].
  - (* CClosed, quote *) split; [apply closed_close_done; [exact HS|reflexivity]|comp_tac].
  - (* CText, closing quote, empty buffer *)
    split; [apply open_close_closed; [exact HS|reflexivity]|comp_tac].
  - (* CText, closing quote, literal *)
    split; [apply open_lit; [exact HS|reflexivity|cbn [c_value]; discriminate]|comp_tac].
  - (* CDollar, "${", empty buffer *)
    split; [apply open_start; [exact HS|reflexivity]|comp_tac].
  - (* CDollar, "${", literal *)
    split.
    + apply open_start; [|reflexivity]. apply open_lit; [exact HS|reflexivity|cbn [c_value]; discriminate].
    + comp_tac.
  - (* CBlock, closing brace, compiled *)
    split.
    + apply block_end; [exact HS|reflexivity|reflexivity].
    + apply compiled_cons_other; [|cbn [c_kind]; discriminate].
      apply compiled_cons; [exact HC|]. intros _. cbn [c_start c_value]. assumption.
Qed.

Definition cgo (r : rune) (p0 p1 : pos) (c : cres) : cres :=
  match c with
  | CR t f b m again => if again then cdispatch compile t f b m r p0 p1 else CR t f b m false
  end.

Lemma cstep_eq : forall s r,
  cstep compile s r =
  match cgo r (k_pos s) (adv (k_pos s) r) (cgo r (k_pos s) (adv (k_pos s) r) (cgo r (k_pos s) (adv (k_pos s) r)
          (cdispatch compile (k_toks s) (k_first s) (k_brace s) (k_mode s) r (k_pos s) (adv (k_pos s) r)))) with
  | CR t f b m _ => mkCS t (adv (k_pos s) r) f b m
  end.
Proof. reflexivity. Qed.

Lemma cgo_G : forall r p0 p1 c, RG c -> RG (cgo r p0 p1 c).
Proof.
  intros r p0 p1 [t f b m again] HR. cbn [cgo]. destruct again.
  - cbn [RG] in HR. apply disp_G. exact HR.
  - exact HR.
Qed.

Lemma cstep_G : forall s r, GInv (k_toks s) (k_mode s) ->
  GInv (k_toks (cstep compile s r)) (k_mode (cstep compile s r)).
Proof.
  intros s r HG. rewrite cstep_eq.
  pose proof (disp_G (k_toks s) (k_first s) (k_brace s) (k_mode s) r (k_pos s) (adv (k_pos s) r) HG) as H0.
  set (c0 := cdispatch compile (k_toks s) (k_first s) (k_brace s) (k_mode s) r (k_pos s) (adv (k_pos s) r)) in *.
  pose proof (cgo_G r (k_pos s) (adv (k_pos s) r) c0 H0) as H1.
  set (c1 := cgo r (k_pos s) (adv (k_pos s) r) c0) in *.
  pose proof (cgo_G r (k_pos s) (adv (k_pos s) r) c1 H1) as H2.
  set (c2 := cgo r (k_pos s) (adv (k_pos s) r) c1) in *.
  pose proof (cgo_G r (k_pos s) (adv (k_pos s) r) c2 H2) as H3.
  set (c3 := cgo r (k_pos s) (adv (k_pos s) r) c2) in *.
  destruct c3 as [t f b m again]. cbn [k_toks k_mode]. exact H3.
Qed.

Lemma fold_G : forall src s, GInv (k_toks s) (k_mode s) ->
  GInv (k_toks (fold_left (cstep compile) src s)) (k_mode (fold_left (cstep compile) src s)).
Proof.
  induction src as [|r src IH]; intros s HG; cbn [fold_left].
  - exact HG.
  - apply IH. apply cstep_G. exact HG.
Qed.

Lemma run_G : forall start src,
  GInv (k_toks (fold_left (cstep compile) src (cinit start))) (k_mode (fold_left (cstep compile) src (cinit start))).
Proof.
  intros start src. apply fold_G. unfold cinit. cbn [k_toks k_mode]. split.
  - cbn [shape]. reflexivity.
  - intros t Hin. destruct Hin.
Qed.

Lemma cfinish_inl : forall s toks,
  cfinish s = inl toks -> toks = rev (k_toks s) /\ (k_mode s = CClosed \/ k_mode s = CDone).
Proof.
  intros s toks H. unfold cfinish in H.
  destruct (k_mode s); try discriminate; injection H as H; subst toks; auto.
Qed.

Theorem cscan_wellformed_sec : forall start src toks, cscan compile start src = inl toks ->
  exists o mid c, toks = o :: mid ++ [c] /\ c_kind o = BegEnd /\ c_kind c = BegEnd /\
     (body mid \/ exists mid' c', mid = mid' ++ [c'] /\ body mid' /\ c_kind c' = BegEnd).
Proof.
  intros start src toks H. unfold cscan in H.
  destruct (cfinish_inl _ _ H) as [Ht Hm].
  destruct (run_G start src) as [HS _].
  destruct Hm as [Hm|Hm]; rewrite Hm in HS; cbn [shape] in HS.
  - destruct HS as [o [mid [c [Hr [Ho [Hb Hc]]]]]].
    exists o, mid, c. split; [rewrite Ht; exact Hr|]. split; [exact Ho|]. split; [exact Hc|]. left. exact Hb.
  - destruct HS as [o [mid [c [Hr [Ho [Hc Htl]]]]]].
    exists o, mid, c. split; [rewrite Ht; exact Hr|]. split; [exact Ho|]. split; [exact Hc|]. exact Htl.
Qed.

Theorem cscan_code_compiled_sec : forall start src toks t, cscan compile start src = inl toks ->
  In t toks -> c_kind t = CodeValue -> compile (c_start t) (c_value t) = true.
Proof.
  intros start src toks t H Hin Hk. unfold cscan in H.
  destruct (cfinish_inl _ _ H) as [Ht _].
  destruct (run_G start src) as [_ HC].
  apply HC; [|exact Hk]. apply in_rev. rewrite <- Ht. exact Hin.
Qed.
End G.

Theorem cscan_wellformed : forall compile start src toks, cscan compile start src = inl toks ->
  exists o mid c, toks = o :: mid ++ [c] /\ c_kind o = BegEnd /\ c_kind c = BegEnd /\
     (body mid \/ exists mid' c', mid = mid' ++ [c'] /\ body mid' /\ c_kind c' = BegEnd).
Proof. exact cscan_wellformed_sec. Qed.

Theorem cscan_code_compiled : forall compile start src toks t, cscan compile start src = inl toks ->
  In t toks -> c_kind t = CodeValue -> compile (c_start t) (c_value t) = true.
Proof. exact cscan_code_compiled_sec. Qed.

(* consequently an unterminated ${ block, string or quote is never accepted *)
Theorem cscan_rejects_open : forall compile start src,
  (exists m, k_mode (fold_left (cstep compile) src (cinit start)) = m /\ m <> CClosed /\ m <> CDone) ->
  exists e, cscan compile start src = inr e.
Proof.
  intros compile start src [m [Hm [Hc Hd]]]. unfold cscan, cfinish. rewrite Hm.
  destruct m as [| | | |buf st endp|buf st endp|buf st endp|q esc buf st|e];
    try (exfalso; apply Hc; reflexivity); try (exfalso; apply Hd; reflexivity);
    eexists; reflexivity.
Qed.

Print Assumptions cscan_wellformed.
Print Assumptions cscan_code_compiled.
Print Assumptions cscan_rejects_open.
