(* The fuel [S (length src)] that [add_file] gives to [add_defs] is sufficient for every tree that
   [load] produces: [height root <= S (length src)].
   - scanner: every token of a successful scan has a non-empty value, so (with [scan_concat]) there
     are at most [length src] tokens;
   - builder: every node below the root carries a token and the tokens of the tree are the scanned
     tokens ([build_flatten]), so the height of the tree is at most 1 + the number of tokens. *)
From Coq Require Import List NArith Bool Lia Arith.
From Tpl Require Import Html.Scan Html.Tree Html.Pipeline Proofs.ScanSpec Proofs.ScanConcat Proofs.BuildFlatten
  Proofs.DefsRegistered.
Import ListNotations.
Open Scope N_scope.

(* ================= scanner: no empty token ================= *)
Definition ne_tok (t : token) : Prop := t_value t <> [].
Definition notext (m : mode) : Prop := match m with MText _ => False | _ => True end.
Definition ninv (toks : list token) (m : mode) : Prop :=
  Forall ne_tok toks /\ match m with MText x => x_buf x <> [] | _ => True end.

Lemma snoc_ne : forall (s : str) r, s ++ [r] <> [].
Proof. intros s r H. apply app_eq_nil in H as [_ H]. discriminate. Qed.

Ltac ne_solve := unfold ne_tok; cbn [t_value app]; first [apply snoc_ne | discriminate | congruence].

Section P.
Variable is_space : rune -> bool.
Variable to_lower : rune -> rune.
Variable text_tags : list str.
Variable attr_prefix : str.
Variable compile : attr -> bool.

Notation dispatch := (Scan.dispatch is_space to_lower text_tags attr_prefix compile).
Notation step := (Scan.step is_space to_lower text_tags attr_prefix compile).
Notation tag_step := (Scan.tag_step is_space attr_prefix compile).
Notation text_step := (Scan.text_step is_space to_lower).
Notation scan := (Scan.scan is_space to_lower text_tags attr_prefix compile).
Notation add_attr := (Scan.add_attr attr_prefix compile).
Notation new_text := (Scan.new_text to_lower text_tags).

Lemma finish_or_ne : forall toks g r p1 toks' m' u,
  Forall ne_tok toks -> g_buf g <> [] -> finish_or toks g r p1 = TR toks' m' u ->
  Forall ne_tok toks' /\ notext m'.
Proof.
  intros toks g r p1 toks' m' u Hne Hb H. unfold finish_or, emit_tag in H.
  destruct (N.eqb r cGT); inversion H; subst; (split; [|exact I]); [|exact Hne].
  constructor; [exact Hb|exact Hne].
Qed.

Lemma tag_step_ne : forall toks g r p0 p1 toks' m' u,
  Forall ne_tok toks -> tag_step toks g r p0 p1 = TR toks' m' u -> Forall ne_tok toks' /\ notext m'.
Proof.
  intros toks g r p0 p1 toks' m' u Hne H. unfold Scan.tag_step in H. tag_cbn_in H.
  assert (Hfin : forall g1, g_buf g1 = g_buf g ++ [r] -> finish_or toks g1 r p1 = TR toks' m' u ->
                 Forall ne_tok toks' /\ notext m').
  { intros g1 Eb Hf. eapply finish_or_ne; [exact Hne| |exact Hf]. rewrite Eb. apply snoc_ne. }
  assert (Hsame : forall m1 u1, notext m1 -> TR toks m1 u1 = TR toks' m' u -> Forall ne_tok toks' /\ notext m').
  { intros m1 u1 Hm E. inversion E; subst. split; assumption. }
  assert (Hemit : forall t u1, t_value t <> [] -> TR (t :: toks) MInit u1 = TR toks' m' u ->
                  Forall ne_tok toks' /\ notext m').
  { intros t u1 Ht E. inversion E; subst. split; [constructor; assumption|exact I]. }
  destruct (g_state g).
  - (* TName *)
    destruct (N.eqb r cGT); [(refine (Hfin _ _ H); reflexivity)|].
    destruct (is_space r); [(refine (Hsame _ _ _ H); exact I)|].
    (refine (Hfin _ _ H); reflexivity).
  - (* TCData *)
    destruct (suffixb sRRGT (g_cdata g ++ [r])); [|(refine (Hsame _ _ _ H); exact I)].
    (refine (Hemit _ _ _ H); cbn [t_value app sLTBDD]; discriminate).
  - (* TComment *)
    destruct (prefixb [cGT] _ || prefixb [cDASH; cGT] _); [(refine (Hsame _ _ _ H); exact I)|].
    destruct (suffixb sDDGT (g_comment g ++ [r])); [|(refine (Hsame _ _ _ H); exact I)].
    destruct (containsb sLTBDD _ || containsb sDDGT _ || containsb sDDBGT _); [(refine (Hsame _ _ _ H); exact I)|].
    destruct (suffixb sLTBD _); [(refine (Hsame _ _ _ H); exact I)|].
    (refine (Hemit _ _ _ H); cbn [t_value app sLTBDD]; discriminate).
  - (* TSpace *)
    destruct (N.eqb r cGT); [(refine (Hfin _ _ H); reflexivity)|].
    destruct (is_space r); (refine (Hsame _ _ _ H); exact I).
  - (* TAttrName *)
    destruct (is_space r); [(refine (Hsame _ _ _ H); exact I)|].
    destruct (N.eqb r cGT).
    + destruct (add_attr _ _ _) as [g'|e] eqn:Ea; [|(refine (Hsame _ _ _ H); exact I)].
      apply add_attr_buf in Ea as (Eb & _ & _). tag_cbn_in Eb. apply (Hfin _ Eb H).
    + destruct (N.eqb r cEQ); [(refine (Hsame _ _ _ H); exact I)|].
      destruct (ends_sp (g_aname g)); [|(refine (Hsame _ _ _ H); exact I)].
      destruct (add_attr _ _ _) as [g'|e]; (refine (Hsame _ _ _ H); exact I).
  - (* TAttrValue *)
    destruct (g_aval g) as [|f av].
    + destruct (is_space r); [(refine (Hsame _ _ _ H); exact I)|].
      destruct (N.eqb r cGT); [|(refine (Hsame _ _ _ H); exact I)].
      destruct (add_attr _ _ _) as [g'|e] eqn:Ea; [|(refine (Hsame _ _ _ H); exact I)].
      apply add_attr_buf in Ea as (Eb & _ & _). tag_cbn_in Eb. apply (Hfin _ Eb H).
    + destruct ((N.eqb f cDQ || N.eqb f cSQ) && N.eqb f r
                || negb (N.eqb f cDQ || N.eqb f cSQ) && (is_space r || N.eqb r cGT)).
      * destruct (add_attr _ _ _) as [g'|e] eqn:Ea; [|(refine (Hsame _ _ _ H); exact I)].
        apply add_attr_buf in Ea as (Eb & _ & _). tag_cbn_in Eb.
        refine (Hfin _ _ H). tag_cbn. exact Eb.
      * destruct (N.eqb f cDQ || N.eqb f cSQ); [(refine (Hsame _ _ _ H); exact I)|].
        (refine (Hfin _ _ H); reflexivity).
Qed.

(* [text_step] in a state with an empty buffer emits an empty text token when a non-raw text meets
   '<'; [dispatch] never calls it so *)
Lemma text_step_ne : forall toks x r p0 p1 toks' m' u,
  Forall ne_tok toks -> (x_buf x <> [] \/ x_raw x = true \/ N.eqb r cLT = false) ->
  text_step toks x r p0 p1 = TR toks' m' u -> ninv toks' m'.
Proof.
  intros toks x r p0 p1 toks' m' u Hne Hx H. unfold Scan.text_step in H.
  assert (Hsame : forall x1 u1, x_buf x1 = x_buf x ++ [r] -> TR toks (MText x1) u1 = TR toks' m' u -> ninv toks' m').
  { intros x1 u1 Eb E. inversion E; subst. split; [exact Hne|]. rewrite Eb. apply snoc_ne. }
  destruct (x_raw x) eqn:Er.
  - destruct (N.eqb r cLT) eqn:Elt.
    + cbn [negb] in H. text_cbn_in H.
      destruct (prefixb _ _).
      * destruct (N.eqb r cGT); [|(refine (Hsame _ _ _ H); reflexivity)].
        destruct (firstn _ _) as [|c0 tv] eqn:Ef; inversion H; subst; (split; [|exact I]).
        -- constructor; [ne_solve|exact Hne].
        -- constructor; [ne_solve|]. constructor; [ne_solve|exact Hne].
      * (refine (Hsame _ _ _ H); reflexivity).
    + destruct (x_tagbuf x) as [|t0 tb].
      * cbn [negb] in H. (refine (Hsame _ _ _ H); reflexivity).
      * cbn [negb] in H.
        destruct (prefixb _ _).
        -- destruct (N.eqb r cGT); [|(refine (Hsame _ _ _ H); reflexivity)].
           destruct (firstn _ _) as [|c0 tv] eqn:Ef; inversion H; subst; (split; [|exact I]).
           ++ constructor; [ne_solve|exact Hne].
           ++ constructor; [ne_solve|]. constructor; [ne_solve|exact Hne].
        -- (refine (Hsame _ _ _ H); reflexivity).
  - destruct (N.eqb r cLT) eqn:Elt.
    + destruct Hx as [Hx|[Hx|Hx]]; try discriminate.
      inversion H; subst. split; [|exact I]. constructor; [exact Hx|exact Hne].
    + (refine (Hsame _ _ _ H); reflexivity).
Qed.

Lemma dispatch_ne : forall toks m r p0 p1 toks' m' u,
  ninv toks m -> dispatch toks m r p0 p1 = TR toks' m' u -> ninv toks' m'.
Proof.
  intros toks m r p0 p1 toks' m' u [Hne Hm] H. destruct m as [|x|g|e]; cbn [Scan.dispatch] in H.
  - unfold Scan.new_text in H. destruct (raw_tag_of_last _ _ _) as [n|].
    + eapply text_step_ne; [exact Hne| |exact H]. right. left. reflexivity.
    + destruct (N.eqb r cLT) eqn:Elt.
      * inversion H; subst. split; [exact Hne|exact I].
      * eapply text_step_ne; [exact Hne| |exact H]. right. right. exact Elt.
  - eapply text_step_ne; [exact Hne| |exact H]. left. exact Hm.
  - destruct (tag_step_ne _ _ _ _ _ _ _ _ Hne H) as [H1 H2]. split; [exact H1|].
    destruct m'; try exact I. destruct H2.
  - inversion H; subst. split; [exact Hne|exact I].
Qed.

Lemma step_ne : forall s r, ninv (s_toks s) (s_mode s) -> ninv (s_toks (step s r)) (s_mode (step s r)).
Proof.
  intros s r H. unfold Scan.step.
  destruct (dispatch (s_toks s) (s_mode s) r (s_pos s) (adv (s_pos s) r)) as [toks m [|]] eqn:E1.
  - pose proof (dispatch_ne _ _ _ _ _ _ _ _ H E1) as H1.
    destruct (dispatch toks m r (s_pos s) (adv (s_pos s) r)) as [toks2 m2 u2] eqn:E2.
    cbn [s_toks s_mode]. exact (dispatch_ne _ _ _ _ _ _ _ _ H1 E2).
  - cbn [s_toks s_mode]. exact (dispatch_ne _ _ _ _ _ _ _ _ H E1).
Qed.

Lemma fold_ne : forall src s, ninv (s_toks s) (s_mode s) ->
  ninv (s_toks (fold_left step src s)) (s_mode (fold_left step src s)).
Proof.
  induction src as [|r src IH]; intros s H; cbn [fold_left]; [exact H|]. apply IH. apply step_ne. exact H.
Qed.

Theorem scan_tokens_nonempty : forall src toks, scan src = inl toks -> Forall ne_tok toks.
Proof.
  intros src toks H. unfold Scan.scan, finish in H.
  assert (H0 : ninv (s_toks (init)) (s_mode (init))) by (split; [constructor|exact I]).
  pose proof (fold_ne src init H0) as [F1 F2].
  destruct (s_mode (fold_left step src init)) as [|x|g|e]; try discriminate.
  - injection H as <-. apply Forall_rev. exact F1.
  - injection H as <-. apply Forall_app. split; [apply Forall_rev; exact F1|].
    constructor; [exact F2|constructor].
Qed.

Lemma length_concat_ne : forall toks, Forall ne_tok toks ->
  (length toks <= length (concat (map t_value toks)))%nat.
Proof.
  induction toks as [|t toks IH]; intros H; [cbn; lia|].
  inversion H as [|t' toks' Ht Hr]; subst. cbn [map concat length]. rewrite app_length.
  specialize (IH Hr). unfold ne_tok in Ht. destruct (t_value t); [congruence|]. cbn [length]. lia.
Qed.

Theorem scan_token_count : forall src toks, scan src = inl toks -> (length toks <= length src)%nat.
Proof.
  intros src toks H.
  rewrite <- (scan_concat is_space to_lower text_tags attr_prefix compile src toks H).
  apply length_concat_ne. exact (scan_tokens_nonempty _ _ H).
Qed.
End P.

(* ================= builder: the height of the tree ================= *)
(* every node of the subtree carries a token *)
Inductive tokd : node -> Prop :=
| tokd_intro : forall i t ch e, Forall tokd ch -> tokd (Node i (Some t) ch e).

Lemma list_max_flat : forall ch, Forall (fun c => (height c <= length (flatten c))%nat) ch ->
  (list_max (map height ch) <= length (flat_map flatten ch))%nat.
Proof.
  induction ch as [|c ch IH]; intros H; [cbn; lia|].
  inversion H as [|c' ch' Hc Hr]; subst. cbn [map flat_map]. unfold list_max in *. cbn [fold_right]. rewrite app_length.
  specialize (IH Hr). lia.
Qed.

Lemma tokd_height : forall n, tokd n -> (height n <= length (flatten n))%nat.
Proof.
  apply (PureRenderTree.node_ind' (fun n => tokd n -> (height n <= length (flatten n))%nat)).
  intros i tok ch e IH Ht. inversion Ht as [i' t ch' e' Hch]; subst.
  rewrite height_unfold, flatten_eq. cbn [n_children opt_tok]. rewrite !app_length. cbn [length].
  assert (Hall : Forall (fun c => (height c <= length (flatten c))%nat) ch).
  { rewrite Forall_forall in *. intros c Hc. apply IH; [exact Hc|apply Hch; exact Hc]. }
  pose proof (list_max_flat ch Hall). lia.
Qed.

Section Build.
Variable to_lower : rune -> rune.
Variable void_elements : list str.

Definition frame_tokd (f : frame) : Prop := f_tok f <> None /\ Forall tokd (f_sibs f).
Definition binv (b : bstate) : Prop := Forall tokd (b_cur b) /\ Forall frame_tokd (b_stack b).

Lemma frame_node_tokd : forall f cur e, frame_tokd f -> Forall tokd cur -> tokd (Node (f_id f) (f_tok f) (rev cur) e).
Proof.
  intros f cur e [Ht _] Hcur. destruct (f_tok f) as [t|]; [|congruence].
  constructor. apply Forall_rev. exact Hcur.
Qed.

Lemma bstep_binv : forall b t, binv b -> binv (bstep to_lower void_elements b t).
Proof.
  intros [cur st nx] t [Hcur Hst]. cbn [b_cur b_stack] in Hcur, Hst.
  assert (Hleaf : forall k, binv (mkB (leaf nx t :: cur) st k)).
  { intros k. split; cbn [b_cur b_stack]; [|exact Hst]. constructor; [|exact Hcur].
    unfold leaf. constructor. constructor. }
  unfold bstep. cbn [b_cur b_stack b_next].
  destruct (t_kind t); try apply Hleaf.
  destruct (is_close t || is_void to_lower void_elements (t_name t)).
  - destruct (is_self_close t || is_void to_lower void_elements (t_name t)); [apply Hleaf|].
    destruct st as [|f st']; [apply Hleaf|].
    inversion Hst as [|f' st'' Hf Hst']; subst.
    split; cbn [b_cur b_stack]; [|exact Hst'].
    constructor; [apply frame_node_tokd; assumption|exact (proj2 Hf)].
  - split; cbn [b_cur b_stack]; [constructor|].
    constructor; [|exact Hst]. split; cbn [f_tok f_sibs]; [discriminate|exact Hcur].
Qed.

Lemma fold_bstep_binv : forall toks b, binv b -> binv (fold_left (bstep to_lower void_elements) toks b).
Proof.
  induction toks as [|t toks IH]; intros b H; cbn [fold_left]; [exact H|]. apply IH, bstep_binv, H.
Qed.

Lemma close_all_tokd : forall st cur, Forall tokd cur -> Forall frame_tokd st -> Forall tokd (close_all cur st).
Proof.
  induction st as [|f st IH]; intros cur Hcur Hst; [exact Hcur|].
  inversion Hst as [|f' st' Hf Hst']; subst. cbn [close_all]. apply IH; [|exact Hst'].
  constructor; [apply frame_node_tokd; assumption|exact (proj2 Hf)].
Qed.

(* the height of the built tree is at most 1 (the root) + the number of tokens *)
Theorem build_height : forall toks, (height (build to_lower void_elements toks) <= S (length toks))%nat.
Proof.
  intros toks.
  pose proof (build_flatten to_lower void_elements toks) as Hfl.
  unfold build in *.
  set (b := fold_left (bstep to_lower void_elements) toks (mkB [] [] 1)) in *.
  assert (Hb : binv b) by (apply fold_bstep_binv; split; constructor).
  destruct Hb as [Hcur Hst].
  pose proof (close_all_tokd _ _ Hcur Hst) as Hch. apply Forall_rev in Hch.
  rewrite flatten_eq in Hfl. cbn [opt_tok app] in Hfl. rewrite app_nil_r in Hfl.
  rewrite height_unfold. cbn [n_children]. rewrite <- Hfl.
  apply le_n_S. apply list_max_flat.
  rewrite Forall_forall in *. intros c Hc. apply tokd_height, Hch, Hc.
Qed.
End Build.

(* ================= load ================= *)
Theorem load_height : forall is_space to_lower text_tags void_elements attr_prefix parse_ok src root,
  load is_space to_lower text_tags void_elements attr_prefix parse_ok src = inl root ->
  (height root <= S (length src))%nat.
Proof.
  intros is_space to_lower text_tags void_elements attr_prefix parse_ok src root H.
  unfold load, scan_html in H.
  destruct (Scan.scan is_space to_lower text_tags attr_prefix _ src) as [toks|e] eqn:Es; [|discriminate].
  inversion H; subst root.
  pose proof (build_height to_lower void_elements toks).
  pose proof (scan_token_count _ _ _ _ _ _ _ Es). lia.
Qed.

Print Assumptions scan_tokens_nonempty.
Print Assumptions build_height.
Print Assumptions load_height.
