(* The renderer always serves the last successfully built template set (C18). *)
From Tpl Require Import Sys.Reload.
From Coq Require Import Lia.

(* specification: the last successful build among the Reload operations of a history *)
Fixpoint last_success (acc : option version) (ops : list op) : option version :=
  match ops with
  | [] => acc
  | Reload (BOk v) :: r => last_success (Some v) r
  | _ :: r => last_success acc r
  end.

Lemma step_cur : forall hot s o, cur (fst (rstep hot s o)) = last_success (cur s) [o].
Proof.
  intros hot [c] o. destruct o as [[v|]|ex b|ex b]; cbn [rstep last_success cur fst]; try reflexivity.
  - destruct hot; [destruct b|destruct c]; reflexivity.
  - destruct hot; [destruct b|destruct c]; reflexivity.
Qed.
Lemma last_success_cons : forall acc o l, last_success acc (o :: l) = last_success (last_success acc [o]) l.
Proof. intros acc o l. destruct o as [[v|]|ex b|ex b]; reflexivity. Qed.

Lemma run_nth : forall hot ops s i o, nth_error ops i = Some o ->
  nth_error (run hot s ops) i = Some (snd (rstep hot (mkRS (last_success (cur s) (firstn i ops))) o)).
Proof.
  induction ops as [|o' r IH]; intros s i o H.
  - destruct i; discriminate.
  - destruct i as [|i]; cbn [nth_error] in H.
    + injection H as ->. cbn [run firstn last_success]. destruct (rstep hot s o) as [s' a] eqn:E.
      cbn [nth_error]. destruct s as [c]. cbn [cur]. rewrite E. reflexivity.
    + cbn [run]. destruct (rstep hot s o') as [s' a] eqn:E. cbn [nth_error firstn].
      rewrite (IH s' i o H). rewrite last_success_cons.
      replace (cur s') with (last_success (cur s) [o']); [reflexivity|].
      rewrite <- step_cur with (hot := hot). rewrite E. reflexivity.
Qed.

(* Without hot reload every request is answered from the most recent successful build of the
   history so far (a failed Reload leaves the previous set in service; none yet = ANoSet). *)
Theorem serves_last_success : forall ops i ex b first,
  nth_error ops i = Some (Render ex b) \/ nth_error ops i = Some (Get ex b) ->
  nth_error (new_render false first ops) (S i) =
    Some (match last_success None (Reload first :: firstn i ops) with
          | Some v => lookup_in v ex
          | None => ANoSet
          end).
Proof.
  intros ops i ex b first H. unfold new_render.
  assert (E : exists o, nth_error (Reload first :: ops) (S i) = Some o /\ (o = Render ex b \/ o = Get ex b)).
  { destruct H as [H|H]; eexists; (split; [exact H|]); auto. }
  destruct E as [o [Ho Hk]].
  rewrite (run_nth false _ _ _ _ Ho). cbn [cur firstn]. 
  destruct Hk as [-> | ->]; cbn [rstep snd cur]; destruct (last_success None (Reload first :: firstn i ops)); reflexivity.
Qed.

Theorem failed_reload_keeps_previous : forall hot s, rstep hot s (Reload BFail) = (s, AReloadErr).
Proof. reflexivity. Qed.
Theorem successful_reload_visible : forall hot s v ex b,
  snd (rstep false (fst (rstep hot s (Reload (BOk v)))) (Render ex b)) = lookup_in v ex.
Proof. intros. reflexivity. Qed.

(* With hot reload each request builds afresh: it is answered from its own build, or surfaces its
   own build error (nothing rendered), whatever happened before. *)
Theorem hot_builds_afresh : forall ops i ex b first,
  nth_error ops i = Some (Render ex b) \/ nth_error ops i = Some (Get ex b) ->
  nth_error (new_render true first ops) (S i) =
    Some (match b with BOk v => lookup_in v ex | BFail => ABuildErr end).
Proof.
  intros ops i ex b first H. unfold new_render.
  assert (E : exists o, nth_error (Reload first :: ops) (S i) = Some o /\ (o = Render ex b \/ o = Get ex b)).
  { destruct H as [H|H]; eexists; (split; [exact H|]); auto. }
  destruct E as [o [Ho Hk]].
  rewrite (run_nth true _ _ _ _ Ho).
  destruct Hk as [-> | ->]; cbn [rstep snd]; destruct b; reflexivity.
Qed.

Theorem reload_answers : forall hot ops i b first, nth_error ops i = Some (Reload b) ->
  nth_error (new_render hot first ops) (S i) = Some (match b with BOk _ => AReloadOk | BFail => AReloadErr end).
Proof.
  intros hot ops i b first H. unfold new_render.
  assert (Ho : nth_error (Reload first :: ops) (S i) = Some (Reload b)) by exact H.
  rewrite (run_nth hot _ _ _ _ Ho). destruct b; reflexivity.
Qed.

Theorem content_type_only_if_empty : forall ex ct,
  write_content_type ex ct = match ex with [] => ct | _ => ex end.
Proof. reflexivity. Qed.

Print Assumptions serves_last_success.
Print Assumptions hot_builds_afresh.
