(* C02, structure clause: simulation relations between two runs of the HTML scanner that
   differ only in source positions and in an "old" part of the state that the scanner never
   inspects again (tokens already emitted, the prefix of the raw tag text, attributes already
   committed, of which only the names are ever read again). *)
From Coq Require Import List NArith Bool Lia Arith.
From Tpl Require Import Html.Scan Proofs.ScanConcat Proofs.PrintScanDefs Proofs.PrintScanSteps.
Import ListNotations.
Open Scope N_scope.
Local Arguments adv : simpl never.

(* position-free content of a token: everything except t_start/t_end and the attribute positions *)
Definition tok_np (t : token) : tkind * str * str * list (str * option str) :=
  (t_kind t, t_value t, t_name t, map ashape (t_attrs t)).

(* the tag sub-states that follow the tag name *)
Definition attr_st (st : tstate) : bool :=
  match st with TSpace | TAttrName | TAttrValue => true | _ => false end.

Definition with_attrs (g : tagst) (l : list attr) : tagst :=
  mkTag (g_state g) (g_buf g) (g_start g) l (g_name g) (g_comment g) (g_cdata g)
        (g_aname g) (g_anstart g) (g_anend g) (g_aval g) (g_avstart g) (g_avend g).

(* two buffers: fixed (possibly different) old parts followed by the same new part *)
Inductive buf_rel (o1 o2 : str) : str -> str -> Prop :=
| BR n : buf_rel o1 o2 (o1 ++ n) (o2 ++ n).
(* two reversed attribute lists: new attributes equal up to positions, in front of fixed old parts *)
Inductive attrs_rel (o1 o2 : list attr) : list attr -> list attr -> Prop :=
| AR n1 n2 : map ashape n1 = map ashape n2 -> attrs_rel o1 o2 (n1 ++ o1) (n2 ++ o2).

Lemma buf_rel_0 o1 o2 : buf_rel o1 o2 o1 o2.
Proof. pose proof (BR o1 o2 []) as H. rewrite !app_nil_r in H. exact H. Qed.
Lemma buf_rel_snoc o1 o2 b1 b2 (r : rune) : buf_rel o1 o2 b1 b2 -> buf_rel o1 o2 (b1 ++ [r]) (b2 ++ [r]).
Proof. intros [n]. rewrite <- !app_assoc. constructor. Qed.
Lemma buf_rel_nil b1 b2 : buf_rel [] [] b1 b2 -> b1 = b2.
Proof. intros [n]. reflexivity. Qed.
Lemma buf_rel_refl b : buf_rel [] [] b b.
Proof. exact (BR [] [] b). Qed.

Lemma attrs_rel_0 o1 o2 : attrs_rel o1 o2 o1 o2.
Proof. exact (AR o1 o2 [] [] eq_refl). Qed.
Lemma attrs_rel_cons o1 o2 a1 a2 l1 l2 :
  ashape a1 = ashape a2 -> attrs_rel o1 o2 l1 l2 -> attrs_rel o1 o2 (a1 :: l1) (a2 :: l2).
Proof.
  intros Hs [n1 n2 Hn]. change (attrs_rel o1 o2 ((a1 :: n1) ++ o1) ((a2 :: n2) ++ o2)).
  constructor. cbn [map]. rewrite Hs, Hn. reflexivity.
Qed.
Lemma attrs_rel_nil l1 l2 : attrs_rel [] [] l1 l2 -> map ashape l1 = map ashape l2.
Proof. intros [n1 n2 Hn]. rewrite !app_nil_r. exact Hn. Qed.

Lemma has_attr_names n l : has_attr n l = existsb (fun m => str_eqb m n) (map a_name l).
Proof. unfold has_attr. induction l as [|a l IH]; cbn [existsb map]; [reflexivity|]. rewrite IH. reflexivity. Qed.
Lemma ashape_names l1 l2 : map ashape l1 = map ashape l2 -> map a_name l1 = map a_name l2.
Proof. intros H. apply (f_equal (map fst)) in H. rewrite !map_map in H. exact H. Qed.
Lemma attrs_rel_has o1 o2 l1 l2 n :
  map a_name o1 = map a_name o2 -> attrs_rel o1 o2 l1 l2 -> has_attr n l1 = has_attr n l2.
Proof.
  intros Ho [n1 n2 Hn]. rewrite !has_attr_names, !map_app, Ho, (ashape_names _ _ Hn). reflexivity.
Qed.

Section Sim.
Variable is_space : rune -> bool.
Variable to_lower : rune -> rune.
Variable text_tags : list str.
Variable attr_prefix : str.
Variable compile : attr -> bool.
(* ASSUMPTION: the attribute compiler does not look at source positions *)
Hypothesis Hcomp : forall a1 a2, a_name a1 = a_name a2 -> a_value a1 = a_value a2 -> compile a1 = compile a2.

Notation dispatch := (Scan.dispatch is_space to_lower text_tags attr_prefix compile).
Notation step := (Scan.step is_space to_lower text_tags attr_prefix compile).
Notation run := (@fold_left sstate rune (Scan.step is_space to_lower text_tags attr_prefix compile)).
Notation tag_step := (Scan.tag_step is_space attr_prefix compile).
Notation text_step := (Scan.text_step is_space to_lower).
Notation add_attr := (Scan.add_attr attr_prefix compile).
Notation fix_else := (Scan.fix_else attr_prefix).
Notation new_text := (Scan.new_text to_lower text_tags).
Notation raw_tag_of_last := (Scan.raw_tag_of_last to_lower text_tags).

Lemma run_app (a b : str) s : run (a ++ b) s = run b (run a s).
Proof. apply fold_left_app. Qed.

Lemma run_err (src : str) : forall toks p e, exists p', run src (mkS toks p (MErr e)) = mkS toks p' (MErr e).
Proof.
  induction src as [|r src IH]; intros toks p e; cbn [fold_left].
  - exists p. reflexivity.
  - apply IH.
Qed.

Lemma fix_else_shape a1 a2 : a_name a1 = a_name a2 -> a_value a1 = a_value a2 ->
  a_name (fix_else a1) = a_name (fix_else a2) /\ a_value (fix_else a1) = a_value (fix_else a2).
Proof.
  intros Hn Hv. unfold Scan.fix_else. rewrite Hv, Hn.
  destruct (a_value a2) as [v|] eqn:Ev; [rewrite Hv, Ev; auto|].
  destruct (str_eqb (a_name a2) _); cbn [a_name a_value]; auto. rewrite Hv, Ev. auto.
Qed.

(* ================= tag mode, with frames ================= *)
Section Rel.
Variables (oa1 oa2 : list attr) (ob1 ob2 : str).
Hypothesis Hnames : map a_name oa1 = map a_name oa2.

Inductive g_rel : tagst -> tagst -> Prop :=
| GR st b1 b2 gs1 gs2 at1 at2 name cm cd an ans1 ans2 ane1 ane2 av1 av2 avs1 avs2 ave1 ave2 :
    buf_rel ob1 ob2 b1 b2 -> attrs_rel oa1 oa2 at1 at2 -> (st = TAttrValue -> av1 = av2) ->
    g_rel (mkTag st b1 gs1 at1 name cm cd an ans1 ane1 av1 avs1 ave1)
          (mkTag st b2 gs2 at2 name cm cd an ans2 ane2 av2 avs2 ave2).

Inductive tok_rel : token -> token -> Prop :=
| TKR_tag b1 b2 st1 st2 e1 e2 name a1 a2 :
    buf_rel ob1 ob2 b1 b2 -> attrs_rel oa1 oa2 a1 a2 ->
    tok_rel (mkTok KTag b1 st1 e1 name (rev a1)) (mkTok KTag b2 st2 e2 name (rev a2))
| TKR_other k v st1 st2 e1 e2 : k <> KTag -> tok_rel (mkTok k v st1 e1 [] []) (mkTok k v st2 e2 [] []).

(* related results of one tag_step from related states; g0 = the left state before the step *)
Inductive tres_rel (toks1 toks2 : list token) (g0 : tagst) : tres -> tres -> Prop :=
| TRR_tag g1 g2 u : g_rel g1 g2 ->
    (attr_st (g_state g0) = true -> attr_st (g_state g1) = true /\ g_name g1 = g_name g0) ->
    tres_rel toks1 toks2 g0 (TR toks1 (MTag g1) u) (TR toks2 (MTag g2) u)
| TRR_err e : tres_rel toks1 toks2 g0 (TR toks1 (MErr e) false) (TR toks2 (MErr e) false)
| TRR_emit t1 t2 : tok_rel t1 t2 ->
    (attr_st (g_state g0) = true -> t_kind t1 = KTag /\ t_name t1 = g_name g0) ->
    tres_rel toks1 toks2 g0 (TR (t1 :: toks1) MInit false) (TR (t2 :: toks2) MInit false).

Lemma add_attr_sim b a1 a2 G1 G2 :
  a_name a1 = a_name a2 -> a_value a1 = a_value a2 -> g_rel G1 G2 ->
  (exists e, add_attr b a1 G1 = inr e /\ add_attr b a2 G2 = inr e) \/
  (exists a1' a2', ashape a1' = ashape a2' /\
     add_attr b a1 G1 = inl (with_attrs G1 (a1' :: g_attrs G1)) /\
     add_attr b a2 G2 = inl (with_attrs G2 (a2' :: g_attrs G2))).
Proof.
  intros Hn Hv HG.
  destruct HG as [st b1 b2 gs1 gs2 at1 at2 name cm cd an ans1 ans2 ane1 ane2 av1 av2 avs1 avs2 ave1 ave2 Hb Ha Hav].
  unfold Scan.add_attr. cbv zeta. tag_cbn.
  destruct (fix_else_shape a1 a2 Hn Hv) as [Hn' Hv'].
  rewrite (Hcomp _ _ Hn' Hv'), Hn', (attrs_rel_has _ _ _ _ (a_name (fix_else a2)) Hnames Ha).
  destruct (b && negb (compile (fix_else a2))); [left; eauto|].
  destruct (has_attr (a_name (fix_else a2)) at2); [left; eauto|].
  right. exists (fix_else a1), (fix_else a2). split; [|split; reflexivity].
  unfold ashape. rewrite Hn', Hv'. reflexivity.
Qed.

Lemma finish_or_sim toks1 toks2 g0 G1 G2 r p1 q1 :
  g_rel G1 G2 ->
  (attr_st (g_state g0) = true -> attr_st (g_state G1) = true /\ g_name G1 = g_name g0) ->
  tres_rel toks1 toks2 g0 (finish_or toks1 G1 r p1) (finish_or toks2 G2 r q1).
Proof.
  intros HG Hast. unfold finish_or, emit_tag. destruct (N.eqb r cGT).
  - destruct HG as [st b1 b2 gs1 gs2 at1 at2 name cm cd an ans1 ans2 ane1 ane2 av1 av2 avs1 avs2 ave1 ave2 Hb Ha Hav].
    tag_cbn. apply TRR_emit; [constructor; assumption|].
    intros H. destruct (Hast H) as [_ Hn]. cbn [t_kind t_name]. tag_cbn_in Hn. auto.
  - apply TRR_tag; assumption.
Qed.

Ltac ifs := repeat match goal with |- context [if ?b then _ else _] => destruct b end.
Ltac ast :=
  let H := fresh "Hast" in
  intros H; cbn [attr_st g_state] in H; try discriminate H;
  cbn [attr_st g_state g_name t_kind t_name]; split; reflexivity.

Lemma tag_step_sim toks1 toks2 g1 g2 r p0 p1 q0 q1 :
  g_rel g1 g2 ->
  tres_rel toks1 toks2 g1 (tag_step toks1 g1 r p0 p1) (tag_step toks2 g2 r q0 q1).
Proof.
  intros HG.
  destruct HG as [st b1 b2 gs1 gs2 at1 at2 name cm cd an ans1 ans2 ane1 ane2 av1 av2 avs1 avs2 ave1 ave2 Hb Ha Hav].
  pose proof (buf_rel_snoc _ _ _ _ r Hb) as Hb'.
  assert (Hgr : forall st' (bb1 bb2 : str) aa1 aa2 (nm cm' cd' an' : str) x1 x2 y1 y2 (v1 v2 : str) z1 z2 w1 w2,
            buf_rel ob1 ob2 bb1 bb2 -> attrs_rel oa1 oa2 aa1 aa2 -> (st' = TAttrValue -> v1 = v2) ->
            g_rel (mkTag st' bb1 gs1 aa1 nm cm' cd' an' x1 y1 v1 z1 w1) (mkTag st' bb2 gs2 aa2 nm cm' cd' an' x2 y2 v2 z2 w2))
    by (intros; constructor; assumption).
  unfold Scan.tag_step. tag_cbn.
  destruct st; tag_cbn.
  - (* TName *)
    ifs;
    first [ apply TRR_tag; [apply Hgr; [assumption|assumption|discriminate]|ast]
          | apply finish_or_sim; [apply Hgr; [assumption|assumption|discriminate]|ast] ].
  - (* TCData *)
    ifs.
    + apply TRR_emit; [apply TKR_other; discriminate|ast].
    + apply TRR_tag; [apply Hgr; [assumption|assumption|discriminate]|ast].
  - (* TComment *)
    ifs;
    first [ apply TRR_err
          | apply TRR_emit; [apply TKR_other; discriminate|ast]
          | apply TRR_tag; [apply Hgr; [assumption|assumption|discriminate]|ast] ].
  - (* TSpace *)
    ifs;
    first [ apply TRR_tag; [apply Hgr; [assumption|assumption|discriminate]|ast]
          | apply finish_or_sim; [apply Hgr; [assumption|assumption|discriminate]|ast] ].
  - (* TAttrName *)
    ifs;
    try (match goal with |- tres_rel _ _ _ ?L ?R =>
           match L with context [Scan.add_attr _ _ ?b ?a1 ?G1] =>
           match R with context [Scan.add_attr _ _ _ ?a2 ?G2] =>
             let HG' := fresh "HG'" in
             assert (HG' : g_rel G1 G2) by (apply Hgr; [assumption|assumption|discriminate]);
             destruct (add_attr_sim b a1 a2 G1 G2 eq_refl eq_refl HG') as [(e & E1 & E2)|(a1' & a2' & Hs & E1 & E2)];
             rewrite E1, E2; unfold with_attrs; tag_cbn
           end end end);
    first [ apply TRR_err
          | apply TRR_tag; [apply Hgr; [assumption|first [assumption|apply attrs_rel_cons; assumption]|first [discriminate|intros; reflexivity]]|ast]
          | apply finish_or_sim; [apply Hgr; [assumption|first [assumption|apply attrs_rel_cons; assumption]|first [discriminate|intros; reflexivity]]|ast] ].
  - (* TAttrValue *)
    pose proof (Hav eq_refl) as Eav. subst av2.
    destruct av1 as [|f t]; ifs;
    try (match goal with |- tres_rel _ _ _ ?L ?R =>
           match L with context [Scan.add_attr _ _ ?b ?a1 ?G1] =>
           match R with context [Scan.add_attr _ _ _ ?a2 ?G2] =>
             let HG' := fresh "HG'" in
             assert (HG' : g_rel G1 G2) by (apply Hgr; [assumption|assumption|reflexivity]);
             destruct (add_attr_sim b a1 a2 G1 G2 eq_refl eq_refl HG') as [(e & E1 & E2)|(a1' & a2' & Hs & E1 & E2)];
             rewrite E1, E2; unfold with_attrs; tag_cbn
           end end end);
    first [ apply TRR_err
          | apply TRR_tag; [apply Hgr; [assumption|first [assumption|apply attrs_rel_cons; assumption]|first [discriminate|intros; reflexivity]]|ast]
          | apply finish_or_sim; [apply Hgr; [assumption|first [assumption|apply attrs_rel_cons; assumption]|first [discriminate|intros; reflexivity]]|ast] ].
Qed.

(* ---------- phase A: inside a tag, after its name; the token lists are fixed ---------- *)
Inductive simA (toks1 toks2 : list token) (name : str) : sstate -> sstate -> Prop :=
| SA p1 p2 g1 g2 : g_rel g1 g2 -> attr_st (g_state g1) = true -> g_name g1 = name ->
    simA toks1 toks2 name (mkS toks1 p1 (MTag g1)) (mkS toks2 p2 (MTag g2)).

Definition resA (toks1 toks2 : list token) (name : str) (s1 s2 : sstate) : Prop :=
  simA toks1 toks2 name s1 s2 \/
  (exists e p1 p2, s1 = mkS toks1 p1 (MErr e) /\ s2 = mkS toks2 p2 (MErr e)) \/
  (exists T1 T2 p1 p2, tok_rel T1 T2 /\ t_kind T1 = KTag /\ t_name T1 = name /\
     s1 = mkS (T1 :: toks1) p1 MInit /\ s2 = mkS (T2 :: toks2) p2 MInit).

Lemma tresA toks1 toks2 name g0 R1 R2 (pa pb : pos) :
  tres_rel toks1 toks2 g0 R1 R2 -> attr_st (g_state g0) = true -> g_name g0 = name ->
  match R1, R2 with
  | TR t1 m1 false, TR t2 m2 false => resA toks1 toks2 name (mkS t1 pa m1) (mkS t2 pb m2)
  | TR t1 m1 true, TR t2 m2 true => t1 = toks1 /\ t2 = toks2 /\
      exists g1 g2, m1 = MTag g1 /\ m2 = MTag g2 /\ g_rel g1 g2 /\ attr_st (g_state g1) = true /\ g_name g1 = name
  | _, _ => False
  end.
Proof.
  intros T Hst Hn. destruct T as [g1' g2' u HG' Hast | e | t1 t2 Ht Hast].
  - destruct (Hast Hst) as [Hst' Hn']. destruct u.
    + split; [reflexivity|split; [reflexivity|]]. exists g1', g2'. rewrite Hn' . auto.
    + left. constructor; [assumption|assumption|congruence].
  - right; left. eauto.
  - destruct (Hast Hst) as [Hk Hn']. right; right. exists t1, t2, pa, pb. rewrite Hn'. auto.
Qed.

Lemma stepA toks1 toks2 name s1 s2 r : simA toks1 toks2 name s1 s2 ->
  resA toks1 toks2 name (step s1 r) (step s2 r).
Proof.
  intros [p1 p2 g1 g2 HG Hst Hn]. unfold Scan.step. cbn [s_toks s_pos s_mode Scan.dispatch].
  pose proof (tresA toks1 toks2 name g1 _ _ (adv p1 r) (adv p2 r)
                (tag_step_sim toks1 toks2 g1 g2 r p1 (adv p1 r) p2 (adv p2 r) HG) Hst Hn) as T.
  destruct (tag_step toks1 g1 r p1 (adv p1 r)) as [t1 m1 u1].
  destruct (tag_step toks2 g2 r p2 (adv p2 r)) as [t2 m2 u2].
  destruct u1, u2; try contradiction; [|exact T].
  destruct T as (-> & -> & g1' & g2' & -> & -> & HG' & Hst' & Hn').
  cbn [Scan.dispatch].
  pose proof (tresA toks1 toks2 name g1' _ _ (adv p1 r) (adv p2 r)
                (tag_step_sim toks1 toks2 g1' g2' r p1 (adv p1 r) p2 (adv p2 r) HG') Hst' Hn') as T.
  pose proof (attrname_no_unread is_space attr_prefix compile toks1 g1' r p1 (adv p1 r)) as NU.
  destruct (tag_step toks1 g1' r p1 (adv p1 r)) as [t1 m1 u1].
  destruct (tag_step toks2 g2' r p2 (adv p2 r)) as [t2 m2 u2].
  destruct u1, u2; try contradiction; [|exact T].
  (* a second unread is impossible, but harmless: the flag is ignored *)
  destruct T as (-> & -> & g1'' & g2'' & -> & -> & HG'' & Hst'' & Hn'').
  left. constructor; assumption.
Qed.

Lemma runA toks1 toks2 name (src : str) : forall s1 s2, simA toks1 toks2 name s1 s2 ->
  (exists e, finish (run src s1) = inr e /\ finish (run src s2) = inr e) \/
  (exists (pre rest : str) T1 T2 p1 p2, src = pre ++ rest /\ tok_rel T1 T2 /\ t_kind T1 = KTag /\ t_name T1 = name /\
     run pre s1 = mkS (T1 :: toks1) p1 MInit /\ run pre s2 = mkS (T2 :: toks2) p2 MInit).
Proof.
  induction src as [|r src IH]; intros s1 s2 H.
  - left. destruct H. exists EUnexpectedEOF. split; reflexivity.
  - cbn [fold_left]. destruct (stepA _ _ _ _ _ r H) as [H'|[(e & p1 & p2 & E1 & E2)|(T1 & T2 & p1 & p2 & Ht & Hk & Hn & E1 & E2)]].
    + destruct (IH _ _ H') as [L|(pre & rest & T1 & T2 & p1 & p2 & E & Ht & Hk & Hn & E1 & E2)]; [left; exact L|].
      right. exists (r :: pre), rest, T1, T2, p1, p2. cbn [fold_left app]. rewrite E. auto 10.
    + left. rewrite E1, E2. destruct (run_err src toks1 p1 e) as [p1' ->]. destruct (run_err src toks2 p2 e) as [p2' ->].
      exists e. split; reflexivity.
    + right. exists [r], src, T1, T2, p1, p2. cbn [fold_left app]. auto 10.
Qed.
End Rel.

(* ================= phase B: whole states equal up to positions, above fixed old token lists ================= *)
Inductive x_rel : textst -> textst -> Prop :=
| XR buf st1 st2 raw close rawname e1 e2 tagbuf namebuf :
    x_rel (mkText buf st1 raw close rawname e1 tagbuf namebuf) (mkText buf st2 raw close rawname e2 tagbuf namebuf).

Inductive mode_rel : mode -> mode -> Prop :=
| MR_init : mode_rel MInit MInit
| MR_text x1 x2 : x_rel x1 x2 -> mode_rel (MText x1) (MText x2)
| MR_tag g1 g2 : g_rel [] [] [] [] g1 g2 -> mode_rel (MTag g1) (MTag g2)
| MR_err e : mode_rel (MErr e) (MErr e).

Inductive res_rel (toks1 toks2 : list token) : tres -> tres -> Prop :=
| RR n1 n2 m1 m2 u : map tok_np n1 = map tok_np n2 -> mode_rel m1 m2 -> (m1 = MInit -> n1 <> []) ->
    res_rel toks1 toks2 (TR (n1 ++ toks1) m1 u) (TR (n2 ++ toks2) m2 u).

Lemma tok_rel_np t1 t2 : tok_rel [] [] [] [] t1 t2 -> tok_np t1 = tok_np t2.
Proof.
  intros [b1 b2 st1 st2 e1 e2 name a1 a2 Hb Ha|k v st1 st2 e1 e2 _]; unfold tok_np; cbn [t_kind t_value t_name t_attrs]; [|reflexivity].
  rewrite (buf_rel_nil _ _ Hb), !map_rev, (attrs_rel_nil _ _ Ha). reflexivity.
Qed.

Lemma tres_res toks1 toks2 g0 R1 R2 : tres_rel [] [] [] [] toks1 toks2 g0 R1 R2 -> res_rel toks1 toks2 R1 R2.
Proof.
  intros [g1 g2 u HG _|e|t1 t2 Ht _].
  - apply (RR toks1 toks2 [] []); [reflexivity|constructor; exact HG|discriminate].
  - apply (RR toks1 toks2 [] []); [reflexivity|constructor|discriminate].
  - apply (RR toks1 toks2 [t1] [t2]); [cbn [map]; rewrite (tok_rel_np _ _ Ht); reflexivity|constructor|discriminate].
Qed.

Lemma text_step_sim toks1 toks2 x1 x2 r p0 p1 q0 q1 :
  x_rel x1 x2 -> res_rel toks1 toks2 (text_step toks1 x1 r p0 p1) (text_step toks2 x2 r q0 q1).
Proof.
  intros [buf st1 st2 raw close rawname e1 e2 tagbuf namebuf].
  unfold Scan.text_step. text_cbn.
  assert (L0 : forall x y u, x_rel x y -> res_rel toks1 toks2 (TR toks1 (MText x) u) (TR toks2 (MText y) u)).
  { intros x y u H. apply (RR toks1 toks2 [] []); [reflexivity|constructor; exact H|discriminate]. }
  assert (L1 : forall k v a1 a2 b1 b2 n, res_rel toks1 toks2 (TR (mkTok k v a1 b1 n [] :: toks1) MInit false)
                                                  (TR (mkTok k v a2 b2 n [] :: toks2) MInit false)).
  { intros. apply (RR toks1 toks2 [_] [_]); [reflexivity|constructor|discriminate]. }
  assert (L2 : forall k v a1 a2 b1 b2 n k' v' a1' a2' b1' b2' n',
             res_rel toks1 toks2 (TR (mkTok k v a1 b1 n [] :: mkTok k' v' a1' b1' n' [] :: toks1) MInit false)
                                 (TR (mkTok k v a2 b2 n [] :: mkTok k' v' a2' b2' n' [] :: toks2) MInit false)).
  { intros. apply (RR toks1 toks2 [_;_] [_;_]); [reflexivity|constructor|discriminate]. }
  destruct raw.
  - destruct (N.eqb r cLT) eqn:Elt; text_cbn; [|destruct tagbuf as [|t0 tb]]; cbn [negb app];
    repeat match goal with |- context [if ?b then _ else _] => destruct b end;
    repeat match goal with |- context [match ?l with [] => _ | _ :: _ => _ end] => destruct l end;
    first [apply L0; constructor | apply L1 | apply L2].
  - destruct (N.eqb r cLT).
    + apply (RR toks1 toks2 [_] [_]); [reflexivity| |discriminate].
      constructor. unfold new_tag. constructor; [apply buf_rel_refl|apply attrs_rel_0|reflexivity].
    + apply L0; constructor.
Qed.

Lemma new_text_sim toks1 toks2 p q : raw_tag_of_last toks1 = raw_tag_of_last toks2 ->
  x_rel (new_text toks1 p) (new_text toks2 q).
Proof. intros H. unfold Scan.new_text. rewrite H. destruct (raw_tag_of_last toks2); constructor. Qed.

Lemma dispatch_sim toks1 toks2 m1 m2 r p0 p1 q0 q1 :
  mode_rel m1 m2 -> (m1 = MInit -> raw_tag_of_last toks1 = raw_tag_of_last toks2) ->
  res_rel toks1 toks2 (dispatch toks1 m1 r p0 p1) (dispatch toks2 m2 r q0 q1).
Proof.
  intros [|x1 x2 Hx|g1 g2 HG|e] Hraw; cbn [Scan.dispatch].
  - pose proof (Hraw eq_refl) as E. rewrite E.
    pose proof (text_step_sim toks1 toks2 _ _ r p0 p1 q0 q1 (new_text_sim toks1 toks2 p0 q0 E)) as T.
    destruct (raw_tag_of_last toks2); [exact T|].
    destruct (N.eqb r cLT); [|exact T].
    apply (RR toks1 toks2 [] []); [reflexivity| |discriminate].
    constructor. unfold new_tag. constructor; [apply buf_rel_refl|apply attrs_rel_0|reflexivity].
  - apply text_step_sim; exact Hx.
  - eapply tres_res. apply tag_step_sim; [reflexivity|exact HG].
  - apply (RR toks1 toks2 [] []); [reflexivity|constructor|discriminate].
Qed.

Lemma np_kind_name t1 t2 : tok_np t1 = tok_np t2 -> t_kind t1 = t_kind t2 /\ t_name t1 = t_name t2.
Proof. unfold tok_np. intros H. split; congruence. Qed.

Lemma raw_head (n1 n2 a b : list token) : n1 <> [] -> map tok_np n1 = map tok_np n2 ->
  raw_tag_of_last (n1 ++ a) = raw_tag_of_last (n2 ++ b).
Proof.
  destruct n1 as [|t1 n1]; [congruence|]. destruct n2 as [|t2 n2]; [discriminate|]. intros _ H.
  cbn [map] in H. assert (H0 : tok_np t1 = tok_np t2) by congruence. apply np_kind_name in H0 as [Hk Hn].
  cbn [app]. unfold Scan.raw_tag_of_last. rewrite Hk, Hn. reflexivity.
Qed.

Inductive simB (o1 o2 : list token) : sstate -> sstate -> Prop :=
| SB n1 n2 p1 p2 m1 m2 : map tok_np n1 = map tok_np n2 -> mode_rel m1 m2 ->
    (m1 = MInit -> raw_tag_of_last (n1 ++ o1) = raw_tag_of_last (n2 ++ o2)) ->
    simB o1 o2 (mkS (n1 ++ o1) p1 m1) (mkS (n2 ++ o2) p2 m2).

Lemma simB_push o1 o2 n1 n2 k1 k2 p1 p2 m1 m2 :
  map tok_np n1 = map tok_np n2 -> map tok_np k1 = map tok_np k2 -> mode_rel m1 m2 ->
  (m1 = MInit -> k1 <> []) ->
  simB o1 o2 (mkS (k1 ++ n1 ++ o1) p1 m1) (mkS (k2 ++ n2 ++ o2) p2 m2).
Proof.
  intros Hn Hk Hm Hi. rewrite !app_assoc. constructor; [rewrite !map_app, Hn, Hk; reflexivity|exact Hm|].
  intros E. rewrite <- !app_assoc. apply raw_head; [exact (Hi E)|exact Hk].
Qed.

Lemma stepB o1 o2 s1 s2 r : simB o1 o2 s1 s2 -> simB o1 o2 (step s1 r) (step s2 r).
Proof.
  intros [n1 n2 p1 p2 m1 m2 Hn Hm Hraw]. unfold Scan.step. cbn [s_toks s_pos s_mode].
  pose proof (dispatch_sim (n1 ++ o1) (n2 ++ o2) m1 m2 r p1 (adv p1 r) p2 (adv p2 r) Hm Hraw) as D.
  remember (dispatch (n1 ++ o1) m1 r p1 (adv p1 r)) as R1 eqn:E1.
  remember (dispatch (n2 ++ o2) m2 r p2 (adv p2 r)) as R2 eqn:E2.
  destruct D as [k1 k2 m1' m2' u Hk Hm' Hi]. clear E1 E2.
  destruct u.
  - assert (Hraw' : m1' = MInit -> raw_tag_of_last (k1 ++ n1 ++ o1) = raw_tag_of_last (k2 ++ n2 ++ o2)).
    { intros E. apply raw_head; [exact (Hi E)|exact Hk]. }
    pose proof (dispatch_sim (k1 ++ n1 ++ o1) (k2 ++ n2 ++ o2) m1' m2' r p1 (adv p1 r) p2 (adv p2 r) Hm' Hraw') as D.
    remember (dispatch (k1 ++ n1 ++ o1) m1' r p1 (adv p1 r)) as R1 eqn:E1.
    remember (dispatch (k2 ++ n2 ++ o2) m2' r p2 (adv p2 r)) as R2 eqn:E2.
    destruct D as [j1 j2 m1'' m2'' u Hj Hm'' Hi']. clear E1 E2.
    rewrite !(app_assoc j1), !(app_assoc j2). rewrite !(app_assoc _ n1), !(app_assoc _ n2).
    constructor; [rewrite !map_app, Hn, Hk, Hj; reflexivity|exact Hm''|].
    intros E. rewrite <- !app_assoc. apply raw_head; [exact (Hi' E)|exact Hj].
  - apply simB_push; assumption.
Qed.

Lemma runB o1 o2 (src : str) : forall s1 s2, simB o1 o2 s1 s2 -> simB o1 o2 (run src s1) (run src s2).
Proof.
  induction src as [|r src IH]; intros s1 s2 H; cbn [fold_left]; [exact H|].
  apply IH. apply stepB. exact H.
Qed.

Lemma finishB o1 o2 s1 s2 : simB o1 o2 s1 s2 ->
  (exists e, finish s1 = inr e /\ finish s2 = inr e) \/
  (exists r1 r2, finish s1 = inl (rev o1 ++ r1) /\ finish s2 = inl (rev o2 ++ r2) /\ map tok_np r1 = map tok_np r2).
Proof.
  intros [n1 n2 p1 p2 m1 m2 Hn Hm _]. unfold finish. cbn [s_mode s_toks s_pos].
  destruct Hm as [|x1 x2 Hx|g1 g2 HG|e].
  - right. exists (rev n1), (rev n2). rewrite !rev_app_distr, !map_rev, Hn. auto.
  - right. destruct Hx as [buf st1 st2 raw close rawname e1 e2 tagbuf namebuf]. text_cbn.
    exists (rev n1 ++ [mkTok KText buf st1 p1 [] []]), (rev n2 ++ [mkTok KText buf st2 p2 [] []]).
    cbn [rev]. rewrite !rev_app_distr, <- !app_assoc. split; [reflexivity|split; [reflexivity|]].
    rewrite !map_app, !map_rev, Hn. reflexivity.
  - left. exists EUnexpectedEOF. auto.
  - left. exists e. auto.
Qed.

End Sim.
