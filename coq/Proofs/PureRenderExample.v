(* C16 non-vacuity: <p :if="${x}">A</p> <p :else="true">B</p> built by hand (prefix ":"). *)
From Coq Require Import List NArith ZArith Bool Lia.
From Tpl Require Import Html.Exec Html.Manager Proofs.PureRenderBase Proofs.PureRender.
Import ListNotations.
Open Scope N_scope.

Definition x_space (r : rune) : bool := N.eqb r 32 || N.eqb r 10.
Definition x_lower (r : rune) : rune := r.
Definition x_letter (r : rune) : bool := (97 <=? r) && (r <=? 122).
Definition x_digit (_ : rune) : bool := false.
Definition x_methods (_ : N) (_ : bool) : list (str * N) := [].
Definition x_call (_ : N) (_ : list value) : fres := FPanic.
Definition x_mgr : manager := mkM [116; 58] [58] [] (SData (VMap [])).

Definition p0 : pos := (1, 1).
Definition x_text (s : str) : token := mkTok KText s p0 p0 [] [].
Definition x_tag (name : str) (attrs : list attr) : token := mkTok KTag [] p0 p0 name attrs.
Definition a_if : attr := mkAttr [58; 105; 102] p0 p0 (Some [34; 36; 123; 120; 125; 34]) p0 p0.          (* :if="${x}" *)
Definition a_else : attr := mkAttr [58; 101; 108; 115; 101] p0 p0 (Some [34; 116; 114; 117; 101; 34]) p0 p0. (* :else="true" *)
Definition a_class : attr := mkAttr [99] p0 p0 (Some [34; 107; 34]) p0 p0.                                 (* c="k" *)
Definition x_end : token := mkTok KTag [60; 47; 112; 62] p0 p0 [47; 112] [].                                                          (* </p> *)

Definition n1 : node := Node 1 (Some (x_tag [112] [a_class; a_if])) [Node 4 (Some (x_text [65])) [] None] (Some x_end).
Definition n2 : node := Node 2 (Some (x_text [32])) [] None.
Definition n3 : node := Node 3 (Some (x_tag [112] [a_else])) [Node 5 (Some (x_text [66])) [] None] (Some x_end).
Definition x_ctx : list node := [n1; n2; n3].
Definition x_tp : template := mkT x_ctx x_ctx.
Definition x_cid (id : N) : bool := N.eqb id 1 || N.eqb id 3.

Lemma x_tree_ok : tree_ok x_mgr x_cid x_ctx.
Proof.
  split.
  - cbn. repeat constructor; cbn; intuition discriminate.
  - repeat constructor; cbn; try discriminate; try (vm_compute; reflexivity); intuition discriminate.
Qed.
Lemma x_closed : closed x_mgr x_ctx (tp_children x_tp).
Proof.
  split; [apply incl_refl|]. cbn [tp_children x_tp x_ctx closedf]. repeat split.
  - intros _ p Hp. vm_compute in Hp. discriminate.
  - intros H. vm_compute in H. discriminate.
  - intros _ p Hp _. vm_compute in Hp. inversion Hp; subst p. cbn. auto.
Qed.

(* three tables a template object may carry: fresh, after a run with x = false, after x = true *)
Definition tb0 : tbl := [].
Definition tb1 : tbl := [(3, false); (1, false)].
Definition tb2 : tbl := [(3, true); (1, true)].
Lemma x_wf0 : wf x_cid tb0. Proof. apply wf_nil. Qed.
Lemma x_wf1 : wf x_cid tb1.
Proof. intros id b. unfold tb1, tbl_get. cbn [find fst snd]. destruct (N.eqb 3 id) eqn:E3; [apply N.eqb_eq in E3; subst; reflexivity|].
  destruct (N.eqb 1 id) eqn:E1; [apply N.eqb_eq in E1; subst; reflexivity|discriminate]. Qed.
Lemma x_wf2 : wf x_cid tb2.
Proof. intros id b. unfold tb2, tbl_get. cbn [find fst snd]. destruct (N.eqb 3 id) eqn:E3; [apply N.eqb_eq in E3; subst; reflexivity|].
  destruct (N.eqb 1 id) eqn:E1; [apply N.eqb_eq in E1; subst; reflexivity|discriminate]. Qed.

Definition x_run (d : value) (t : tbl) : R :=
  execute x_space x_lower x_letter x_digit x_methods x_call x_mgr 10 x_tp d t (mkR [] None).
Definition d_true : value := VMap [([120], VBool true)].
Definition d_false : value := VMap [([120], VBool false)].
Definition out_res (a : R) : str * rres := fst (fst a).

Eval vm_compute in (out_res (x_run d_true tb0), out_res (x_run d_true tb1), out_res (x_run d_true tb2)).
Eval vm_compute in (out_res (x_run d_false tb0), out_res (x_run d_false tb1), out_res (x_run d_false tb2)).
Eval vm_compute in (tbl_of (x_run d_true tb1), tbl_of (x_run d_false tb2)).

Example x_same_true : out_res (x_run d_true tb0) = out_res (x_run d_true tb1) /\ out_res (x_run d_true tb0) = out_res (x_run d_true tb2).
Proof. vm_compute. split; reflexivity. Qed.
Example x_same_false : out_res (x_run d_false tb0) = out_res (x_run d_false tb1) /\ out_res (x_run d_false tb0) = out_res (x_run d_false tb2).
Proof. vm_compute. split; reflexivity. Qed.
(* the outputs differ with the data (so the equalities above are not trivial) *)
Example x_data_matters : out_res (x_run d_true tb0) <> out_res (x_run d_false tb0).
Proof. vm_compute. discriminate. Qed.

(* the same facts as instances of the theorem *)
Example x_by_theorem : forall d fuel, out_res (execute x_space x_lower x_letter x_digit x_methods x_call x_mgr fuel x_tp d tb1 (mkR [] None))
                                    = out_res (execute x_space x_lower x_letter x_digit x_methods x_call x_mgr fuel x_tp d tb2 (mkR [] None)).
Proof.
  intros d fuel.
  destruct (execute x_space x_lower x_letter x_digit x_methods x_call x_mgr fuel x_tp d tb1 (mkR [] None)) as [[[o1 r1] t1'] s1] eqn:E1.
  destruct (execute x_space x_lower x_letter x_digit x_methods x_call x_mgr fuel x_tp d tb2 (mkR [] None)) as [[[o2 r2] t2'] s2] eqn:E2.
  destruct (execute_state_independent _ _ _ _ _ _ _ x_cid fuel x_tp d tb1 tb2 _ x_tree_ok x_closed x_wf1 x_wf2 _ _ _ _ _ _ _ _ E1 E2)
    as (-> & -> & _). reflexivity.
Qed.

(* the hypothesis wf is needed: an entry for an element WITHOUT condition directive (here id 1 of
   <p>A</p> text <p :else>) changes the result -- such an entry is never produced by executions *)
Definition m1 : node := Node 1 (Some (x_tag [112] [a_class])) [Node 4 (Some (x_text [65])) [] None] (Some x_end).
Definition y_tp : template := mkT [m1; n2; n3] [m1; n2; n3].
Definition y_run (t : tbl) : R :=
  execute x_space x_lower x_letter x_digit x_methods x_call x_mgr 10 y_tp d_true t (mkR [] None).
Eval vm_compute in (out_res (y_run []), out_res (y_run [(1, false)])).
Example wf_needed : out_res (y_run []) <> out_res (y_run [(1, false)]).
Proof. vm_compute. discriminate. Qed.
