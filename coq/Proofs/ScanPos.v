(* positions_exact: tokens of a successful scan start at (1,1), abut, and each ends at
   pos_after of its start over its own value. *)
From Coq Require Import List NArith Bool Lia Arith.
From Tpl Require Import Proofs.ScanSpec Proofs.ScanConcat.
Import ListNotations.
Open Scope N_scope.

Lemma pos_after_app p a b : pos_after p (a ++ b) = pos_after (pos_after p a) b.
Proof. unfold pos_after. apply fold_left_app. Qed.

Lemma pos_after_snoc p a r : pos_after p (a ++ [r]) = adv (pos_after p a) r.
Proof. rewrite pos_after_app. reflexivity. Qed.

Lemma chain_app p l1 l2 :
  chain p l1 -> chain (pos_after p (concat (map t_value l1))) l2 -> chain p (l1 ++ l2).
Proof.
  revert p; induction l1 as [|t l1 IH]; intros p H1 H2.
  - exact H2.
  - cbn [chain app] in *. destruct H1 as (Hs & He & Hr).
    split; [exact Hs|]. split; [exact He|].
    apply IH; [exact Hr|]. cbn [map concat] in H2. rewrite pos_after_app, <- He in H2. exact H2.
Qed.

Definition P0 : pos := (1, 1).

(* emitting token t after the (reversed) tokens toks, when everything up to and including t spells c' *)
Lemma chain_emit toks t c' :
  chain P0 (rev toks) -> t_start t = pos_after P0 (vals toks) ->
  t_end t = pos_after P0 c' -> vals toks ++ t_value t = c' ->
  chain P0 (rev (t :: toks)).
Proof.
  intros Hch Hs He Hv. cbn [rev]. apply chain_app; [exact Hch|].
  fold (vals toks). cbn [chain]. split; [exact Hs|]. split; [|exact I].
  rewrite He, <- Hv, pos_after_app, <- Hs. reflexivity.
Qed.

Section P.
Variable is_space : rune -> bool.
Variable to_lower : rune -> rune.
Variable text_tags : list str.
Variable attr_prefix : str.
Variable compile : attr -> bool.

Notation dispatch := (Scan.dispatch is_space to_lower text_tags attr_prefix compile).
Notation step := (Scan.step is_space to_lower text_tags attr_prefix compile).
Notation tag_step := (Scan.tag_step is_space attr_prefix compile).
Notation text_step := (Scan.text_step is_space to_lower).
Notation scan := (Scan.scan is_space to_lower text_tags attr_prefix compile).
Notation add_attr := (Scan.add_attr attr_prefix compile).
Notation new_text := (Scan.new_text to_lower text_tags).

Lemma new_text_start toks p0 : x_start (new_text toks p0) = p0.
Proof. unfold Scan.new_text. destruct (raw_tag_of_last _ _ _); text_cbn; reflexivity. Qed.

(* ---------- the invariant: c is the source consumed so far ---------- *)

Definition raw_ok (x : textst) : Prop :=
  x_raw x = true ->
  exists pre, x_buf x = pre ++ x_tagbuf x /\
              (x_tagbuf x <> [] -> x_end x = pos_after (x_start x) pre).

Definition pinv (toks : list token) (m : mode) (c : str) : Prop :=
  chain P0 (rev toks) /\
  match m with
  | MInit => vals toks = c
  | MText x => vals toks ++ x_buf x = c /\ x_start x = pos_after P0 (vals toks) /\ raw_ok x
  | MTag g => vals toks ++ g_buf g = c /\ g_start g = pos_after P0 (vals toks) /\ tag_ok g
  | MErr _ => True
  end.

Definition rinv (res : tres) (c : str) (r : rune) : Prop :=
  match res with
  | TR toks m false => pinv toks m (c ++ [r])
  | TR toks m true => exists g, m = MTag g /\ g_state g = TAttrName /\ pinv toks m c
  end.

Lemma finish_or_inv toks g r p1 c :
  chain P0 (rev toks) -> vals toks ++ g_buf g = c ++ [r] ->
  g_start g = pos_after P0 (vals toks) -> p1 = pos_after P0 (c ++ [r]) ->
  N.eqb r cGT = true \/ tag_ok g ->
  rinv (finish_or toks g r p1) c r.
Proof.
  intros Hch H Hs Hp1 Hok. unfold finish_or, emit_tag.
  destruct (N.eqb r cGT) eqn:Egt; cbn [rinv]; unfold pinv.
  - split; [|rewrite vals_cons; cbn [t_value]; exact H].
    apply (chain_emit _ _ (c ++ [r])); cbn [t_start t_end t_value]; assumption.
  - destruct Hok as [Hok|Hok]; [discriminate|]. repeat split; assumption.
Qed.

Lemma tag_step_inv toks g r p0 p1 c :
  chain P0 (rev toks) -> vals toks ++ g_buf g = c ->
  g_start g = pos_after P0 (vals toks) -> tag_ok g ->
  p1 = pos_after P0 (c ++ [r]) ->
  rinv (tag_step toks g r p0 p1) c r.
Proof.
  intros Hch H Hs Hok Hp1. unfold Scan.tag_step.
  assert (Hb : vals toks ++ (g_buf g ++ [r]) = c ++ [r]) by (rewrite app_assoc, H; reflexivity).
  unfold tag_ok in Hok.
  destruct (g_state g) eqn:Est; tag_cbn.
  - (* TName *)
    destruct Hok as (Hb0 & Hc0 & Hd0).
    destruct (N.eqb r cGT) eqn:Egt.
    + apply finish_or_inv; tag_cbn; [exact Hch|exact Hb|exact Hs|exact Hp1|]. left; exact Egt.
    + destruct (is_space r) eqn:Esp.
      * cbn [rinv]; unfold pinv. tag_cbn. repeat split; assumption.
      * apply finish_or_inv; tag_cbn; [exact Hch|exact Hb|exact Hs|exact Hp1|]. right.
        unfold tag_ok; tag_cbn.
        destruct (str_eqb (g_name g ++ [r]) sBANGDD) eqn:E1.
        { apply str_eqb_eq in E1. rewrite Hb0, Hc0, app_nil_r. cbn [app]. rewrite E1. reflexivity. }
        destruct (str_eqb (g_name g ++ [r]) sCDATA) eqn:E2.
        { apply str_eqb_eq in E2. rewrite Hb0, Hd0, app_nil_r. cbn [app]. rewrite E2. reflexivity. }
        rewrite Hb0. auto.
  - (* TCData *)
    assert (Hv : vals toks ++ (cLT :: sCDATA) ++ g_cdata g ++ [r] = c ++ [r]).
    { rewrite <- Hb, Hok. rewrite <- !app_assoc. reflexivity. }
    destruct (suffixb sRRGT (g_cdata g ++ [r])) eqn:E; cbn [rinv]; unfold pinv.
    + split; [|rewrite vals_cons; cbn [t_value]; exact Hv].
      apply (chain_emit _ _ (c ++ [r])); cbn [t_start t_end t_value]; tag_cbn; assumption.
    + tag_cbn. repeat split; try assumption. unfold tag_ok; tag_cbn. rewrite Hok, <- !app_assoc. reflexivity.
  - (* TComment *)
    set (ct := g_comment g ++ [r]).
    destruct (suffixb sDDGT ct) eqn:E.
    + destruct (prefixb [cGT] _ || prefixb [cDASH; cGT] _) eqn:Ebad; [exact (conj Hch I)|].
      destruct (containsb sLTBDD _ || containsb sDDGT _ || containsb sDDBGT _) eqn:Ebad2; [exact (conj Hch I)|].
      destruct (suffixb sLTBD _) eqn:Ebad3; [exact (conj Hch I)|].
      assert (Hv : vals toks ++ sLTBDD ++ drop_last 3 ct ++ sDDGT = c ++ [r]).
      { apply suffixb_spec in E. change (length sDDGT) with 3%nat in E.
        rewrite <- Hb, Hok. f_equal. rewrite <- app_assoc. f_equal. symmetry; exact E. }
      cbn [rinv]; unfold pinv. split; [|rewrite vals_cons; cbn [t_value]; exact Hv].
      apply (chain_emit _ _ (c ++ [r])); cbn [t_start t_end t_value]; tag_cbn; assumption.
    + destruct (prefixb [cGT] _ || prefixb [cDASH; cGT] _) eqn:Ebad; [exact (conj Hch I)|].
      cbn [rinv]; unfold pinv. tag_cbn. repeat split; try assumption. unfold tag_ok; tag_cbn.
      rewrite Hok. unfold ct. rewrite <- app_assoc. reflexivity.
  - (* TSpace *)
    destruct (N.eqb r cGT) eqn:Egt.
    + apply finish_or_inv; tag_cbn; [exact Hch|exact Hb|exact Hs|exact Hp1|]. left; exact Egt.
    + destruct (is_space r) eqn:Esp; cbn [rinv]; unfold pinv.
      * tag_cbn. repeat split; assumption.
      * eexists; split; [reflexivity|]. tag_cbn. split; [reflexivity|].
        repeat split; assumption.
  - (* TAttrName *)
    destruct (is_space r) eqn:Esp; [cbn [rinv]; unfold pinv; tag_cbn; repeat split; assumption|].
    destruct (N.eqb r cGT) eqn:Egt.
    + destruct (add_attr _ _ _) as [g'|e] eqn:Ea; [|exact (conj Hch I)].
      apply add_attr_buf in Ea as (Eb & Es & Est'). tag_cbn_in Eb. tag_cbn_in Es. tag_cbn_in Est'.
      apply finish_or_inv; [exact Hch|rewrite Eb; exact Hb|rewrite Est'; exact Hs|exact Hp1|left; exact Egt].
    + destruct (N.eqb r cEQ) eqn:Eeq; [cbn [rinv]; unfold pinv; tag_cbn; repeat split; assumption|].
      destruct (ends_sp (g_aname g)) eqn:Eends.
      * destruct (add_attr _ _ _) as [g'|e] eqn:Ea; [|exact (conj Hch I)].
        apply add_attr_buf in Ea as (Eb & Es & Est'). tag_cbn_in Eb. tag_cbn_in Es. tag_cbn_in Est'.
        cbn [rinv]; unfold pinv. tag_cbn. rewrite Eb, Est'. repeat split; assumption.
      * cbn [rinv]; unfold pinv. tag_cbn. repeat split; assumption.
  - (* TAttrValue *)
    destruct (g_aval g) as [|f av] eqn:Eav.
    + destruct (is_space r) eqn:Esp; [cbn [rinv]; unfold pinv; tag_cbn; repeat split; assumption|].
      destruct (N.eqb r cGT) eqn:Egt.
      * destruct (add_attr _ _ _) as [g'|e] eqn:Ea; [|exact (conj Hch I)].
        apply add_attr_buf in Ea as (Eb & Es & Est'). tag_cbn_in Eb. tag_cbn_in Es. tag_cbn_in Est'.
        apply finish_or_inv; [exact Hch|rewrite Eb; exact Hb|rewrite Est'; exact Hs|exact Hp1|left; exact Egt].
      * cbn [rinv]; unfold pinv. tag_cbn. repeat split; assumption.
    + destruct ((N.eqb f cDQ || N.eqb f cSQ) && N.eqb f r
                || negb (N.eqb f cDQ || N.eqb f cSQ) && (is_space r || N.eqb r cGT)) eqn:Efin.
      * destruct (add_attr _ _ _) as [g'|e] eqn:Ea; [|exact (conj Hch I)].
        apply add_attr_buf in Ea as (Eb & Es & Est'). tag_cbn_in Eb. tag_cbn_in Es. tag_cbn_in Est'.
        apply finish_or_inv; tag_cbn;
          [exact Hch|rewrite Eb; exact Hb|rewrite Est'; exact Hs|exact Hp1|right; exact I].
      * destruct (N.eqb f cDQ || N.eqb f cSQ) eqn:Eq.
        -- cbn [rinv]; unfold pinv. tag_cbn. repeat split; assumption.
        -- apply finish_or_inv; tag_cbn; [exact Hch|exact Hb|exact Hs|exact Hp1|]. right; exact I.
Qed.

Lemma text_step_inv toks x r p0 p1 c :
  chain P0 (rev toks) -> vals toks ++ x_buf x = c ->
  x_start x = pos_after P0 (vals toks) -> raw_ok x ->
  p0 = pos_after P0 c -> p1 = pos_after P0 (c ++ [r]) ->
  rinv (text_step toks x r p0 p1) c r.
Proof.
  intros Hch H Hs Hraw Hp0 Hp1. unfold Scan.text_step.
  assert (Hb : vals toks ++ (x_buf x ++ [r]) = c ++ [r]) by (rewrite app_assoc, H; reflexivity).
  assert (Hp0' : p0 = pos_after (x_start x) (x_buf x)).
  { rewrite Hp0, <- H, pos_after_app, <- Hs. reflexivity. }
  unfold raw_ok in Hraw.
  destruct (x_raw x) eqn:Er.
  - destruct (Hraw eq_refl) as (pre & Hpre & Hend).
    destruct (N.eqb r cLT) eqn:Elt.
    + (* '<' resets: tagbuf=[], closing=true, x_end = p0 *)
      cbn [negb]. text_cbn.
      destruct (prefixb _ _) eqn:Ecl.
      * destruct (N.eqb r cGT) eqn:Egt.
        { apply N.eqb_eq in Elt, Egt. subst r. discriminate. }
        cbn [rinv]; unfold pinv. text_cbn. repeat split; try assumption.
        intros _. text_cbn. exists (x_buf x). split; [reflexivity|]. intros _. exact Hp0'.
      * cbn [rinv]; unfold pinv. text_cbn. repeat split; try assumption.
        intros _. text_cbn. exists (x_buf x ++ [r]). split; [rewrite app_nil_r; reflexivity|].
        intros Hne; contradiction Hne; reflexivity.
    + destruct (x_tagbuf x) as [|t0 tb] eqn:Etb.
      * (* not closing *)
        cbn [negb rinv]; unfold pinv. text_cbn. repeat split; try assumption.
        intros _. text_cbn. exists (x_buf x ++ [r]). split; [rewrite app_nil_r; reflexivity|].
        intros Hne; contradiction Hne; reflexivity.
      * cbn [negb].
        assert (Hend' : x_end x = pos_after (x_start x) pre) by (apply Hend; discriminate).
        destruct (prefixb _ _) eqn:Ecl.
        -- destruct (N.eqb r cGT) eqn:Egt.
           ++ rewrite Hpre, firstn_pre_app.
              destruct pre as [|pr0 pre'].
              { (* empty text before the close tag: only the close-tag token, starting at x_start *)
                cbn [rinv]; unfold pinv. cbn [pos_after fold_left] in Hend'.
                assert (Hv : vals toks ++ ((t0 :: tb) ++ [r]) = c ++ [r]).
                { rewrite <- Hb, Hpre. reflexivity. }
                split; [|rewrite vals_cons; cbn [t_value]; exact Hv].
                apply (chain_emit _ _ (c ++ [r])); cbn [t_start t_end t_value];
                  [exact Hch|rewrite Hend'; exact Hs|exact Hp1|exact Hv]. }
              cbn [rinv]; unfold pinv. set (pre := pr0 :: pre') in *.
              set (t1 := mkTok KText pre (x_start x) (x_end x) [] []).
              set (t2 := mkTok KTag ((t0 :: tb) ++ [r]) (x_end x) p1 (cSLASH :: x_rawname x) []).
              assert (Hc1 : chain P0 (rev (t1 :: toks))).
              { apply (chain_emit _ _ (vals toks ++ pre)); cbn [t1 t_start t_end t_value];
                  [exact Hch|exact Hs| |reflexivity].
                rewrite Hend', pos_after_app, <- Hs. reflexivity. }
              assert (Hv : vals (t1 :: toks) ++ t_value t2 = c ++ [r]).
              { rewrite vals_cons. cbn [t1 t2 t_value]. rewrite <- Hb, Hpre, <- !app_assoc. reflexivity. }
              split; [|rewrite vals_cons; exact Hv].
              apply (chain_emit _ _ (c ++ [r])); [exact Hc1| |exact Hp1|exact Hv].
              rewrite vals_cons. cbn [t1 t2 t_start t_value].
              rewrite Hend', pos_after_app, <- Hs. reflexivity.
           ++ cbn [rinv]; unfold pinv. text_cbn. repeat split; try assumption.
              intros _. text_cbn. exists pre. split; [rewrite Hpre, <- app_assoc; reflexivity|].
              intros _. exact Hend'.
        -- cbn [rinv]; unfold pinv. text_cbn. repeat split; try assumption.
           intros _. text_cbn. exists (x_buf x ++ [r]). split; [rewrite app_nil_r; reflexivity|].
           intros Hne; contradiction Hne; reflexivity.
  - destruct (N.eqb r cLT) eqn:Elt.
    + apply N.eqb_eq in Elt; subst r.
      cbn [rinv]; unfold pinv. rewrite vals_cons. cbn [t_value]. split; [|split; [|split]].
      * apply (chain_emit _ _ c); cbn [t_start t_end t_value]; assumption.
      * unfold new_tag; tag_cbn. rewrite <- Hb, <- app_assoc. reflexivity.
      * unfold new_tag; tag_cbn. rewrite H. exact Hp0.
      * unfold tag_ok, new_tag; tag_cbn. auto.
    + cbn [rinv]; unfold pinv. text_cbn. repeat split; try assumption.
      intros Hf; text_cbn_in Hf; discriminate.
Qed.

Lemma dispatch_inv toks m r p0 p1 c :
  pinv toks m c -> p0 = pos_after P0 c -> p1 = pos_after P0 (c ++ [r]) ->
  rinv (dispatch toks m r p0 p1) c r.
Proof.
  intros [Hch H] Hp0 Hp1. destruct m as [|x|g|e]; cbn [Scan.dispatch].
  - assert (Htext : rinv (text_step toks (new_text toks p0) r p0 p1) c r).
    { destruct (new_text_buf to_lower text_tags toks p0) as [E1 E2].
      apply text_step_inv; try assumption.
      * rewrite E1, app_nil_r; exact H.
      * rewrite new_text_start, H. exact Hp0.
      * intros _. exists []. rewrite E1, E2. split; [reflexivity|].
        intros Hne; contradiction Hne; reflexivity. }
    destruct (raw_tag_of_last _ _ _) as [n|]; [exact Htext|].
    destruct (N.eqb r cLT) eqn:Elt; [|exact Htext].
    apply N.eqb_eq in Elt; subst r. cbn [rinv]; unfold pinv. unfold new_tag; tag_cbn.
    split; [exact Hch|]. split; [rewrite H; reflexivity|]. split; [rewrite H; exact Hp0|].
    unfold tag_ok; tag_cbn; auto.
  - destruct H as (H1 & H2 & H3). apply text_step_inv; assumption.
  - destruct H as (H1 & H2 & H3). apply tag_step_inv; assumption.
  - exact (conj Hch I).
Qed.

Definition sinv (s : sstate) (c : str) : Prop :=
  s_pos s = pos_after P0 c /\ pinv (s_toks s) (s_mode s) c.

Lemma step_inv s r c : sinv s c -> sinv (step s r) (c ++ [r]).
Proof.
  intros [Hp H]. unfold Scan.step.
  assert (Hp1 : adv (s_pos s) r = pos_after P0 (c ++ [r])) by (rewrite pos_after_snoc, Hp; reflexivity).
  pose proof (dispatch_inv (s_toks s) (s_mode s) r (s_pos s) (adv (s_pos s) r) c H Hp Hp1) as D.
  destruct (dispatch _ _ _ _ _) as [toks m [|]] eqn:E1; cbn [rinv] in D.
  - destruct D as (g & -> & Hst & M).
    pose proof (dispatch_inv toks (MTag g) r (s_pos s) (adv (s_pos s) r) c M Hp Hp1) as D2.
    destruct (dispatch toks (MTag g) _ _ _) as [toks' m' u] eqn:E2.
    cbn [Scan.dispatch] in E2. apply attrname_no_unread in E2; [|exact Hst]. subst u.
    split; cbn [s_pos s_toks s_mode]; [exact Hp1|exact D2].
  - split; cbn [s_pos s_toks s_mode]; [exact Hp1|exact D].
Qed.

Lemma fold_inv src : forall s c, sinv s c -> sinv (fold_left step src s) (c ++ src).
Proof.
  induction src as [|r src IH]; intros s c H; cbn [fold_left].
  - rewrite app_nil_r; exact H.
  - replace (c ++ r :: src) with ((c ++ [r]) ++ src) by (rewrite <- app_assoc; reflexivity).
    apply IH. apply step_inv; exact H.
Qed.

Lemma init_inv : sinv init [].
Proof. split; [reflexivity|]. split; [exact I|reflexivity]. Qed.

Theorem positions_exact (src : str) (toks : list token) :
  scan src = inl toks -> chain (1,1) toks.
Proof.
  unfold Scan.scan, finish. intros H.
  pose proof (fold_inv src init [] init_inv) as [Fp F]. cbn [app] in Fp, F.
  destruct (s_mode (fold_left step src init)) as [|x|g|e] eqn:Em; cbn [pinv] in F.
  - inversion H; subst toks. exact (proj1 F).
  - inversion H; subst toks. destruct F as (Hch & Hv & Hs & _).
    apply (chain_emit _ _ src); cbn [t_start t_end t_value]; assumption.
  - discriminate.
  - discriminate.
Qed.
End P.

Check (positions_exact : forall (is_space : rune -> bool) (to_lower : rune -> rune) (text_tags : list str)
    (attr_prefix : str) (compile : attr -> bool) (src : str) (toks : list token),
  scan is_space to_lower text_tags attr_prefix compile src = inl toks ->
  chain (1,1) toks).
Print Assumptions positions_exact.
