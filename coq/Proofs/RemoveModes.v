(* C05, clause "the remove modes (all, body, tag, all-but-first) drop exactly the parts they name".

   An element whose ONLY directive attribute is  prefix++"remove"  (any number of plain attributes, not a
   block tag).  For ANY behaviour [exec] of the nested renders and ANY mask:

     remove_all_exec    nothing of the element is written (one Write call with empty data)
     remove_body_exec   open tag (without the directive) and end tag; the children are not rendered
     remove_tag_exec    the children only
     remove_abf_exec    open tag, the children selected by abf_children (= abf_spec), end tag
     remove_other_exec  any other value (also: no value): as if the attribute were absent
     mode_cases         the five cases are exhaustive
     open_tag_no_directive / remove_exec_cases   (A6) the printed open tag is print_tag of a token
                        without prefixed attribute, whatever the value of the directive
     abf_children_spec  abf_children = abf_spec, an independent description of the selection

   The attribute loop is proved once for an element with a SINGLE directive attribute  prefix++d
   (single_dir, single_attrs_run, single_body_gen); Proofs/Readback.v reuses it for d = "text".

   and the corollaries for directive-free shaped children with exec := exec_node fuel
   (remove_*_plain).

   MODEL FACTS worth noting (see the report):
   - a PLAIN attribute named "remove" of such an element is NOT printed (processTagStart skips a
     plain attribute when the tag also has  prefix++name ): open_tag filters it out ([kept]);
   - the plain attributes are printed in source order whatever their names (filter_np_sorted: the
     sort never permutes two plain attributes), although SortedAttr may move a plain attribute
     named like a weighted directive in front of the remove directive;
   - all-but-first without a tag child still renders the LAST child when it is blank text;
     the leading blank is the FIRST child only (not the blank that precedes the first tag). *)
From Tpl Require Import Html.Exec Proofs.ExecSpec Proofs.ChainProps Proofs.ChainWith Proofs.SortProps Proofs.RenderPlain.
From Coq Require Import Lia.
Open Scope N_scope.

(* ------------------------------------------------------------------------------------------ *)
(* Tag.SortedAttr never permutes two plain attributes (no side condition)                      *)
(* ------------------------------------------------------------------------------------------ *)
Definition npref (p : str) (b : attr) : bool := negb (prefixb p (a_name b)).

Lemma npref_true : forall p b, prefixb p (a_name b) = false -> npref p b = true.
Proof. intros p b H. unfold npref. rewrite H. reflexivity. Qed.
Lemma npref_false : forall p b, prefixb p (a_name b) = true -> npref p b = false.
Proof. intros p b H. unfold npref. rewrite H. reflexivity. Qed.

Lemma filter_np_insert_plain : forall p x acc, prefixb p (a_name x) = false ->
  filter (npref p) (insert_sorted p x acc) = x :: filter (npref p) acc.
Proof.
  intros p x acc Hx. induction acc as [|b r IH]; cbn [insert_sorted].
  - cbn [filter]. rewrite (npref_true p x Hx). reflexivity.
  - destruct (attr_less p (a_name x) (a_name b)) eqn:E.
    + assert (Hb : prefixb p (a_name b) = true).
      { destruct (prefixb p (a_name b)) eqn:Eb; [reflexivity|].
        rewrite (attr_less_plain p _ _ Hx Eb) in E. discriminate E. }
      cbn [filter]. rewrite (npref_false p b Hb). exact IH.
    + cbn [filter]. rewrite (npref_true p x Hx). reflexivity.
Qed.

Lemma filter_np_insert_pref : forall p x acc, prefixb p (a_name x) = true ->
  filter (npref p) (insert_sorted p x acc) = filter (npref p) acc.
Proof.
  intros p x acc Hx. induction acc as [|b r IH]; cbn [insert_sorted].
  - cbn [filter]. rewrite (npref_false p x Hx). reflexivity.
  - destruct (attr_less p (a_name x) (a_name b)).
    + cbn [filter]. rewrite IH. reflexivity.
    + cbn [filter]. rewrite (npref_false p x Hx). reflexivity.
Qed.

Lemma filter_np_fold : forall p l acc,
  filter (npref p) (fold_left (fun acc a => insert_sorted p a acc) l acc)
  = rev (filter (npref p) l) ++ filter (npref p) acc.
Proof.
  intros p l. induction l as [|x l IH]; intros acc; cbn [fold_left]; [reflexivity|].
  rewrite IH. cbn [filter]. destruct (prefixb p (a_name x)) eqn:Ex.
  - rewrite (filter_np_insert_pref p x acc Ex), (npref_false p x Ex). reflexivity.
  - rewrite (filter_np_insert_plain p x acc Ex), (npref_true p x Ex). cbn [rev]. rewrite <- app_assoc. reflexivity.
Qed.

Theorem filter_np_sorted : forall p l, filter (npref p) (sorted_attrs p l) = filter (npref p) l.
Proof.
  intros p l. unfold sorted_attrs. rewrite filter_rev_c, filter_np_fold. cbn [filter].
  rewrite app_nil_r. apply rev_involutive.
Qed.

(* ---------- small list facts ---------- *)
Lemma filter_nil_forall : forall (A : Type) (f : A -> bool) l, filter f l = [] -> Forall (fun b => f b = false) l.
Proof.
  intros A f l. induction l as [|x l IH]; intros H; [constructor|]. cbn [filter] in H.
  destruct (f x) eqn:E; [discriminate H|]. constructor; [exact E|apply IH; exact H].
Qed.

Lemma filter_np_id : forall p l, Forall (fun b => prefixb p (a_name b) = false) l -> filter (npref p) l = l.
Proof.
  intros p l H. induction H as [|b l Hb _ IH]; [reflexivity|]. cbn [filter].
  rewrite (npref_true p b Hb), IH. reflexivity.
Qed.

Lemma filter_filter_and : forall (A : Type) (f g : A -> bool) l, filter g (filter f l) = filter (fun a => f a && g a) l.
Proof.
  intros A f g l. induction l as [|x l IH]; [reflexivity|]. cbn [filter].
  destruct (f x); cbn [andb filter]; [destruct (g x)|]; rewrite IH; reflexivity.
Qed.

Lemma filter_ext_in_c : forall (A : Type) (f g : A -> bool) l, (forall a, In a l -> f a = g a) -> filter f l = filter g l.
Proof.
  intros A f g l. induction l as [|x l IH]; intros H; [reflexivity|]. cbn [filter].
  rewrite (H x (or_introl eq_refl)). rewrite IH; [reflexivity|]. intros a Ha. apply H. right. exact Ha.
Qed.

Lemma existsb_seqb_false : forall x l, ~ In x l -> existsb (str_eqb x) l = false.
Proof.
  intros x l H. destruct (existsb (str_eqb x) l) eqn:E; [|reflexivity].
  apply existsb_exists in E. destruct E as [y [Hin Hy]]. apply seqb_eq in Hy. subst y. contradiction.
Qed.

(* ---------- sequencing ---------- *)
Lemma seq2_nil_l : forall t st (K : tbl -> rst -> R), seq2 ([], ROk, t, st) K = K t st.
Proof. intros t st K. unfold seq2. destruct (K t st) as [[[o r] t'] s']. reflexivity. Qed.

Lemma seq2_nil_r : forall (a : R) (K : tbl -> rst -> R), (forall t st, K t st = ([], ROk, t, st)) -> seq2 a K = a.
Proof.
  intros [[[o r] t] st] K HK. destruct r; cbn [seq2]; try reflexivity. rewrite HK, app_nil_r. reflexivity.
Qed.

(* ------------------------------------------------------------------------------------------ *)
(* all-but-first: an independent specification of the selection                                *)
(* ------------------------------------------------------------------------------------------ *)
Section Abf.
Variable is_space : rune -> bool.
Notation blank := (is_blank_text is_space).

(* the node, when it is blank text *)
Definition blank1 (o : option node) : list node :=
  match o with Some c => if blank c then [c] else [] | None => [] end.
Definition last_error (l : list node) : option node := hd_error (rev l).
(* split at the first tag node: (what precedes it, the tag node, what follows it) *)
Fixpoint split_tag (l : list node) : option (list node * node * list node) :=
  match l with
  | [] => None
  | c :: r =>
    if is_tag_node c then Some ([], c, r)
    else match split_tag r with Some (mid, tg, rest) => Some (c :: mid, tg, rest) | None => None end
  end.
(* the first child if it is blank text and a tag child follows; the first tag child; the last child if
   it is blank text.  Without tag child: only the last child, if it is blank text. *)
Definition abf_spec (ch : list node) : list node :=
  match split_tag ch with
  | Some (mid, tg, rest) => blank1 (hd_error mid) ++ [tg] ++ blank1 (last_error rest)
  | None => blank1 (last_error ch)
  end.

Lemma split_tag_some : forall l mid tg rest, split_tag l = Some (mid, tg, rest) ->
  l = mid ++ tg :: rest /\ forallb (fun c => negb (is_tag_node c)) mid = true /\ is_tag_node tg = true.
Proof.
  induction l as [|c r IH]; intros mid tg rest H; cbn [split_tag] in H; [discriminate H|].
  destruct (is_tag_node c) eqn:Ec.
  - inversion H; subst. cbn. auto.
  - destruct (split_tag r) as [[[m g] rs]|] eqn:Er; [|discriminate H]. inversion H; subst.
    destruct (IH _ _ _ eq_refl) as (H1 & H2 & H3). subst r. cbn [forallb app]. rewrite Ec, H2. auto.
Qed.

Lemma split_tag_none : forall l, split_tag l = None -> forallb (fun c => negb (is_tag_node c)) l = true.
Proof.
  induction l as [|c r IH]; intros H; [reflexivity|]. cbn [split_tag] in H.
  destruct (is_tag_node c) eqn:Ec; [discriminate H|].
  destruct (split_tag r) as [[[m g] rs]|] eqn:Er; [discriminate H|]. cbn [forallb]. rewrite Ec, IH; reflexivity.
Qed.

Lemma split_tag_app : forall mid tg rest, forallb (fun c => negb (is_tag_node c)) mid = true -> is_tag_node tg = true ->
  split_tag (mid ++ tg :: rest) = Some (mid, tg, rest).
Proof.
  induction mid as [|c m IH]; intros tg rest Hm Ht; cbn [app split_tag].
  - rewrite Ht. reflexivity.
  - cbn [forallb] in Hm. apply andb_true_iff in Hm. destruct Hm as [Hc Hm]. apply negb_true_iff in Hc.
    rewrite Hc, (IH tg rest Hm Ht). reflexivity.
Qed.

Lemma find_no_tag : forall l, forallb (fun c => negb (is_tag_node c)) l = true -> find is_tag_node l = None.
Proof.
  induction l as [|c r IH]; intros H; [reflexivity|]. cbn [forallb] in H. apply andb_true_iff in H.
  destruct H as [Hc Hr]. apply negb_true_iff in Hc. cbn [find]. rewrite Hc. apply IH. exact Hr.
Qed.

Lemma find_first_tag : forall mid tg rest, forallb (fun c => negb (is_tag_node c)) mid = true -> is_tag_node tg = true ->
  find is_tag_node (mid ++ tg :: rest) = Some tg.
Proof.
  induction mid as [|c m IH]; intros tg rest Hm Ht; cbn [app find].
  - rewrite Ht. reflexivity.
  - cbn [forallb] in Hm. apply andb_true_iff in Hm. destruct Hm as [Hc Hm]. apply negb_true_iff in Hc.
    rewrite Hc. apply IH; assumption.
Qed.

Lemma tag_not_blank : forall c, is_tag_node c = true -> blank c = false.
Proof.
  intros c H. unfold is_tag_node in H. unfold is_blank_text.
  destruct (n_tok c) as [tk|]; [|reflexivity]. destruct (t_kind tk); try discriminate H; reflexivity.
Qed.

(* the last element of  x :: l  read through rev *)
Lemma rev_tail_hd : forall (x : node) l, l <> [] -> hd_error (rev (x :: l)) = hd_error (rev l).
Proof.
  intros x l Hl. cbn [rev]. destruct (rev l) as [|y r] eqn:E.
  - exfalso. apply Hl. apply (f_equal (@rev node)) in E. rewrite rev_involutive in E. exact E.
  - reflexivity.
Qed.

Lemma last_error_app_cons : forall (a : list node) x l, l <> [] -> last_error (a ++ x :: l) = last_error l.
Proof.
  intros a x l Hl. unfold last_error. rewrite rev_app_distr. cbn [rev]. rewrite <- app_assoc.
  destruct (rev l) as [|y r] eqn:E; [|reflexivity].
  exfalso. apply Hl. apply (f_equal (@rev node)) in E. rewrite rev_involutive in E. exact E.
Qed.

Lemma last_error_app_last : forall (a : list node) x, last_error (a ++ [x]) = Some x.
Proof. intros a x. unfold last_error. rewrite rev_app_distr. reflexivity. Qed.

Lemma abf_after : forall ch,
  (match rev ch with cl :: _ => if blank cl then [cl] else [] | [] => [] end) = blank1 (last_error ch).
Proof. intros ch. unfold blank1, last_error. destruct (rev ch) as [|cl r]; reflexivity. Qed.

Theorem abf_children_spec : forall ch, abf_children is_space ch = abf_spec ch.
Proof.
  intros ch. unfold abf_children, abf_spec. cbv zeta. rewrite abf_after.
  destruct (split_tag ch) as [[[mid tg] rest]|] eqn:Es.
  - destruct (split_tag_some _ _ _ _ Es) as (Hch & Hmid & Htg). subst ch.
    rewrite (find_first_tag mid tg rest Hmid Htg).
    assert (Hlast : blank1 (last_error (mid ++ tg :: rest)) = blank1 (last_error rest)).
    { destruct rest as [|x rs].
      - rewrite last_error_app_last. unfold blank1, last_error. cbn [rev hd_error]. rewrite (tag_not_blank tg Htg). reflexivity.
      - rewrite last_error_app_cons by discriminate. reflexivity. }
    rewrite Hlast. f_equal.
    destruct mid as [|b m]; cbn [app hd_error blank1].
    + rewrite Htg. reflexivity.
    + cbn [forallb] in Hmid. apply andb_true_iff in Hmid. destruct Hmid as [Hb _]. rewrite Hb. cbn [andb]. reflexivity.
  - pose proof (split_tag_none ch Es) as Hno. rewrite (find_no_tag ch Hno).
    destruct ch as [|c0 r]; [reflexivity|]. rewrite andb_false_r. reflexivity.
Qed.

(* the typical list shape:  b, things that are not tags, the first tag, anything, e   (b, e blank text) *)
Corollary abf_children_shape : forall b mid tg rest e,
  blank b = true -> blank e = true -> forallb (fun c => negb (is_tag_node c)) mid = true -> is_tag_node tg = true ->
  abf_children is_space (b :: mid ++ tg :: rest ++ [e]) = [b; tg; e].
Proof.
  intros b mid tg rest e Hb He Hmid Htg. rewrite abf_children_spec. unfold abf_spec.
  assert (Hb' : is_tag_node b = false).
  { destruct (is_tag_node b) eqn:E; [|reflexivity]. rewrite (tag_not_blank b E) in Hb. discriminate Hb. }
  change (b :: mid ++ tg :: rest ++ [e]) with ((b :: mid) ++ tg :: rest ++ [e]).
  rewrite split_tag_app; [|cbn [forallb]; rewrite Hb', Hmid; reflexivity|exact Htg].
  rewrite last_error_app_last. cbn [hd_error blank1]. rewrite Hb, He. reflexivity.
Qed.

(* a first tag child that is the first child: no leading blank *)
Corollary abf_children_tag_first : forall tg rest, is_tag_node tg = true ->
  abf_children is_space (tg :: rest) = tg :: blank1 (last_error rest).
Proof.
  intros tg rest Htg. rewrite abf_children_spec. unfold abf_spec. cbn [split_tag]. rewrite Htg. reflexivity.
Qed.

(* no tag child: the last child when it is blank text, nothing else *)
Corollary abf_children_no_tag : forall ch, forallb (fun c => negb (is_tag_node c)) ch = true ->
  abf_children is_space ch = blank1 (last_error ch).
Proof.
  intros ch H. rewrite abf_children_spec. unfold abf_spec.
  destruct (split_tag ch) as [[[mid tg] rest]|] eqn:Es; [|reflexivity].
  destruct (split_tag_some _ _ _ _ Es) as (Hch & _ & Htg). subst ch.
  rewrite forallb_app in H. apply andb_true_iff in H. destruct H as [_ H]. cbn [forallb] in H. rewrite Htg in H. discriminate H.
Qed.
End Abf.

(* ------------------------------------------------------------------------------------------ *)
Section Remove.
Variable is_space : rune -> bool.
Variable to_lower : rune -> rune.
Variable is_letter : rune -> bool.
Variable is_udigit : rune -> bool.
Variable methods : N -> bool -> list (str * N).
Variable call_fn : N -> list value -> fres.
Variable mgr : manager.
Notation pfx := (m_attr_prefix mgr).

(* ---------- the specification side ---------- *)
(* the attributes that are printed next to the single directive d: plain, and not named d *)
Definition kept (d : str) (a : attr) : bool := negb (prefixb pfx (a_name a)) && negb (str_eqb (a_name a) d).
Definition open_buf (d : str) (tok : token) : str := (cLT :: t_name tok) ++ flat_map print_attr (filter (kept d) (t_attrs tok)).
Definition open_tag (d : str) (tok : token) : str := open_buf d tok ++ [cGT].
Definition end_text (n : node) : str := match n_end n with Some e => t_value e | None => [] end.
Definition wr_end (top : bool) (n : node) (t : tbl) (st : rst) : R :=
  match n_end n with Some e => wr top (t_value e) t st | None => ([], ROk, t, st) end.

(* a tag node whose only directive attribute is r = prefix++d; not a block tag *)
Definition single_dir (d : str) (n : node) (tok : token) (r : attr) : Prop :=
  n_tok n = Some tok /\ t_kind tok = KTag /\ a_name r = pfx ++ d /\
  filter (pref pfx) (t_attrs tok) = [r] /\
  str_eqb (block_key to_lower (t_name tok)) (m_tag_prefix mgr ++ d_block) = false.
Definition remove_only : node -> token -> attr -> Prop := single_dir d_remove.
(* d triggers none of the suppression pre-checks of processTagStart *)
Definition inert_dir (d : str) : Prop :=
  forall c, In c ([d_define; d_replace; d_range; d_insert] ++ cond_names) -> str_eqb c d = false.
(* the value is "m" or 'm' *)
Definition is_mode (r : attr) (m : str) : Prop := exists v, a_value r = Some v /\ In v (remove_values m).
Definition other_mode (r : attr) : Prop :=
  forall m, In m [s_all; s_body; s_tag; s_abf] ->
    ~ In (match a_value r with Some v => v | None => [] end) (remove_values m).

(* A6: the printed open tag is the print of a token that carries no prefixed attribute *)
Definition stripped (d : str) (tok : token) : token :=
  mkTok KTag (t_value tok) (t_start tok) (t_end tok) (t_name tok) (filter (kept d) (t_attrs tok)).

Theorem open_tag_no_directive : forall d tok,
  open_tag d tok = print_tag (stripped d tok) /\
  (forall a, In a (t_attrs (stripped d tok)) -> prefixb pfx (a_name a) = false) /\
  (forall a, In a (t_attrs (stripped d tok)) -> In a (t_attrs tok)).
Proof.
  intros d tok. split; [|split].
  - unfold open_tag, open_buf, print_tag, stripped. cbn [t_name t_attrs]. rewrite <- app_assoc. reflexivity.
  - intros a Ha. unfold stripped in Ha. cbn [t_attrs] in Ha. apply filter_In in Ha. destruct Ha as [_ Hk].
    unfold kept in Hk. apply andb_true_iff in Hk. destruct Hk as [Hk _]. apply negb_true_iff in Hk. exact Hk.
  - intros a Ha. unfold stripped in Ha. cbn [t_attrs] in Ha. apply filter_In in Ha. exact (proj1 Ha).
Qed.

Lemma inert_remove : inert_dir d_remove.
Proof. intros c Hc. cbn [app cond_names In] in Hc. unfold cond_names in Hc. cbn [app In] in Hc.
  repeat (destruct Hc as [Hc|Hc]; [subst c; reflexivity|]). contradiction. Qed.
Lemma inert_text : inert_dir d_text.
Proof. intros c Hc. unfold cond_names in Hc. cbn [app In] in Hc.
  repeat (destruct Hc as [Hc|Hc]; [subst c; reflexivity|]). contradiction. Qed.

Lemma add_tagbuf_nil : forall ls, add_tagbuf ls [] = ls.
Proof. intros [sc np ch tb co di re]. unfold add_tagbuf. cbn [l_sc l_np l_child l_tagbuf l_content l_direct l_replace]. rewrite app_nil_r. reflexivity. Qed.
Lemma add_tagbuf_app : forall ls x y, add_tagbuf (add_tagbuf ls x) y = add_tagbuf ls (x ++ y).
Proof. intros ls x y. unfold add_tagbuf. cbn [l_sc l_np l_child l_tagbuf l_content l_direct l_replace]. rewrite app_assoc. reflexivity. Qed.

Section Body.
Variable exec : N -> list node -> node -> scope -> bool -> tbl -> rst -> R.
Notation astep := (attr_step is_space is_letter is_udigit methods call_fn mgr exec).
Notation rattrs := (run_attrs is_space is_letter is_udigit methods call_fn mgr exec).
Notation rchild := (run_child is_space is_letter is_udigit methods call_fn mgr exec).
Notation ebody := (exec_body is_space to_lower is_letter is_udigit methods call_fn mgr exec).
Notation ilstate := (init_lstate to_lower mgr).
Notation elist := (exec_list exec).

(* ---------- the attribute loop over plain attributes, exactly ---------- *)
Definition shown (attrs : list attr) (a : attr) : bool := negb (has_attr_named attrs (pfx ++ a_name a)).
Definition printed (attrs l : list attr) : str := flat_map print_attr (filter (shown attrs) l).

Lemma run_plain_app : forall mask ctx n attrs l1 t st,
  Forall (fun b => prefixb pfx (a_name b) = false) l1 ->
  forall l2 ls, rattrs mask ctx n attrs (l1 ++ l2) ls t st = rattrs mask ctx n attrs l2 (add_tagbuf ls (printed attrs l1)) t st.
Proof.
  intros mask ctx n attrs l1 t st HF. induction HF as [|b l1 Hb HF IH]; intros l2 ls.
  - unfold printed. cbn [filter flat_map app]. rewrite add_tagbuf_nil. reflexivity.
  - cbn [app run_attrs].
    assert (Hstep : astep mask ctx n attrs b ls t st
                    = (inl (if shown attrs b then add_tagbuf ls (print_attr b) else ls), t, st)).
    { unfold attr_step. cbv zeta. unfold prefix. rewrite Hb. unfold shown.
      destruct (has_attr_named attrs (pfx ++ a_name b)); reflexivity. }
    assert (Hown : is_owner mgr mask b = false).
    { unfold is_owner, prefix. rewrite Hb. reflexivity. }
    rewrite Hstep, Hown, IH. unfold printed. cbn [filter].
    destruct (shown attrs b); cbn [flat_map]; [rewrite add_tagbuf_app|]; reflexivity.
Qed.

(* ---------- an element with a single directive d: the attribute loop ---------- *)
Definition ls0 (sc : scope) (buf : str) : lstate := mkL sc false CDefault buf [] [] false.

Lemma sd_unique : forall d n tok r, single_dir d n tok r ->
  forall b, In b (t_attrs tok) -> prefixb pfx (a_name b) = true -> b = r.
Proof.
  intros d n tok r (_ & _ & _ & Hd & _) b Hin Hb.
  assert (H : In b (filter (pref pfx) (t_attrs tok))) by (apply filter_In; split; assumption).
  rewrite Hd in H. destruct H as [H|[]]. symmetry. exact H.
Qed.

Lemma sd_in : forall d n tok r, single_dir d n tok r -> In r (t_attrs tok).
Proof.
  intros d n tok r (_ & _ & _ & Hd & _).
  assert (H : In r (filter (pref pfx) (t_attrs tok))) by (rewrite Hd; left; reflexivity).
  apply filter_In in H. exact (proj1 H).
Qed.

Lemma sd_has_named : forall d n tok r, single_dir d n tok r ->
  forall x, has_attr_named (t_attrs tok) (pfx ++ x) = str_eqb x d.
Proof.
  intros d n tok r Hsd x. pose proof (sd_in d n tok r Hsd) as Hin. pose proof (sd_unique d n tok r Hsd) as Huniq.
  destruct Hsd as (_ & _ & Hr & _).
  destruct (str_eqb x d) eqn:Ex.
  - apply seqb_eq in Ex. subst x. unfold has_attr_named. apply existsb_exists. exists r.
    split; [exact Hin|]. rewrite Hr. apply seqb_refl.
  - destruct (has_attr_named (t_attrs tok) (pfx ++ x)) eqn:E; [|reflexivity].
    unfold has_attr_named in E. apply existsb_exists in E. destruct E as [b [Hb Hn]]. apply seqb_eq in Hn.
    assert (Hbr : b = r) by (apply Huniq; [exact Hb|rewrite Hn; apply prefixb_app]).
    subst b. rewrite Hr in Hn. apply app_inv_head in Hn. subst x. rewrite seqb_refl in Ex. discriminate Ex.
Qed.

Lemma sd_init : forall d n tok r mask sc, single_dir d n tok r -> inert_dir d ->
  ilstate mask tok sc = ls0 sc (cLT :: t_name tok).
Proof.
  intros d n tok r mask sc Hsd Hi. pose proof (sd_has_named d n tok r Hsd) as Hn.
  destruct Hsd as (_ & _ & _ & _ & Hblk).
  unfold init_lstate. cbv zeta. rewrite Hblk. unfold cond_names. cbn [existsb]. unfold has_dir, prefix.
  rewrite !Hn.
  rewrite (Hi d_define), (Hi d_replace), (Hi d_range), (Hi d_insert), (Hi d_if), (Hi d_else_if), (Hi d_elseif),
    (Hi d_elif), (Hi d_else) by (unfold cond_names; cbn [app In]; auto 20).
  reflexivity.
Qed.

Lemma sd_sorted : forall d n tok r, single_dir d n tok r ->
  exists l1 l2, sorted_attrs pfx (t_attrs tok) = l1 ++ r :: l2 /\
    Forall (fun b => prefixb pfx (a_name b) = false) l1 /\ Forall (fun b => prefixb pfx (a_name b) = false) l2.
Proof.
  intros d n tok r (_ & _ & _ & Hd & _).
  assert (Hf : filter (pref pfx) (sorted_attrs pfx (t_attrs tok)) = [r]).
  { rewrite filter_sorted_attrs, Hd. reflexivity. }
  destruct (filter_cons_split _ _ _ _ _ Hf) as [l1 [l2 [Hs [HF1 Hr2]]]].
  exists l1, l2. split; [exact Hs|]. split; [exact HF1|]. exact (filter_nil_forall _ _ _ Hr2).
Qed.

(* the attribute loop of a single_dir element whose directive step is [F] (no failure, not an owner,
   independent of the tag buffer) *)
Lemma single_attrs_run : forall d mask ctx n tok r sc t st (F : lstate -> lstate),
  single_dir d n tok r -> inert_dir d ->
  (forall ls t' st', astep mask ctx n (t_attrs tok) r ls t' st' = (inl (F ls), t', st')) ->
  is_owner mgr mask r = false ->
  (forall ls o, F (add_tagbuf ls o) = add_tagbuf (F ls) o) ->
  rattrs mask ctx n (t_attrs tok) (sorted_attrs pfx (t_attrs tok)) (ilstate mask tok sc) t st
  = (inl (F (ls0 sc (open_buf d tok))), t, st).
Proof.
  intros d mask ctx n tok r sc t st F Hsd Hi Hstep Hown Hcomm.
  destruct (sd_sorted d n tok r Hsd) as [l1 [l2 [Hsort [HF1 HF2]]]].
  pose proof (sd_has_named d n tok r Hsd) as Hnamed.
  rewrite (sd_init d n tok r mask sc Hsd Hi).
  assert (Hr : a_name r = pfx ++ d) by (destruct Hsd as (_ & _ & Hr & _); exact Hr).
  assert (Hrp : prefixb pfx (a_name r) = true) by (rewrite Hr; apply prefixb_app).
  (* the plain attributes, in source order *)
  assert (Hplain : l1 ++ l2 = filter (npref pfx) (t_attrs tok)).
  { rewrite <- (filter_np_sorted pfx (t_attrs tok)), Hsort, filter_app. cbn [filter].
    rewrite (npref_false pfx r Hrp), (filter_np_id pfx l1 HF1), (filter_np_id pfx l2 HF2). reflexivity. }
  assert (Hprinted : printed (t_attrs tok) l1 ++ printed (t_attrs tok) l2 = flat_map print_attr (filter (kept d) (t_attrs tok))).
  { unfold printed. rewrite <- flat_map_app, <- filter_app, Hplain, filter_filter_and. f_equal.
    apply filter_ext_in_c. intros a _. unfold npref, shown, kept. rewrite Hnamed. reflexivity. }
  rewrite Hsort.
  rewrite (run_plain_app mask ctx n (t_attrs tok) l1 t st HF1). cbn [run_attrs].
  rewrite Hstep, Hown.
  rewrite <- (app_nil_r l2) at 1.
  rewrite (run_plain_app mask ctx n (t_attrs tok) l2 t st HF2). cbn [run_attrs].
  rewrite Hcomm, add_tagbuf_app, <- Hcomm, Hprinted. reflexivity.
Qed.

Lemma token_buf_open : forall sc c buf re, token_buf (mkL sc false c buf [] [] re) = buf ++ [cGT].
Proof. reflexivity. Qed.
Lemma token_buf_np : forall sc c buf co re, token_buf (mkL sc true c buf co [] re) = [].
Proof. reflexivity. Qed.

(* exec_body of a single_dir element, in terms of the state after the directive step *)
Lemma single_body_gen : forall d mask ctx n tok r sc top t st (F : lstate -> lstate),
  single_dir d n tok r -> inert_dir d ->
  (forall ls t' st', astep mask ctx n (t_attrs tok) r ls t' st' = (inl (F ls), t', st')) ->
  is_owner mgr mask r = false ->
  (forall ls o, F (add_tagbuf ls o) = add_tagbuf (F ls) o) ->
  ebody mask ctx n sc top t st =
    let ls := F (ls0 sc (open_buf d tok)) in
    seq2 (wr top (token_buf ls) t st) (fun t2 st2 =>
      seq2 (rchild n ls top t2 st2)
           (fun t3 st3 =>
              match n_end n with
              | Some e => if l_np ls then ([], ROk, t3, st3) else wr top (t_value e) t3 st3
              | None => ([], ROk, t3, st3)
              end)).
Proof.
  intros d mask ctx n tok r sc top t st F Hsd Hi Hstep Hown Hcomm.
  pose proof (single_attrs_run d mask ctx n tok r sc t st F Hsd Hi Hstep Hown Hcomm) as Hrun.
  destruct Hsd as (Htok & Hkind & _).
  unfold exec_body. rewrite Htok, Hkind. unfold exec_tag, prefix. rewrite Hrun. reflexivity.
Qed.

(* ---------- the remove step ---------- *)
Lemma attr_step_remove : forall mask ctx n attrs r ls t st, a_name r = pfx ++ d_remove ->
  astep mask ctx n attrs r ls t st = (inl (remove_step r ls), t, st).
Proof.
  intros mask ctx n attrs r ls t st Hr. unfold attr_step. cbv zeta. unfold prefix.
  rewrite Hr, prefixb_app, skipn_app_len. reflexivity.
Qed.

Lemma is_owner_remove : forall mask r, a_name r = pfx ++ d_remove -> is_owner mgr mask r = false.
Proof.
  intros mask r Hr. unfold is_owner. cbv zeta. unfold prefix. rewrite Hr, prefixb_app, skipn_app_len. reflexivity.
Qed.

Lemma remove_step_tagbuf : forall r ls o, remove_step r (add_tagbuf ls o) = add_tagbuf (remove_step r ls) o.
Proof.
  intros r [sc np ch tb co di re] o. unfold remove_step. cbv zeta.
  destruct (existsb (str_eqb match a_value r with Some v => v | None => [] end) (remove_values s_all)); [reflexivity|].
  destruct (existsb (str_eqb match a_value r with Some v => v | None => [] end) (remove_values s_body)); [reflexivity|].
  destruct (existsb (str_eqb match a_value r with Some v => v | None => [] end) (remove_values s_tag)); [reflexivity|].
  destruct (existsb (str_eqb match a_value r with Some v => v | None => [] end) (remove_values s_abf)); [|reflexivity].
  unfold add_tagbuf, set_child. cbn [l_sc l_np l_child l_tagbuf l_content l_direct l_replace].
  destruct ch; reflexivity.
Qed.

(* what the step does to the state the loop starts from, per mode *)
Lemma remove_step_all : forall r sc buf, is_mode r s_all -> remove_step r (ls0 sc buf) = mkL sc true CNop buf [] [] false.
Proof.
  intros r sc buf (v & Hv & Hin). unfold remove_step. rewrite Hv. cbv zeta.
  destruct Hin as [<-|[<-|[]]]; reflexivity.
Qed.
Lemma remove_step_body : forall r sc buf, is_mode r s_body -> remove_step r (ls0 sc buf) = mkL sc false CNop buf [] [] false.
Proof.
  intros r sc buf (v & Hv & Hin). unfold remove_step. rewrite Hv. cbv zeta.
  destruct Hin as [<-|[<-|[]]]; reflexivity.
Qed.
Lemma remove_step_tag : forall r sc buf, is_mode r s_tag -> remove_step r (ls0 sc buf) = mkL sc true CDefault buf [] [] false.
Proof.
  intros r sc buf (v & Hv & Hin). unfold remove_step. rewrite Hv. cbv zeta.
  destruct Hin as [<-|[<-|[]]]; reflexivity.
Qed.
Lemma remove_step_abf : forall r sc buf, is_mode r s_abf -> remove_step r (ls0 sc buf) = mkL sc false (CAllButFirst sc) buf [] [] false.
Proof.
  intros r sc buf (v & Hv & Hin). unfold remove_step. rewrite Hv. cbv zeta.
  destruct Hin as [<-|[<-|[]]]; reflexivity.
Qed.
Lemma remove_step_other : forall r sc buf, other_mode r -> remove_step r (ls0 sc buf) = ls0 sc buf.
Proof.
  intros r sc buf H. unfold remove_step. cbv zeta.
  rewrite (existsb_seqb_false _ _ (H s_all (or_introl eq_refl))).
  rewrite (existsb_seqb_false _ _ (H s_body (or_intror (or_introl eq_refl)))).
  rewrite (existsb_seqb_false _ _ (H s_tag (or_intror (or_intror (or_introl eq_refl))))).
  rewrite (existsb_seqb_false _ _ (H s_abf (or_intror (or_intror (or_intror (or_introl eq_refl)))))).
  reflexivity.
Qed.

Lemma remove_body_gen : forall mask ctx n tok r sc top t st, remove_only n tok r ->
  ebody mask ctx n sc top t st =
    let ls := remove_step r (ls0 sc (open_buf d_remove tok)) in
    seq2 (wr top (token_buf ls) t st) (fun t2 st2 =>
      seq2 (rchild n ls top t2 st2)
           (fun t3 st3 =>
              match n_end n with
              | Some e => if l_np ls then ([], ROk, t3, st3) else wr top (t_value e) t3 st3
              | None => ([], ROk, t3, st3)
              end)).
Proof.
  intros mask ctx n tok r sc top t st Hro.
  assert (Hr : a_name r = pfx ++ d_remove) by (destruct Hro as (_ & _ & Hr & _); exact Hr).
  apply (single_body_gen d_remove mask ctx n tok r sc top t st (remove_step r) Hro inert_remove).
  - intros ls t' st'. apply attr_step_remove. exact Hr.
  - apply is_owner_remove. exact Hr.
  - apply remove_step_tagbuf.
Qed.

(* ------------------------------------------------------------------------------------------ *)
(* A1-A5 for any behaviour of the nested renders                                               *)
(* ------------------------------------------------------------------------------------------ *)
(* A1: nothing (a single Write call with empty data) *)
Theorem remove_all_exec : forall mask ctx n tok r sc top t st,
  remove_only n tok r -> is_mode r s_all ->
  ebody mask ctx n sc top t st = wr top [] t st.
Proof.
  intros mask ctx n tok r sc top t st Hro Hm.
  rewrite (remove_body_gen mask ctx n tok r sc top t st Hro). cbv zeta.
  rewrite (remove_step_all r sc _ Hm), token_buf_np.
  apply seq2_wr_nop. intros t2 st2. unfold run_child. cbn [l_child l_np]. rewrite seq2_nil_l.
  destruct (n_end n); reflexivity.
Qed.

(* A2: open tag and end tag; [exec] is not called *)
Theorem remove_body_exec : forall mask ctx n tok r sc top t st,
  remove_only n tok r -> is_mode r s_body ->
  ebody mask ctx n sc top t st = seq2 (wr top (open_tag d_remove tok) t st) (wr_end top n).
Proof.
  intros mask ctx n tok r sc top t st Hro Hm.
  rewrite (remove_body_gen mask ctx n tok r sc top t st Hro). cbv zeta.
  rewrite (remove_step_body r sc _ Hm), token_buf_open. fold (open_tag d_remove tok).
  apply seq2_ext. intros t2 st2. unfold run_child. cbn [l_child l_np]. rewrite seq2_nil_l. reflexivity.
Qed.

(* A3: the children only *)
Theorem remove_tag_exec : forall mask ctx n tok r sc top t st,
  remove_only n tok r -> is_mode r s_tag ->
  ebody mask ctx n sc top t st = seq2 (wr top [] t st) (elist (n_children n) (n_children n) sc top).
Proof.
  intros mask ctx n tok r sc top t st Hro Hm.
  rewrite (remove_body_gen mask ctx n tok r sc top t st Hro). cbv zeta.
  rewrite (remove_step_tag r sc _ Hm), token_buf_np.
  apply seq2_ext. intros t2 st2. unfold run_child. cbn [l_child l_np l_sc].
  apply seq2_nil_r. intros t3 st3. destruct (n_end n); reflexivity.
Qed.

(* A4: open tag, the selected children, end tag *)
Theorem remove_abf_exec : forall mask ctx n tok r sc top t st,
  remove_only n tok r -> is_mode r s_abf ->
  ebody mask ctx n sc top t st =
    seq2 (wr top (open_tag d_remove tok) t st) (fun t2 st2 =>
      seq2 (elist (n_children n) (abf_spec is_space (n_children n)) sc top t2 st2) (wr_end top n)).
Proof.
  intros mask ctx n tok r sc top t st Hro Hm.
  rewrite (remove_body_gen mask ctx n tok r sc top t st Hro). cbv zeta.
  rewrite (remove_step_abf r sc _ Hm), token_buf_open. fold (open_tag d_remove tok).
  apply seq2_ext. intros t2 st2. unfold run_child. cbn [l_child l_np l_sc].
  rewrite abf_children_spec. reflexivity.
Qed.

(* A5: any other value: open tag without the directive, all children, end tag *)
Theorem remove_other_exec : forall mask ctx n tok r sc top t st,
  remove_only n tok r -> other_mode r ->
  ebody mask ctx n sc top t st =
    seq2 (wr top (open_tag d_remove tok) t st) (fun t2 st2 =>
      seq2 (elist (n_children n) (n_children n) sc top t2 st2) (wr_end top n)).
Proof.
  intros mask ctx n tok r sc top t st Hro Hm.
  rewrite (remove_body_gen mask ctx n tok r sc top t st Hro). cbv zeta.
  rewrite (remove_step_other r sc _ Hm). unfold ls0. rewrite token_buf_open. fold (open_tag d_remove tok).
  apply seq2_ext. intros t2 st2. unfold run_child. cbn [l_child l_np l_sc]. reflexivity.
Qed.

(* the five cases are exhaustive *)
Lemma existsb_seqb_true : forall x l, In x l -> existsb (str_eqb x) l = true.
Proof. intros x l H. apply existsb_exists. exists x. split; [exact H|apply seqb_refl]. Qed.

Theorem mode_cases : forall r,
  is_mode r s_all \/ is_mode r s_body \/ is_mode r s_tag \/ is_mode r s_abf \/ other_mode r.
Proof.
  intros r.
  assert (Hm : forall m, existsb (str_eqb match a_value r with Some v => v | None => [] end) (remove_values m) = true -> is_mode r m).
  { intros m H. apply existsb_exists in H. destruct H as [y [Hin Hy]]. apply seqb_eq in Hy. subst y.
    destruct (a_value r) as [v|] eqn:Ev; [exists v; split; [exact Ev|exact Hin]|].
    exfalso. unfold remove_values in Hin. destruct Hin as [H|[H|[]]]; discriminate H. }
  destruct (existsb (str_eqb match a_value r with Some v => v | None => [] end) (remove_values s_all)) eqn:E1; [left; exact (Hm _ E1)|].
  destruct (existsb (str_eqb match a_value r with Some v => v | None => [] end) (remove_values s_body)) eqn:E2; [right; left; exact (Hm _ E2)|].
  destruct (existsb (str_eqb match a_value r with Some v => v | None => [] end) (remove_values s_tag)) eqn:E3; [right; right; left; exact (Hm _ E3)|].
  destruct (existsb (str_eqb match a_value r with Some v => v | None => [] end) (remove_values s_abf)) eqn:E4; [right; right; right; left; exact (Hm _ E4)|].
  right; right; right; right. intros m Hin Hav. apply existsb_seqb_true in Hav.
  destruct Hin as [<-|[<-|[<-|[<-|[]]]]]; congruence.
Qed.

(* A6: whatever the value of the directive, the element's output is: nothing, or the children, or
   open_tag (= the print of a tag WITHOUT prefixed attribute, open_tag_no_directive) followed by
   nothing / selected children / all children and the end tag *)
Theorem remove_exec_cases : forall mask ctx n tok r sc top t st, remove_only n tok r ->
  ebody mask ctx n sc top t st = wr top [] t st \/
  ebody mask ctx n sc top t st = seq2 (wr top [] t st) (elist (n_children n) (n_children n) sc top) \/
  exists sel, (forall c, In c sel -> In c (n_children n)) /\
    ebody mask ctx n sc top t st =
      seq2 (wr top (print_tag (stripped d_remove tok)) t st) (fun t2 st2 =>
        seq2 (elist (n_children n) sel sc top t2 st2) (wr_end top n)).
Proof.
  intros mask ctx n tok r sc top t st Hro.
  rewrite <- (proj1 (open_tag_no_directive d_remove tok)).
  destruct (mode_cases r) as [Hm|[Hm|[Hm|[Hm|Hm]]]].
  - left. exact (remove_all_exec mask ctx n tok r sc top t st Hro Hm).
  - right; right. exists []. split; [intros c []|].
    rewrite (remove_body_exec mask ctx n tok r sc top t st Hro Hm). apply seq2_ext. intros t2 st2.
    cbn [exec_list]. rewrite seq2_nil_l. reflexivity.
  - right; left. exact (remove_tag_exec mask ctx n tok r sc top t st Hro Hm).
  - right; right. exists (abf_spec is_space (n_children n)). split.
    + intros c H. rewrite <- abf_children_spec in H. exact (abf_children_in is_space _ c H).
    + exact (remove_abf_exec mask ctx n tok r sc top t st Hro Hm).
  - right; right. exists (n_children n). split; [auto|].
    exact (remove_other_exec mask ctx n tok r sc top t st Hro Hm).
Qed.

(* ---------- the same with a writer that does not fail: explicit outputs ---------- *)
Notation wok := RenderPlain.wok.

Corollary remove_all_out : forall mask ctx n tok r sc top t st,
  remove_only n tok r -> is_mode r s_all -> wok top st ->
  ebody mask ctx n sc top t st = ([], ROk, t, st).
Proof.
  intros mask ctx n tok r sc top t st Hro Hm Hw.
  rewrite (remove_all_exec mask ctx n tok r sc top t st Hro Hm). apply wr_ok. exact Hw.
Qed.

Corollary remove_body_out : forall mask ctx n tok r sc top t st,
  remove_only n tok r -> is_mode r s_body -> wok top st ->
  ebody mask ctx n sc top t st = (open_tag d_remove tok ++ end_text n, ROk, t, st).
Proof.
  intros mask ctx n tok r sc top t st Hro Hm Hw.
  rewrite (remove_body_exec mask ctx n tok r sc top t st Hro Hm), (wr_ok top _ t st Hw).
  apply seq2_ok. unfold wr_end, end_text. apply end_ok. exact Hw.
Qed.

(* the children part is whatever the nested renders produce *)
Corollary remove_tag_out : forall mask ctx n tok r sc top t st o res t' st',
  remove_only n tok r -> is_mode r s_tag -> wok top st ->
  elist (n_children n) (n_children n) sc top t st = (o, res, t', st') ->
  ebody mask ctx n sc top t st = (o, res, t', st').
Proof.
  intros mask ctx n tok r sc top t st o res t' st' Hro Hm Hw Hch.
  rewrite (remove_tag_exec mask ctx n tok r sc top t st Hro Hm), (wr_ok top _ t st Hw).
  rewrite seq2_nil_l. exact Hch.
Qed.

Corollary remove_abf_out : forall mask ctx n tok r sc top t st o t' st',
  remove_only n tok r -> is_mode r s_abf -> wok top st -> wok top st' ->
  elist (n_children n) (abf_spec is_space (n_children n)) sc top t st = (o, ROk, t', st') ->
  ebody mask ctx n sc top t st = (open_tag d_remove tok ++ o ++ end_text n, ROk, t', st').
Proof.
  intros mask ctx n tok r sc top t st o t' st' Hro Hm Hw Hw' Hch.
  rewrite (remove_abf_exec mask ctx n tok r sc top t st Hro Hm), (wr_ok top _ t st Hw).
  apply seq2_ok. rewrite Hch. apply seq2_ok. unfold wr_end, end_text. apply end_ok. exact Hw'.
Qed.

Corollary remove_other_out : forall mask ctx n tok r sc top t st o t' st',
  remove_only n tok r -> other_mode r -> wok top st -> wok top st' ->
  elist (n_children n) (n_children n) sc top t st = (o, ROk, t', st') ->
  ebody mask ctx n sc top t st = (open_tag d_remove tok ++ o ++ end_text n, ROk, t', st').
Proof.
  intros mask ctx n tok r sc top t st o t' st' Hro Hm Hw Hw' Hch.
  rewrite (remove_other_exec mask ctx n tok r sc top t st Hro Hm), (wr_ok top _ t st Hw).
  apply seq2_ok. rewrite Hch. apply seq2_ok. unfold wr_end, end_text. apply end_ok. exact Hw'.
Qed.

(* a failing nested render is the element's result; the end tag is not written *)
Corollary remove_children_fail : forall mask ctx n tok r sc top t st o res t' st',
  remove_only n tok r -> wok top st -> res <> ROk ->
  (is_mode r s_abf /\ elist (n_children n) (abf_spec is_space (n_children n)) sc top t st = (o, res, t', st')) \/
  (other_mode r /\ elist (n_children n) (n_children n) sc top t st = (o, res, t', st')) ->
  ebody mask ctx n sc top t st = (open_tag d_remove tok ++ o, res, t', st').
Proof.
  intros mask ctx n tok r sc top t st o res t' st' Hro Hw Hres [[Hm Hch]|[Hm Hch]].
  - rewrite (remove_abf_exec mask ctx n tok r sc top t st Hro Hm), (wr_ok top _ t st Hw).
    apply seq2_ok. rewrite Hch. destruct res; [contradiction|reflexivity|reflexivity].
  - rewrite (remove_other_exec mask ctx n tok r sc top t st Hro Hm), (wr_ok top _ t st Hw).
    apply seq2_ok. rewrite Hch. destruct res; [contradiction|reflexivity|reflexivity].
Qed.
End Body.

(* ------------------------------------------------------------------------------------------ *)
(* directive-free shaped children, the renderer itself                                         *)
(* ------------------------------------------------------------------------------------------ *)
Notation enode := (exec_node is_space to_lower is_letter is_udigit methods call_fn mgr).
Notation plainN := (plain is_space to_lower mgr).

Definition plain_children (n : node) (fuel : nat) : Prop :=
  forall c, In c (n_children n) -> plainN c /\ shaped c /\ (height c <= fuel)%nat.

Lemma exec_list_sel : forall fuel n sel ctx sc top t st,
  plain_children n fuel -> (forall c, In c sel -> In c (n_children n)) -> RenderPlain.wok top st ->
  exec_list (enode fuel) ctx sel sc top t st = (flat_map print_plain sel, ROk, t, st).
Proof.
  intros fuel n sel ctx sc top t st Hpc Hsel Hw. apply exec_list_plain.
  intros c Hc ctx' sc'. destruct (Hpc c (Hsel c Hc)) as (Hp & Hs & Hh).
  apply render_plain_gen; assumption.
Qed.

Lemma abf_spec_in : forall ch c, In c (abf_spec is_space ch) -> In c ch.
Proof. intros ch c H. rewrite <- abf_children_spec in H. exact (abf_children_in is_space ch c H). Qed.

Theorem remove_all_plain : forall fuel mask ctx n tok r sc top t st,
  remove_only n tok r -> is_mode r s_all -> RenderPlain.wok top st ->
  enode (S fuel) mask ctx n sc top t st = ([], ROk, t, st).
Proof. intros fuel mask ctx n tok r sc top t st Hro Hm Hw. cbn [exec_node]. eapply remove_all_out; eassumption. Qed.

Theorem remove_body_plain : forall fuel mask ctx n tok r sc top t st,
  remove_only n tok r -> is_mode r s_body -> RenderPlain.wok top st ->
  enode (S fuel) mask ctx n sc top t st = (open_tag d_remove tok ++ end_text n, ROk, t, st).
Proof. intros fuel mask ctx n tok r sc top t st Hro Hm Hw. cbn [exec_node]. eapply remove_body_out; eassumption. Qed.

Theorem remove_tag_plain : forall fuel mask ctx n tok r sc top t st,
  remove_only n tok r -> is_mode r s_tag -> RenderPlain.wok top st -> plain_children n fuel ->
  enode (S fuel) mask ctx n sc top t st = (flat_map print_plain (n_children n), ROk, t, st).
Proof.
  intros fuel mask ctx n tok r sc top t st Hro Hm Hw Hpc. cbn [exec_node].
  eapply remove_tag_out; try eassumption.
  apply (exec_list_sel fuel n); [exact Hpc|auto|exact Hw].
Qed.

Theorem remove_abf_plain : forall fuel mask ctx n tok r sc top t st,
  remove_only n tok r -> is_mode r s_abf -> RenderPlain.wok top st -> plain_children n fuel ->
  enode (S fuel) mask ctx n sc top t st
  = (open_tag d_remove tok ++ flat_map print_plain (abf_spec is_space (n_children n)) ++ end_text n, ROk, t, st).
Proof.
  intros fuel mask ctx n tok r sc top t st Hro Hm Hw Hpc. cbn [exec_node].
  eapply remove_abf_out; try eassumption.
  apply (exec_list_sel fuel n); [exact Hpc|apply abf_spec_in|exact Hw].
Qed.

Theorem remove_other_plain : forall fuel mask ctx n tok r sc top t st,
  remove_only n tok r -> other_mode r -> RenderPlain.wok top st -> plain_children n fuel ->
  enode (S fuel) mask ctx n sc top t st
  = (open_tag d_remove tok ++ flat_map print_plain (n_children n) ++ end_text n, ROk, t, st).
Proof.
  intros fuel mask ctx n tok r sc top t st Hro Hm Hw Hpc. cbn [exec_node].
  eapply remove_other_out; try eassumption.
  apply (exec_list_sel fuel n); [exact Hpc|auto|exact Hw].
Qed.

(* A5 read as "the attribute is absent": the output is print_plain of the element without it
   (and without a plain attribute named "remove", see the header) *)
Corollary remove_other_as_absent : forall fuel mask ctx n tok r sc top t st,
  remove_only n tok r -> other_mode r -> RenderPlain.wok top st -> plain_children n fuel ->
  enode (S fuel) mask ctx n sc top t st
  = (print_plain (Node (n_id n) (Some (stripped d_remove tok)) (n_children n) (n_end n)), ROk, t, st).
Proof.
  intros fuel mask ctx n tok r sc top t st Hro Hm Hw Hpc.
  rewrite (remove_other_plain fuel mask ctx n tok r sc top t st Hro Hm Hw Hpc).
  cbn [print_plain]. unfold stripped at 1. cbn [t_kind].
  rewrite (proj1 (open_tag_no_directive d_remove tok)). unfold end_text. reflexivity.
Qed.
End Remove.

Print Assumptions filter_np_sorted.
Print Assumptions abf_children_spec.
Print Assumptions abf_children_shape.
Print Assumptions open_tag_no_directive.
Print Assumptions remove_all_exec.
Print Assumptions remove_body_exec.
Print Assumptions remove_tag_exec.
Print Assumptions remove_abf_exec.
Print Assumptions remove_other_exec.
Print Assumptions remove_children_fail.
Print Assumptions mode_cases.
Print Assumptions remove_exec_cases.
Print Assumptions remove_all_plain.
Print Assumptions remove_body_plain.
Print Assumptions remove_tag_plain.
Print Assumptions remove_abf_plain.
Print Assumptions remove_other_plain.
Print Assumptions remove_other_as_absent.
