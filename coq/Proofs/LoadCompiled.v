(* C10 lifted to whole documents: when a document is accepted by the loader, EVERY directive attribute of EVERY tag
   was split by the directive-value scanner without error, the pieces tile the raw value, and every code block
   was accepted by the expression parser with its whole text consumed.

   Part A: the directive-value scanner on a raw value  q body q  (body free of q).
   Part B: an invariant of the HTML scanner: every committed attribute passed the attribute compiler.
   Part C: the two composed, for the token list of the scan and for the tree of the loader.
   Part D: the defects listed by the property, inside small documents: each makes the loader fail. *)
From Coq Require Import List NArith Bool Lia String Ascii.
From Tpl Require Import Base.Runes Html.Scan Html.Code Html.Tree Html.Pipeline Exp.Parse
  Proofs.ScanConcat Proofs.CodeConcat Proofs.CodeGrammar Proofs.ParseYield Proofs.BuildFlatten.
(* not imported (constructor names of Html.Exec clash with those of Html.Code): only Manager.pok, Exec.parse_ok,
   PureRenderTree.nodes / node_ind' are used, qualified *)
From Tpl Require Html.Manager Proofs.PureRenderTree Proofs.ReadbackExample.
Import ListNotations.
Open Scope N_scope.

(* ================= Part A ================= *)
Section CQ.
Variable compile : pos -> str -> bool.
Variable start : pos.
Notation run := (CodeConcat.run compile start).

Definition openm (m : cmode) : Prop :=
  match m with
  | CText _ _ _ | CDollar _ _ _ | CBlock _ _ _ | CStr _ _ _ _ | CErr _ => True
  | _ => False
  end.

Lemma cstep_open : forall s r, openm (k_mode s) -> N.eqb r (k_first s) = false ->
  openm (k_mode (cstep compile s r)) /\ k_first (cstep compile s r) = k_first s.
Proof.
  intros [t p f b m] r Hm Hne. cbn [k_mode k_first] in Hm, Hne.
  destruct m as [| | | |buf st e|buf st e|buf st e|q esc buf st|e]; try contradiction;
    unfold cstep; cbn [k_toks k_first k_brace k_mode k_pos cdispatch].
  - rewrite Hne, andb_false_r.
    destruct (N.eqb r cDOLLAR); cbn [k_mode k_first openm]; split; trivial.
  - destruct (N.eqb r cLB).
    + destruct buf; cbn [k_mode k_first openm]; split; trivial.
    + cbn [cdispatch]. rewrite Hne, andb_false_r.
      destruct (N.eqb r cDOLLAR); cbn [k_mode k_first openm]; split; trivial.
  - destruct (N.eqb r cLB); [cbn [k_mode k_first openm]; split; trivial|].
    destruct (N.eqb r cRB).
    + destruct (N.eqb b 0); [|cbn [k_mode k_first openm]; split; trivial].
      destruct (compile st buf); cbn [k_mode k_first openm]; split; trivial.
    + destruct (N.eqb r cDQ || N.eqb r cSQ || N.eqb r cBQ); cbn [k_mode k_first openm]; split; trivial.
  - destruct esc; [cbn [k_mode k_first openm]; split; trivial|].
    destruct (N.eqb q cBQ).
    + destruct (N.eqb r cBQ); cbn [k_mode k_first openm]; split; trivial.
    + destruct (N.eqb r cBS); [cbn [k_mode k_first openm]; split; trivial|].
      destruct (N.eqb r q); cbn [k_mode k_first openm]; split; trivial.
  - cbn [k_mode k_first openm]. split; trivial.
Qed.

Lemma run_open : forall q l, isq q = true -> ~ In q l ->
  openm (k_mode (run (q :: l))) /\ k_first (run (q :: l)) = q.
Proof.
  intros q l Hq. induction l as [|r l IH] using rev_ind; intros Hni.
  - unfold CodeConcat.run. cbn [fold_left]. unfold cstep, cinit.
    cbn [k_toks k_first k_brace k_mode k_pos cdispatch]. rewrite Hq.
    cbn [k_mode k_first openm]. split; trivial.
  - assert (Hl : ~ In q l) by (intros H; apply Hni; apply in_or_app; left; exact H).
    assert (Hr : N.eqb r q = false).
    { apply N.eqb_neq. intros E. apply Hni. apply in_or_app. right. left. exact E. }
    destruct (IH Hl) as [Ho Hf].
    change (q :: l ++ [r]) with ((q :: l) ++ [r]). rewrite (run_snoc compile start).
    rewrite <- Hf in Hr.
    destruct (cstep_open (run (q :: l)) r Ho Hr) as [Ho' Hf'].
    split; [exact Ho'|]. rewrite Hf'. exact Hf.
Qed.

Lemma openm_not_done : forall m, openm m -> m <> CDone.
Proof. intros m H E. subst m. exact H. Qed.

(* a value  q body q  whose body is free of q: the code tokens tile it exactly *)
Lemma cscan_quoted_concat : forall q b toks, isq q = true -> ~ In q b ->
  cscan compile start (q :: b ++ [q]) = inl toks -> concat (map c_value toks) = q :: b ++ [q].
Proof.
  intros q b toks Hq Hni H.
  destruct (run_open q b Hq Hni) as [Ho _].
  pose proof (openm_not_done _ Ho) as Hnd.
  destruct (run_inv compile start (q :: b)) as [pre [rest [p [Hsrc [HI [Hrest _]]]]]].
  destruct (Hrest Hnd) as [Hr Hp]. subst rest p. rewrite app_nil_r in Hsrc. subst pre.
  pose proof (cstep_inv compile start (run (q :: b)) q (q :: b) Hnd HI) as HI2.
  unfold cscan in H. change (q :: b ++ [q]) with ((q :: b) ++ [q]) in H.
  fold (run ((q :: b) ++ [q])) in H. rewrite (run_snoc compile start) in H.
  destruct (CodeConcat.cfinish_inl _ _ H) as [Ht Hm].
  destruct (Inv_closed_done start _ _ _ _ Hm HI2) as [_ He].
  unfold emitted in He. rewrite <- Ht in He. exact He.
Qed.

Lemma cstep_err : forall s r e, k_mode s = CErr e -> k_mode (cstep compile s r) = CErr e.
Proof.
  intros [t p f b m] r e Hm. cbn [k_mode] in Hm. subst m. unfold cstep.
  cbn [k_toks k_first k_brace k_mode k_pos cdispatch]. reflexivity.
Qed.
Lemma fold_err : forall l s e, k_mode s = CErr e -> k_mode (fold_left (cstep compile) l s) = CErr e.
Proof.
  induction l as [|r l IH]; intros s e Hm; [exact Hm|].
  cbn [fold_left]. apply IH. apply cstep_err. exact Hm.
Qed.

(* an accepted directive value starts with a quote *)
Lemma cscan_head : forall v toks, cscan compile start v = inl toks ->
  exists q b, v = q :: b /\ isq q = true.
Proof.
  intros v toks H. destruct v as [|q b]; [discriminate H|].
  exists q, b. split; [reflexivity|]. destruct (isq q) eqn:Hq; [reflexivity|]. exfalso.
  unfold cscan in H. cbn [fold_left] in H.
  assert (Hm : k_mode (cstep compile (cinit start) q) = CErr CEQuote).
  { unfold cstep, cinit. cbn [k_toks k_first k_brace k_mode k_pos cdispatch]. rewrite Hq. reflexivity. }
  pose proof (fold_err b _ _ Hm) as Hf. unfold cfinish in H. rewrite Hf in H. discriminate H.
Qed.
End CQ.

(* the splitter without a block compiler: it delimits the same blocks *)
Definition no_compile : pos -> str -> bool := fun _ _ => true.

Ltac split_all_ifs :=
  repeat (match goal with
          | |- context [if ?c then _ else _] => destruct c
          | |- context [match ?l with [] => _ | _ :: _ => _ end] => is_var l; destruct l
          end; cbn [cdispatch]); reflexivity.

Lemma cstep_no_compile : forall compile s r,
  (forall e, k_mode (cstep compile s r) <> CErr e) ->
  cstep no_compile s r = cstep compile s r.
Proof.
  intros compile [t p f b m] r Hne.
  destruct m as [| | | |buf st e|buf st e|buf st e|q esc buf st|e];
    unfold cstep in Hne |- *; cbn [k_toks k_first k_brace k_mode k_pos cdispatch] in Hne |- *;
    try reflexivity; try solve [clear Hne; split_all_ifs].
  destruct (N.eqb r cLB); [reflexivity|].
  destruct (N.eqb r cRB); [|split_all_ifs].
  destruct (N.eqb b 0); [|reflexivity].
  unfold no_compile at 1.
  destruct (compile st buf); [reflexivity|].
  exfalso. cbn [k_mode] in Hne. apply (Hne CECompile). reflexivity.
Qed.

Lemma run_no_compile : forall compile start src,
  (forall e, k_mode (CodeConcat.run compile start src) <> CErr e) ->
  CodeConcat.run no_compile start src = CodeConcat.run compile start src.
Proof.
  intros compile start src. induction src as [|r l IH] using rev_ind; intros Hne; [reflexivity|].
  rewrite (run_snoc compile start) in Hne |- *. rewrite (run_snoc no_compile start).
  assert (Hl : forall e, k_mode (CodeConcat.run compile start l) <> CErr e).
  { intros e He. apply (Hne e). apply cstep_err. exact He. }
  rewrite (IH Hl). apply cstep_no_compile. exact Hne.
Qed.

Lemma cscan_no_compile : forall compile start v toks,
  cscan compile start v = inl toks -> cscan no_compile start v = inl toks.
Proof.
  intros compile start v toks H. unfold cscan in H |- *.
  fold (CodeConcat.run compile start v) in H. fold (CodeConcat.run no_compile start v).
  rewrite (run_no_compile compile start v); [exact H|].
  intros e He. unfold cfinish in H. rewrite He in H. discriminate H.
Qed.

(* ================= Part B ================= *)
(* a finished raw value: when it starts with a quote it ends with the same quote and has none inside *)
Definition vq (v : str) : Prop :=
  match v with
  | [] => True
  | f :: b => isq f = true -> exists b', b = b' ++ [f] /\ ~ In f b'
  end.
(* a raw value under construction *)
Definition pv (v : str) : Prop :=
  match v with [] => True | f :: b => isq f = true -> ~ In f b end.

Section S.
Variable is_space : rune -> bool.
Variable to_lower : rune -> rune.
Variable text_tags : list str.
Variable attr_prefix : str.
Variable compile : attr -> bool.
Notation else_name := (Scan.else_name attr_prefix).
Notation tag_step := (Scan.tag_step is_space attr_prefix compile).
Notation text_step := (Scan.text_step is_space to_lower).
Notation add_attr := (Scan.add_attr attr_prefix compile).
Notation fix_else := (Scan.fix_else attr_prefix).
Notation dispatch := (Scan.dispatch is_space to_lower text_tags attr_prefix compile).
Notation step := (Scan.step is_space to_lower text_tags attr_prefix compile).
Notation scan := (Scan.scan is_space to_lower text_tags attr_prefix compile).

(* what is known of a committed attribute *)
Definition aok (a : attr) : Prop :=
  match a_value a with
  | None => True
  | Some v => (compile a = true \/ (a_name a = else_name /\ v = true_q)) /\ vq v
  end.
Definition tok_ok (t : token) : Prop := Forall aok (t_attrs t).
Definition gok (g : tagst) : Prop :=
  Forall aok (g_attrs g) /\ (g_state g = TAttrValue -> pv (g_aval g)).
Definition mok (m : mode) : Prop := match m with MTag g => gok g | _ => True end.
Definition rok (res : tres) : Prop := match res with TR toks m _ => Forall tok_ok toks /\ mok m end.

Lemma true_q_vq : vq true_q.
Proof.
  unfold vq, true_q. intros _. exists [116;114;117;101]. split; [reflexivity|].
  cbn [In]. intros H. repeat (destruct H as [H|H]; [discriminate H|]). exact H.
Qed.

Lemma add_attr_ok b a g g' : add_attr b a g = inl g' ->
  Forall aok (g_attrs g) ->
  (b = false -> a_value a = None) -> (forall v, a_value a = Some v -> vq v) ->
  Forall aok (g_attrs g') /\ g_state g' = g_state g /\ g_aval g' = g_aval g.
Proof.
  intros H Hall Hb Hv. unfold Scan.add_attr in H.
  destruct (b && negb (compile (fix_else a))) eqn:Ec; [discriminate H|].
  destruct (has_attr (a_name (fix_else a)) (g_attrs g)); [discriminate H|].
  injection H as H. subst g'. tag_cbn. split; [|split; reflexivity].
  constructor; [|exact Hall]. unfold aok.
  destruct (a_value (fix_else a)) as [v|] eqn:Ev; [|exact I].
  unfold Scan.fix_else in Ev, Ec |- *. destruct (a_value a) as [v0|] eqn:Ev0.
  - rewrite Ev0 in Ev. injection Ev as Ev. subst v0. split; [|apply Hv; reflexivity].
    left. destruct b.
    + cbn [andb] in Ec. destruct (compile a); [reflexivity|discriminate Ec].
    + specialize (Hb eq_refl). discriminate Hb.
  - destruct (str_eqb (a_name a) else_name) eqn:Ee.
    + cbn [a_value a_name] in Ev |- *. injection Ev as Ev. subst v. split; [|exact true_q_vq].
      right. split; [apply str_eqb_eq; exact Ee|reflexivity].
    + rewrite Ev0 in Ev. discriminate Ev.
Qed.

Lemma finish_or_ok toks g r p1 : Forall tok_ok toks -> Forall aok (g_attrs g) ->
  (N.eqb r cGT = false -> g_state g = TAttrValue -> pv (g_aval g)) -> rok (finish_or toks g r p1).
Proof.
  intros Ht Ha Hp. unfold finish_or. destruct (N.eqb r cGT) eqn:E; cbn [rok mok].
  - split; [|exact I]. unfold emit_tag. constructor; [|exact Ht].
    unfold tok_ok. cbn [t_attrs]. apply Forall_rev. exact Ha.
  - split; [exact Ht|]. split; [exact Ha|]. apply Hp. reflexivity.
Qed.

Lemma pv_snoc f b r : pv (f :: b) -> (isq f = true -> N.eqb f r = false) -> pv (f :: b ++ [r]).
Proof.
  unfold pv. intros H Hr Hq Hin. apply in_app_or in Hin. destruct Hin as [Hin|Hin].
  - exact (H Hq Hin).
  - destruct Hin as [E|[]]. specialize (Hr Hq). apply N.eqb_neq in Hr. apply Hr. symmetry. exact E.
Qed.

Lemma tag_step_ok toks g r p0 p1 : Forall tok_ok toks -> gok g -> rok (tag_step toks g r p0 p1).
Proof.
  intros Ht [Ha Hp]. unfold Scan.tag_step.
  destruct (g_state g) eqn:Est; tag_cbn.
  - (* TName *)
    destruct (N.eqb r cGT) eqn:Egt.
    + apply finish_or_ok; tag_cbn; [exact Ht|exact Ha|intros _ H; discriminate H].
    + destruct (is_space r).
      * cbn [rok mok]. split; [exact Ht|]. split; tag_cbn; [exact Ha|intros H; discriminate H].
      * apply finish_or_ok; tag_cbn; [exact Ht|exact Ha|].
        intros _ H. destruct (str_eqb _ sBANGDD); [discriminate H|]. destruct (str_eqb _ sCDATA); discriminate H.
  - (* TCData *)
    destruct (suffixb sRRGT (g_cdata g ++ [r])); cbn [rok mok].
    + split; [|exact I]. constructor; [constructor|exact Ht].
    + split; [exact Ht|]. split; tag_cbn; [exact Ha|intros H; discriminate H].
  - (* TComment *)
    destruct (suffixb sDDGT (g_comment g ++ [r])).
    + destruct (prefixb [cGT] _ || prefixb [cDASH; cGT] _); [cbn [rok mok]; split; [exact Ht|exact I]|].
      destruct (containsb sLTBDD _ || containsb sDDGT _ || containsb sDDBGT _); [cbn [rok mok]; split; [exact Ht|exact I]|].
      destruct (suffixb sLTBD _); cbn [rok mok]; (split; [|exact I]); [exact Ht|].
      constructor; [constructor|exact Ht].
    + destruct (prefixb [cGT] _ || prefixb [cDASH; cGT] _); cbn [rok mok]; (split; [exact Ht|]); [exact I|].
      split; tag_cbn; [exact Ha|intros H; discriminate H].
  - (* TSpace *)
    destruct (N.eqb r cGT) eqn:Egt.
    + apply finish_or_ok; tag_cbn; [exact Ht|exact Ha|intros _ H; discriminate H].
    + destruct (is_space r); cbn [rok mok]; (split; [exact Ht|]); split; tag_cbn;
        first [exact Ha|intros H; discriminate H].
  - (* TAttrName *)
    destruct (is_space r).
    { cbn [rok mok]. split; [exact Ht|]. split; tag_cbn; [exact Ha|intros H; discriminate H]. }
    destruct (N.eqb r cGT) eqn:Egt.
    + destruct (add_attr _ _ _) as [g'|e] eqn:Ea; [|cbn [rok mok]; split; [exact Ht|exact I]].
      apply add_attr_ok in Ea; tag_cbn; cbn [a_value];
        [|exact Ha|intros _; reflexivity|intros v H; discriminate H].
      destruct Ea as (Ha' & Hs' & _). tag_cbn_in Hs'.
      apply finish_or_ok; [exact Ht|exact Ha'|intros _ H; rewrite Hs' in H; discriminate H].
    + destruct (N.eqb r cEQ).
      { cbn [rok mok]. split; [exact Ht|]. split; tag_cbn; [exact Ha|intros _; exact I]. }
      destruct (ends_sp (g_aname g)).
      * destruct (add_attr _ _ _) as [g'|e] eqn:Ea; [|cbn [rok mok]; split; [exact Ht|exact I]].
        apply add_attr_ok in Ea; tag_cbn; cbn [a_value];
          [|exact Ha|intros _; reflexivity|intros v H; discriminate H].
        destruct Ea as (Ha' & _ & _).
        cbn [rok mok]. split; [exact Ht|]. split; tag_cbn; [exact Ha'|intros H; discriminate H].
      * cbn [rok mok]. split; [exact Ht|]. split; tag_cbn; [exact Ha|intros H; discriminate H].
  - (* TAttrValue *)
    specialize (Hp eq_refl).
    destruct (g_aval g) as [|f av] eqn:Eav.
    + destruct (is_space r).
      { cbn [rok mok]. split; [exact Ht|]. split; tag_cbn; [exact Ha|intros _; exact I]. }
      destruct (N.eqb r cGT) eqn:Egt.
      * destruct (add_attr _ _ _) as [g'|e] eqn:Ea; [|cbn [rok mok]; split; [exact Ht|exact I]].
        apply add_attr_ok in Ea; tag_cbn; cbn [a_value];
          [|exact Ha|intros H; discriminate H|intros v H; injection H as H; subst v; exact I].
        destruct Ea as (Ha' & _ & _).
        apply finish_or_ok; [exact Ht|exact Ha'|intros H; rewrite Egt in H; discriminate H].
      * cbn [rok mok]. split; [exact Ht|]. split; tag_cbn; [exact Ha|].
        intros _. unfold pv. intros _ H. exact H.
    + change (N.eqb f cDQ || N.eqb f cSQ) with (isq f).
      destruct (isq f) eqn:Eq; cbn [andb negb orb].
      * destruct (N.eqb f r) eqn:Efr; cbn [orb].
        -- apply N.eqb_eq in Efr. subst r.
           destruct (add_attr _ _ _) as [g'|e] eqn:Ea; [|cbn [rok mok]; split; [exact Ht|exact I]].
           apply add_attr_ok in Ea; tag_cbn; cbn [a_value];
             [|exact Ha|intros H; discriminate H|].
           ++ destruct Ea as (Ha' & _ & _).
              apply finish_or_ok; tag_cbn; [exact Ht|exact Ha'|intros _ H; discriminate H].
           ++ intros v H. injection H as H. subst v. cbn [app]. unfold vq. intros _.
              exists av. split; [reflexivity|]. exact (Hp Eq).
        -- cbn [rok mok]. split; [exact Ht|]. split; tag_cbn; [exact Ha|].
           intros _. cbn [app]. apply pv_snoc; [exact Hp|intros _; exact Efr].
      * destruct (is_space r || N.eqb r cGT) eqn:Efin.
        -- destruct (add_attr _ _ _) as [g'|e] eqn:Ea; [|cbn [rok mok]; split; [exact Ht|exact I]].
           apply add_attr_ok in Ea; tag_cbn; cbn [a_value];
             [|exact Ha|intros H; discriminate H|].
           ++ destruct Ea as (Ha' & _ & _).
              apply finish_or_ok; tag_cbn; [exact Ht|exact Ha'|intros _ H; discriminate H].
           ++ intros v H. injection H as H. subst v. unfold vq. intros H. rewrite Eq in H. discriminate H.
        -- apply finish_or_ok; tag_cbn; [exact Ht|exact Ha|].
           intros _ _. cbn [app]. apply pv_snoc; [exact Hp|intros H; rewrite Eq in H; discriminate H].
Qed.

Lemma new_tag_ok p0 : gok (new_tag p0).
Proof. unfold gok, new_tag; tag_cbn. split; [constructor|intros H; discriminate H]. Qed.

Lemma text_tok_ok v p q : tok_ok (mkTok KText v p q [] []).
Proof. unfold tok_ok. cbn [t_attrs]. constructor. Qed.

Lemma text_step_ok toks x r p0 p1 : Forall tok_ok toks -> rok (text_step toks x r p0 p1).
Proof.
  intros Ht. unfold Scan.text_step.
  destruct (x_raw x).
  - destruct (N.eqb r cLT).
    + cbn [negb]. text_cbn.
      destruct (prefixb _ _).
      * destruct (N.eqb r cGT); [|cbn [rok mok]; split; [exact Ht|exact I]].
        destruct (firstn _ _); cbn [rok mok]; (split; [|exact I]).
        -- constructor; [constructor|exact Ht].
        -- constructor; [constructor|]. constructor; [apply text_tok_ok|exact Ht].
      * cbn [rok mok]. split; [exact Ht|exact I].
    + destruct (x_tagbuf x); cbn [negb]; [cbn [rok mok]; split; [exact Ht|exact I]|].
      destruct (prefixb _ _).
      * destruct (N.eqb r cGT); [|cbn [rok mok]; split; [exact Ht|exact I]].
        destruct (firstn _ _); cbn [rok mok]; (split; [|exact I]).
        -- constructor; [constructor|exact Ht].
        -- constructor; [constructor|]. constructor; [apply text_tok_ok|exact Ht].
      * cbn [rok mok]. split; [exact Ht|exact I].
  - destruct (N.eqb r cLT); cbn [rok mok].
    + split; [constructor; [apply text_tok_ok|exact Ht]|apply new_tag_ok].
    + split; [exact Ht|exact I].
Qed.

Lemma dispatch_ok toks m r p0 p1 : Forall tok_ok toks -> mok m -> rok (dispatch toks m r p0 p1).
Proof.
  intros Ht Hm. unfold Scan.dispatch. destruct m as [|x|g|e].
  - destruct (raw_tag_of_last _ _ _); [apply text_step_ok; exact Ht|].
    destruct (N.eqb r cLT); [|apply text_step_ok; exact Ht].
    cbn [rok mok]. split; [exact Ht|apply new_tag_ok].
  - apply text_step_ok; exact Ht.
  - apply tag_step_ok; [exact Ht|exact Hm].
  - cbn [rok mok]. split; [exact Ht|exact I].
Qed.

Definition sok (s : sstate) : Prop := Forall tok_ok (s_toks s) /\ mok (s_mode s).

Lemma step_ok s r : sok s -> sok (step s r).
Proof.
  intros [Ht Hm]. unfold Scan.step.
  pose proof (dispatch_ok (s_toks s) (s_mode s) r (s_pos s) (adv (s_pos s) r) Ht Hm) as H1.
  destruct (dispatch (s_toks s) (s_mode s) r (s_pos s) (adv (s_pos s) r)) as [t1 m1 u1].
  cbn [rok] in H1. destruct H1 as [Ht1 Hm1]. destruct u1.
  - pose proof (dispatch_ok t1 m1 r (s_pos s) (adv (s_pos s) r) Ht1 Hm1) as H2.
    destruct (dispatch t1 m1 r (s_pos s) (adv (s_pos s) r)) as [t2 m2 u2].
    cbn [rok] in H2. exact H2.
  - split; [exact Ht1|exact Hm1].
Qed.

Lemma fold_ok src : forall s, sok s -> sok (fold_left step src s).
Proof.
  induction src as [|r src IH]; intros s Hs; [exact Hs|].
  cbn [fold_left]. apply IH. apply step_ok. exact Hs.
Qed.

(* every attribute of every token of an accepted document: no value, or accepted by the attribute compiler
   (or the synthetic value of a bare else), and a raw value that opens with a quote is closed by the same quote
   with none inside *)
Theorem scan_attrs_ok src toks : scan src = inl toks -> Forall tok_ok toks.
Proof.
  intros H. unfold Scan.scan in H.
  assert (H0 : sok init) by (split; [constructor|exact I]).
  pose proof (fold_ok src init H0) as [Ht _].
  unfold Scan.finish in H. destruct (s_mode (fold_left step src init)) as [|x|g|e].
  - injection H as H. subst toks. apply Forall_rev. exact Ht.
  - injection H as H. subst toks. apply Forall_app. split; [apply Forall_rev; exact Ht|].
    constructor; [apply text_tok_ok|constructor].
  - discriminate H.
  - discriminate H.
Qed.
End S.

(* ================= Part C ================= *)
(* every token that a node of the tree carries (open or end tag, text, comment) is a token of flatten *)
Lemma nodes_flatten : forall root n t, In n (PureRenderTree.nodes root) ->
  n_tok n = Some t \/ n_end n = Some t -> In t (flatten root).
Proof.
  intros root. apply (PureRenderTree.node_ind' (fun root => forall n t, In n (PureRenderTree.nodes root) ->
                        n_tok n = Some t \/ n_end n = Some t -> In t (flatten root))).
  intros i tok ch e Hch n t Hin Ht.
  cbn [PureRenderTree.nodes] in Hin. cbn [flatten]. destruct Hin as [Hself|Hsub].
  - subst n. cbn [n_tok n_end] in Ht. destruct Ht as [Ht|Ht]; subst.
    + apply in_or_app. left. left. reflexivity.
    + apply in_or_app. right. apply in_or_app. right. left. reflexivity.
  - apply in_or_app. right. apply in_or_app. left.
    apply in_flat_map in Hsub. destruct Hsub as [c [Hc Hn]].
    apply in_flat_map. exists c. split; [exact Hc|].
    rewrite Forall_forall in Hch. exact (Hch c Hc n t Hn Ht).
Qed.

Section Doc.
Variable is_space : rune -> bool.
Variable to_lower : rune -> rune.
Variable text_tags : list str.
Variable void_elements : list str.
Variable attr_prefix : str.
Variable parse_ok : pos -> str -> bool.
Notation compile_attr := (Pipeline.compile_attr attr_prefix parse_ok).
Notation attr_ctoks := (Pipeline.attr_ctoks attr_prefix parse_ok).
Notation scan_html := (Pipeline.scan_html is_space to_lower text_tags attr_prefix parse_ok).
Notation load := (Pipeline.load is_space to_lower text_tags void_elements attr_prefix parse_ok).

(* the synthetic value of a bare else is a literal: it compiles whatever the block compiler is *)
Lemma true_q_compiles a : a_value a = Some true_q -> compile_attr a = true.
Proof.
  intros Hv. unfold Pipeline.compile_attr, Pipeline.attr_ctoks. rewrite Hv.
  destruct (prefixb attr_prefix (a_name a)); [|reflexivity].
  destruct (cscan parse_ok (a_vstart a) true_q) as [l|e] eqn:E; [reflexivity|].
  vm_compute in E. discriminate E.
Qed.

(* generic in the block compiler [parse_ok] *)
Theorem scan_all_compiled_gen : forall src toks, scan_html src = inl toks ->
  forall t a v, In t toks -> In a (t_attrs t) ->
  prefixb attr_prefix (a_name a) = true -> a_value a = Some v ->
  exists cts,
    attr_ctoks a = inl cts /\ cscan parse_ok (a_vstart a) v = inl cts /\
    concat (map c_value cts) = v /\
    (exists q b, v = q :: b ++ [q] /\ isq q = true /\ ~ In q b) /\
    (forall c, In c cts -> c_kind c = CodeValue -> parse_ok (c_start c) (c_value c) = true).
Proof.
  intros src toks Hscan t a v Ht Ha Hpre Hv.
  pose proof (scan_attrs_ok is_space to_lower text_tags attr_prefix compile_attr src toks Hscan) as Hall.
  rewrite Forall_forall in Hall. specialize (Hall t Ht). unfold tok_ok in Hall.
  rewrite Forall_forall in Hall. specialize (Hall a Ha). unfold aok in Hall. rewrite Hv in Hall.
  destruct Hall as [Hc Hq].
  assert (Hcomp : compile_attr a = true).
  { destruct Hc as [Hc|[_ Hc]]; [exact Hc|]. apply true_q_compiles. rewrite Hv, Hc. reflexivity. }
  unfold Pipeline.compile_attr in Hcomp.
  destruct (attr_ctoks a) as [cts|e] eqn:Ects; [|discriminate Hcomp].
  exists cts. split; [reflexivity|].
  unfold Pipeline.attr_ctoks in Ects. rewrite Hv, Hpre in Ects.
  split; [exact Ects|].
  destruct (cscan_head parse_ok (a_vstart a) v cts Ects) as [q [b [Evq Hisq]]]. subst v.
  unfold vq in Hq. destruct (Hq Hisq) as [b' [Eb Hni]]. subst b.
  split; [exact (cscan_quoted_concat parse_ok (a_vstart a) q b' cts Hisq Hni Ects)|].
  split; [exists q, b'; split; [reflexivity|split; [exact Hisq|exact Hni]]|].
  intros c Hin Hk. exact (cscan_code_compiled parse_ok (a_vstart a) (q :: b' ++ [q]) cts c Ects Hin Hk).
Qed.

(* the accepted value is  quote (literal | ${ code })* quote : every ${ has its } *)
Theorem scan_all_wellformed_gen : forall src toks, scan_html src = inl toks ->
  forall t a v cts, In t toks -> In a (t_attrs t) ->
  prefixb attr_prefix (a_name a) = true -> a_value a = Some v -> attr_ctoks a = inl cts ->
  exists o mid c, cts = o :: mid ++ [c] /\ c_kind o = BegEnd /\ c_kind c = BegEnd /\
     (body mid \/ exists mid' c', mid = mid' ++ [c'] /\ body mid' /\ c_kind c' = BegEnd).
Proof.
  intros src toks _ t a v cts _ _ Hpre Hv Ects.
  unfold Pipeline.attr_ctoks in Ects. rewrite Hv, Hpre in Ects.
  exact (cscan_wellformed parse_ok (a_vstart a) v cts Ects).
Qed.

Theorem load_tokens : forall src root, load src = inl root ->
  exists toks, scan_html src = inl toks /\ flatten root = toks.
Proof.
  intros src root H. unfold Pipeline.load in H. fold (scan_html src) in H.
  destruct (scan_html src) as [toks|e]; [|discriminate H].
  injection H as H. subst root. exists toks. split; [reflexivity|]. apply build_flatten.
Qed.
End Doc.

(* ---------- with the block compiler of the loader: exp.ParseCode ---------- *)
Section Final.
Variable is_space : rune -> bool.
Variable to_lower : rune -> rune.
Variable text_tags : list str.
Variable void_elements : list str.
Variable attr_prefix : str.
Variable is_letter : rune -> bool.
Variable is_udigit : rune -> bool.
Notation pok := (Manager.pok is_letter is_udigit).
Notation parse_code := (Parse.parse_code is_letter is_udigit).
Notation lex := (Lex.lex is_letter is_udigit).
Notation attr_ctoks := (Pipeline.attr_ctoks attr_prefix pok).
Notation scan_html := (Pipeline.scan_html is_space to_lower text_tags attr_prefix pok).
Notation load := (Pipeline.load is_space to_lower text_tags void_elements attr_prefix pok).

(* the block compiler of Manager.add_file and the one the executor reads the tokens with are the same function *)
Lemma pok_is_exec_parse_ok : Manager.pok is_letter is_udigit = Exec.parse_ok is_letter is_udigit.
Proof. reflexivity. Qed.

(* the whole text of the block is the expression: its tokens are those of the tree, then blank end-of-statement tokens only *)
Definition parsed_whole (s : str) : Prop :=
  exists e ts rest, parse_code s = Some e /\ lex s = Some ts /\
    map ParseYield.shape ts = map ParseYield.shape (ParseSpec.print e ++ rest) /\ only_blank_eos rest = true.

Lemma pok_whole : forall p s, pok p s = true -> parsed_whole s.
Proof.
  intros p s H. unfold Manager.pok in H.
  destruct (parse_code s) as [e|] eqn:E; [|discriminate H].
  destruct (parse_code_whole is_letter is_udigit s e E) as [ts [rest [Hl [Hs Hb]]]].
  exists e, ts, rest. split; [exact E|]. split; [exact Hl|]. split; [exact Hs|exact Hb].
Qed.

(* 1. every directive attribute of every token of an accepted document *)
Theorem scan_all_compiled : forall src toks, scan_html src = inl toks ->
  forall t a v, In t toks -> In a (t_attrs t) ->
  prefixb attr_prefix (a_name a) = true -> a_value a = Some v ->
  exists cts,
    attr_ctoks a = inl cts /\
    concat (map c_value cts) = v /\
    (exists q b, v = q :: b ++ [q] /\ isq q = true /\ ~ In q b) /\
    (forall c, In c cts -> c_kind c = CodeValue -> parsed_whole (c_value c)).
Proof.
  intros src toks Hscan t a v Ht Ha Hpre Hv.
  destruct (scan_all_compiled_gen is_space to_lower text_tags attr_prefix pok src toks Hscan t a v Ht Ha Hpre Hv)
    as [cts [H1 [_ [H3 [H4 H5]]]]].
  exists cts. split; [exact H1|]. split; [exact H3|]. split; [exact H4|].
  intros c Hin Hk. exact (pok_whole (c_start c) (c_value c) (H5 c Hin Hk)).
Qed.

(* 2. the same for every node of the loaded tree (open tags and end tags) *)
Theorem load_all_compiled : forall src root, load src = inl root ->
  forall n t a v, In n (PureRenderTree.nodes root) -> n_tok n = Some t \/ n_end n = Some t ->
  In a (t_attrs t) -> prefixb attr_prefix (a_name a) = true -> a_value a = Some v ->
  exists cts,
    attr_ctoks a = inl cts /\
    concat (map c_value cts) = v /\
    (exists q b, v = q :: b ++ [q] /\ isq q = true /\ ~ In q b) /\
    (forall c, In c cts -> c_kind c = CodeValue -> parsed_whole (c_value c)).
Proof.
  intros src root Hload n t a v Hn Ht Ha Hpre Hv.
  destruct (load_tokens is_space to_lower text_tags void_elements attr_prefix pok src root Hload) as [toks [Hscan Hfl]].
  pose proof (nodes_flatten root n t Hn Ht) as Hin. rewrite Hfl in Hin.
  exact (scan_all_compiled src toks Hscan t a v Hin Ha Hpre Hv).
Qed.

(* 3. the contrapositive. The blocks are delimited by the splitter alone (no_compile: no block compiler):
   in an accepted document no directive value makes the splitter fail (open block, open string, missing or
   unbalanced quote), and no block it delimits is refused by the expression parser *)
Theorem bad_value_never_loads : forall src toks, scan_html src = inl toks ->
  forall t a v, In t toks -> In a (t_attrs t) ->
  prefixb attr_prefix (a_name a) = true -> a_value a = Some v ->
  (forall e, cscan no_compile (a_vstart a) v <> inr e) /\
  (forall e, cscan pok (a_vstart a) v <> inr e) /\
  (forall cts c, cscan no_compile (a_vstart a) v = inl cts -> In c cts -> c_kind c = CodeValue ->
     parse_code (c_value c) <> None).
Proof.
  intros src toks Hscan t a v Ht Ha Hpre Hv.
  destruct (scan_all_compiled_gen is_space to_lower text_tags attr_prefix pok src toks Hscan t a v Ht Ha Hpre Hv)
    as [cts [_ [H2 [_ [_ H5]]]]].
  pose proof (cscan_no_compile pok (a_vstart a) v cts H2) as Hn.
  split; [intros e He; rewrite Hn in He; discriminate He|].
  split; [intros e He; rewrite H2 in He; discriminate He|].
  intros cts' c Hc Hin Hk. rewrite Hn in Hc. injection Hc as Hc. subst cts'.
  specialize (H5 c Hin Hk). unfold Manager.pok in H5.
  destruct (parse_code (c_value c)); [discriminate|discriminate H5].
Qed.

Corollary bad_value_never_loads_tree : forall src root, load src = inl root ->
  forall n t a v, In n (PureRenderTree.nodes root) -> n_tok n = Some t \/ n_end n = Some t ->
  In a (t_attrs t) -> prefixb attr_prefix (a_name a) = true -> a_value a = Some v ->
  (forall e, cscan no_compile (a_vstart a) v <> inr e) /\
  (forall e, cscan pok (a_vstart a) v <> inr e) /\
  (forall cts c, cscan no_compile (a_vstart a) v = inl cts -> In c cts -> c_kind c = CodeValue ->
     parse_code (c_value c) <> None).
Proof.
  intros src root Hload n t a v Hn Ht Ha Hpre Hv.
  destruct (load_tokens is_space to_lower text_tags void_elements attr_prefix pok src root Hload) as [toks [Hscan Hfl]].
  pose proof (nodes_flatten root n t Hn Ht) as Hin. rewrite Hfl in Hin.
  exact (bad_value_never_loads src toks Hscan t a v Hin Ha Hpre Hv).
Qed.
End Final.

Print Assumptions scan_all_compiled.
Print Assumptions load_all_compiled.
Print Assumptions bad_value_never_loads.
Print Assumptions bad_value_never_loads_tree.

(* ================= Part D ================= *)
(* Non-vacuity, by computation with the ASCII tables of Proofs/ReadbackExample.v (prefix = colon, raw-text tags
   script and style): each defect the property lists, inside a small document, for a text, a dynamic-attribute,
   an if, a with and a range directive, makes the loader FAIL; the repaired documents load. *)
Module LoadExamples.
Import ReadbackExample.
Open Scope string_scope.
Definition ld (s : string) :=
  Pipeline.load bx_space bx_lower bx_tags [] [58] (Manager.pok bx_letter bx_digit) (s2l s).
Definition verdict (s : string) : option serr := match ld s with inl _ => None | inr e => Some e end.
Definition nl : string := String (ascii_of_nat 10) EmptyString.
(* the document  <p DIR=QUOTE lead block QUOTE>x</p>  *)
Definition doc (dir lead block : string) : string := "<p " ++ dir ++ "=""" ++ lead ++ block ++ """>x</p>".
Definition dirs : list (string * string) :=
  [ (":text", ""); (":href", "/u/"); (":if", ""); (":with", "w := "); (":range", "i, x : ") ].
Definition table (blocks : list string) : list (list (option serr)) :=
  map (fun d => map (fun b => verdict (doc (fst d) (snd d) b)) blocks) dirs.

(* trailing text after a complete expression: blank, semicolon, newline, lone semicolon;
   unterminated block (also with a nested brace, also a second block); unterminated string (single quote,
   back quote, and the double quote that ends the attribute early); unterminated block comment *)
Definition bad_blocks : list string :=
  [ "${a b}"; "${a; b}"; "${a" ++ nl ++ "b}"; "${a;}";
    "${a"; "${a ${b}"; "${a}${";
    "${'a}"; "${`a}"; "${""a}";
    "${a /* c}" ].
Definition good_blocks : list string :=
  [ "${a}"; "${ a }"; "${a /* c */}"; "${a // c" ++ nl ++ "}"; "${'a'}"; "${a}${b}"; "x${a}y"; "" ].

Example every_listed_defect_fails_to_load :
  table bad_blocks = map (fun _ => map (fun _ => Some ECompile) bad_blocks) dirs.
Proof. vm_compute. reflexivity. Qed.
Example repaired_documents_load :
  table good_blocks = map (fun _ => map (fun _ => None) good_blocks) dirs.
Proof. vm_compute. reflexivity. Qed.

(* unbalanced quotes around the value, an unquoted or empty directive value; the last attribute before a
   self-closing slash, blanks around the equals sign, an attribute after a bare else, a later attribute,
   an attribute of a void element deep in the tree: all consulted, all rejected *)
Example unbalanced_quotes_fail_to_load :
  map verdict [ "<p :text=${a}"">x</p>"; "<p :text=""${a}>x</p>"; "<p :text=""${a}'>x</p>"; "<p :text='${a}"">x</p>";
                "<p :text='${'a'}'>x</p>"; "<p :text=${a}>x</p>"; "<p :text=>x</p>" ]
  = [ Some ECompile; Some EUnexpectedEOF; Some EUnexpectedEOF; Some EUnexpectedEOF;
      Some ECompile; Some ECompile; Some ECompile ].
Proof. vm_compute. reflexivity. Qed.
Example every_attribute_position_is_consulted :
  map verdict [ "<p :text=""${a b}""/>"; "<p :text = ""${a b}"">x</p>"; "<p :else :text=""${a b}"">x</p>";
                "<p class=k :text=""${a}"" :if=""${a b}"">x</p>"; "<div><p>t</p><br :title=""${a b}""></div>" ]
  = [ Some ECompile; Some ECompile; Some ECompile; Some ECompile; Some ECompile ].
Proof. vm_compute. reflexivity. Qed.
(* what is NOT a directive value is not compiled: a plain attribute, a value-less directive, markup inside a
   comment or a raw-text element *)
Example exempt_text_loads :
  map verdict [ "<p title=""${a b}"">x</p>"; "<p :text>x</p>"; "<p :else>x</p>";
                "<!-- <p :text=""${a b}""> -->"; "<script><p :text=""${a b}""></script>" ]
  = [ None; None; None; None; None ].
Proof. vm_compute. reflexivity. Qed.

(* FINDING. Only ${ } blocks are compiled at load. The object expression of a range directive is written
   WITHOUT a block (range = QUOTE i, x : xs QUOTE) and the names of a with directive are literal text: both
   are parsed when the template is rendered (processRange compiles the object, WithAssign checks the names).
   Trailing text after the range expression is therefore a render-time syntax error, not a load-time one
   (it is not silently ignored: the render fails and writes nothing for the element). *)
Example range_object_not_compiled_at_load :
  verdict "<p :range=""i, x : xs ys"">x</p>" = None /\
  (let '(_, _, obj) := Exec.extract_range bx_space (Exec.strip_quotes (s2l """i, x : xs ys""")) in
   obj = s2l "xs ys" /\ Parse.parse_code bx_letter bx_digit obj = None) /\
  verdict "<p :with=""w ${a}"">x</p>" = None.
Proof. vm_compute. repeat split. Qed.
Example range_object_is_a_render_time_error :
  let sc := Exp.Eval.SData (Value.VMap [(s2l "xs", Value.VSeq false [Value.VStr (s2l "u")] []); (s2l "a", Value.VStr (s2l "u"))]) in
  let run n := let '(out, res, _, _) := bx_node 5 0 [n] n sc true [] st0 in (out, res) in
  run (elem "<p :range=""i, x : xs ys"">x</p>") = ([], Exec.RErr Exec.RSyntax) /\
  run (elem "<p :with=""w ${a}"">x</p>") = ([], Exec.RErr Exec.RSyntax) /\
  run (elem "<p :range=""i, x : xs"" :text=""${x}"">x</p>") = (s2l "<p>u</p>", Exec.ROk).
Proof. vm_compute. repeat split. Qed.
End LoadExamples.
