(* Model of the ANTLR parser generated from exp/parser/GoExpression.g4: precedence climbing that
   mirrors the generated expression(_p) loop (Precpred levels and right-operand precedences as in
   goexpression_parser.go), fuelled by the token count.  Error recovery is not modelled: any
   syntax error is a rejection. *)
From Tpl Require Export Exp.Lex.
From Coq Require Import Arith.
Open Scope N_scope.

Inductive unop := UPlus | UMinus | UNot | UCaret | UStar | UAmp | URecv.
Inductive binop :=
| BMul | BDiv | BMod | BShl | BShr | BAnd | BAndNot        (* level 6 *)
| BAdd | BSub | BOr | BXor                                 (* level 5 *)
| BEq | BNe | BLt | BLe | BGt | BGe                        (* level 4 *)
| BLAnd                                                    (* level 3 *)
| BLOr.                                                    (* level 2 *)
Inductive litkind := LNil | LInt | LFloat | LImag | LStr.

Inductive expr :=
| ELit (k : litkind) (text : str) (line col : N)
| EName (s : str) (line col : N)
| EParen (e : expr)
| EUnary (op : unop) (e : expr) (line col : N)          (* position of the operator token *)
| EBin (op : binop) (a b : expr) (line col : N)
| ECond (c a b : expr)
| EField (e : expr) (safe : bool) (name : str)
| EIndex (e i : expr)
| ESlice (e : expr) (lo hi : option expr)
| ESlice3 (e : expr) (lo : option expr) (hi cap : expr)
| ECall (f : expr) (args : list expr) (ellipsis comma : bool).

Definition blevel (b : binop) : nat :=
  match b with
  | BMul | BDiv | BMod | BShl | BShr | BAnd | BAndNot => 6
  | BAdd | BSub | BOr | BXor => 5
  | BEq | BNe | BLt | BLe | BGt | BGe => 4
  | BLAnd => 3
  | BLOr => 2
  end.
Definition binop_of (p : punct) : option binop :=
  match p with
  | STAR => Some BMul | DIV => Some BDiv | MOD => Some BMod | LSHIFT => Some BShl | RSHIFT => Some BShr
  | AMP => Some BAnd | BITCLEAR => Some BAndNot
  | PLUS => Some BAdd | MINUS => Some BSub | OR => Some BOr | CARET => Some BXor
  | EQ => Some BEq | NE => Some BNe | LT => Some BLt | LE => Some BLe | GT => Some BGt | GE => Some BGe
  | LAND => Some BLAnd | LOR => Some BLOr
  | _ => None
  end.
Definition unop_of (p : punct) : option unop :=
  match p with
  | PLUS => Some UPlus | MINUS => Some UMinus | EXCL => Some UNot | CARET => Some UCaret
  | STAR => Some UStar | AMP => Some UAmp | RECEIVE => Some URecv
  | _ => None
  end.

(* precedence constants of the generated parser *)
Definition unary_operand_prec := 7%nat.
Definition cond_level := 1%nat.
Definition cond_mid_prec := 0%nat.
Definition cond_right_prec := 2%nat.     (* 2, not 1: the conditional operator is LEFT-associative *)

Definition pres := option (expr * list etok).
Definition is_p (p : punct) (t : etok) : bool :=
  match e_kind t with TP q => (match p, q with
    | LPAREN, LPAREN | RPAREN, RPAREN | LBRACK, LBRACK | RBRACK, RBRACK | COMMA, COMMA | COLON, COLON
    | DOT, DOT | SAFEINDEX, SAFEINDEX | ELLIPSIS, ELLIPSIS | QUESTION, QUESTION => true | _, _ => false end)
  | _ => false end.

Section P.
(* pe f = the expression parser with fuel f (knot tied in parse_expr below) *)
Variable pe : nat -> list etok -> pres.

(* expressionList: expression (COMMA expression)*  — stops before a trailing "," ")" or "..." *)
Fixpoint parse_args (k : nat) (ts : list etok) (acc : list expr) : option (list expr * list etok) :=
  match k with
  | O => None
  | S k' =>
    match pe 0%nat ts with
    | Some (e, r) =>
      match r with
      | t :: (t2 :: _) as r' =>
        if is_p COMMA t && negb (is_p RPAREN t2) then parse_args k' (tl r) (e :: acc)
        else Some (rev (e :: acc), r)
      | _ => Some (rev (e :: acc), r)
      end
    | None => None
    end
  end.

(* the postfix loop of primaryExpr: .id ?.id [e] [lo:hi] [lo:hi:cap] (args) *)
Fixpoint postfix (k : nat) (e : expr) (ts : list etok) : pres :=
  match k with
  | O => None
  | S k' =>
    match ts with
    | t :: r =>
      if is_p DOT t || is_p SAFEINDEX t then
        match r with
        | n :: r2 => match e_kind n with
                     | TIdent => postfix k' (EField e (is_p SAFEINDEX t) (e_text n)) r2
                     | _ => None end
        | [] => None
        end
      else if is_p LBRACK t then
        (* index | slice *)
        let lo_r := match r with
                    | c :: _ => if is_p COLON c then Some (None, r) else
                                 match pe 0%nat r with Some (lo, r1) => Some (Some lo, r1) | None => None end
                    | [] => None end in
        match lo_r with
        | None => None
        | Some (lo, r1) =>
          match r1 with
          | c :: r2 =>
            if is_p RBRACK c then
              match lo with Some i => postfix k' (EIndex e i) r2 | None => None end
            else if is_p COLON c then
              match r2 with
              | c2 :: r3 =>
                if is_p RBRACK c2 then postfix k' (ESlice e lo None) r3
                else match pe 0%nat r2 with
                     | Some (hi, r4) =>
                       match r4 with
                       | c3 :: r5 =>
                         if is_p RBRACK c3 then postfix k' (ESlice e lo (Some hi)) r5
                         else if is_p COLON c3 then
                           match pe 0%nat r5 with
                           | Some (cp, c4 :: r6) => if is_p RBRACK c4 then postfix k' (ESlice3 e lo hi cp) r6 else None
                           | _ => None
                           end
                         else None
                       | [] => None
                       end
                     | None => None
                     end
              | [] => None
              end
            else None
          | [] => None
          end
        end
      else if is_p LPAREN t then
        match r with
        | c :: r1 =>
          if is_p RPAREN c then postfix k' (ECall e [] false false) r1
          else match parse_args (S (length r)) r [] with
               | Some (args, r2) =>
                 let '(ell, r3) := match r2 with c2 :: r' => if is_p ELLIPSIS c2 then (true, r') else (false, r2) | [] => (false, r2) end in
                 let '(cm, r4) := match r3 with c2 :: r' => if is_p COMMA c2 then (true, r') else (false, r3) | [] => (false, r3) end in
                 match r4 with
                 | c3 :: r5 => if is_p RPAREN c3 then postfix k' (ECall e args ell cm) r5 else None
                 | [] => None
                 end
               | None => None
               end
        | [] => None
        end
      else Some (e, ts)
    | [] => Some (e, ts)
    end
  end.

(* the left-recursion loop: while Precpred(ctx, level) *)
Fixpoint loop (p k : nat) (lhs : expr) (ts : list etok) : pres :=
  match k with
  | O => None
  | S k' =>
    match ts with
    | t :: ts' =>
      match e_kind t with
      | TP q =>
        match binop_of q with
        | Some b =>
          if Nat.leb p (blevel b) then
            match pe (S (blevel b)) ts' with
            | Some (rhs, r) => loop p k' (EBin b lhs rhs (e_line t) (e_col t)) r
            | None => None
            end
          else Some (lhs, ts)
        | None =>
          match q with
          | QUESTION =>
            if Nat.leb p cond_level then
              match pe cond_mid_prec ts' with
              | Some (m, c :: r1) =>
                if is_p COLON c then
                  match pe cond_right_prec r1 with
                  | Some (rhs, r2) => loop p k' (ECond lhs m rhs) r2
                  | None => None
                  end
                else None
              | _ => None
              end
            else Some (lhs, ts)
          | _ => Some (lhs, ts)
          end
        end
      | _ => Some (lhs, ts)
      end
    | [] => Some (lhs, ts)
    end
  end.
End P.

Definition lit_of (k : tkind) : option litkind :=
  match k with TNil => Some LNil | TInt => Some LInt | TFloat => Some LFloat | TImag => Some LImag | TStr => Some LStr | _ => None end.

Fixpoint parse_expr (fuel p : nat) (ts : list etok) {struct fuel} : pres :=
  match fuel with
  | O => None
  | S f =>
    match ts with
    | t :: ts' =>
      let k := S (length ts) in
      let after_primary (e : expr) (r : list etok) : pres :=
        match postfix (parse_expr f) k e r with
        | Some (e', r') => loop (parse_expr f) p k e' r'
        | None => None
        end in
      match e_kind t with
      | TIdent => after_primary (EName (e_text t) (e_line t) (e_col t)) ts'
      | TP q =>
        match q with
        | LPAREN =>
          match parse_expr f 0%nat ts' with
          | Some (e, c :: r) => if is_p RPAREN c then after_primary (EParen e) r else None
          | _ => None
          end
        | _ =>
          match unop_of q with
          | Some u =>
            match parse_expr f unary_operand_prec ts' with
            | Some (e, r) => loop (parse_expr f) p k (EUnary u e (e_line t) (e_col t)) r
            | None => None
            end
          | None => None
          end
        end
      | kd =>
        match lit_of kd with
        | Some lk => after_primary (ELit lk (e_text t) (e_line t) (e_col t)) ts'
        | None => None
        end
      end
    | [] => None
    end
  end.

(* ParseCode: one expression, then only EOS tokens that are not ';' (newlines, multi-line
   comments), then end of input. *)
Fixpoint only_blank_eos (ts : list etok) : bool :=
  match ts with
  | [] => true
  | t :: r => match e_kind t with
              | TEos => negb (str_eqb (e_text t) [cSEMI]) && only_blank_eos r
              | _ => false end
  end.

Section Code.
Variable is_letter : rune -> bool.
Variable is_udigit : rune -> bool.
(* "/*" always starts a comment: when it is not closed the lexer falls back to the operators '/' and '*';
   ParseCode rejects a '/' token immediately followed by a '*' token *)
Fixpoint open_comment (ts : list etok) : bool :=
  match ts with
  | a :: ((b :: _) as r) =>
    (match e_kind a, e_kind b with
     | TP DIV, TP STAR => N.eqb (e_line a) (e_line b) && N.eqb (e_col b) (e_col a + 1)
     | _, _ => false
     end) || open_comment r
  | _ => false
  end.
Definition parse_code (s : str) : option expr :=
  match lex is_letter is_udigit s with
  | Some ts =>
    if open_comment ts then None else
    match parse_expr (2 * length ts + 2) 0%nat ts with
    | Some (e, rest) => if only_blank_eos rest then Some e else None
    | None => None
    end
  | None => None
  end.
End Code.
