(* Decoding of literal tokens: strconv.ParseInt(text, 0, 64), strconv.ParseFloat(text, 64),
   strconv.Unquote (with the single-quote rewriting of exp/visitor.go). *)
From Tpl Require Export Exp.Value Exp.Lex Exp.Float.
Open Scope N_scope.

Definition strip_us (s : str) : str := filter (fun r => negb (N.eqb r 95)) s.
Definition digit_val (r : rune) : option Z :=
  if in_range 48 57 r then Some (Z.of_N (r - 48))
  else if in_range 97 102 r then Some (Z.of_N (r - 87))
  else if in_range 65 70 r then Some (Z.of_N (r - 55))
  else None.
Fixpoint digits_val (base : Z) (s : str) (acc : Z) : option Z :=
  match s with
  | [] => Some acc
  | c :: t => match digit_val c with
              | Some d => if (d <? base)%Z then digits_val base t (acc * base + d)%Z else None
              | None => None end
  end.
(* text is a token accepted by the lexer's integer rules *)
Definition parse_int_lit (text : str) : option Z :=
  let s := strip_us text in
  let r := match s with
           | z :: p :: t =>
             if N.eqb z 48 then
               if is_either 120 88 p then digits_val 16 t 0
               else if is_either 98 66 p then digits_val 2 t 0
               else if is_either 111 79 p then digits_val 8 t 0
               else digits_val 8 (p :: t) 0
             else digits_val 10 s 0
           | _ => digits_val 10 s 0
           end in
  match r with
  | Some v => if (v <? two63)%Z then Some v else None      (* value out of range: strconv error *)
  | None => None
  end.

(* split at the first rune satisfying f *)
Fixpoint split_at (f : rune -> bool) (s : str) : str * str :=
  match s with
  | [] => ([], [])
  | c :: t => if f c then ([], s) else let '(a, b) := split_at f t in (c :: a, b)
  end.
Definition parse_signed_dec (s : str) : option Z :=
  match s with
  | c :: t => if N.eqb c 45 then option_map Z.opp (digits_val 10 t 0)
              else if N.eqb c 43 then digits_val 10 t 0 else digits_val 10 s 0
  | [] => None
  end.
(* FLOAT_LIT token text -> bits, None = strconv range error (overflow) *)
Definition parse_float_lit (text : str) : option Z :=
  let s := strip_us text in
  let hex := match s with z :: x :: _ => N.eqb z 48 && is_either 120 88 x | _ => false end in
  let body := if hex then skipn 2 s else s in
  let '(mant, ex) := split_at (fun r => if hex then is_either 112 80 r else is_either 101 69 r) body in
  let '(ip, fp0) := split_at (fun r => N.eqb r 46) mant in
  let fp := match fp0 with _ :: t => t | [] => [] end in
  let e := match ex with _ :: t => parse_signed_dec t | [] => Some 0%Z end in
  match e with
  | None => None
  | Some e =>
    let r := if hex
             then option_map (fun m => f_of_Zexp m (e - 4 * Z.of_nat (length fp))) (digits_val 16 (ip ++ fp) 0)
             else option_map (fun m => f_of_dec m (e - Z.of_nat (length fp))) (digits_val 10 (ip ++ fp) 0) in
    match r with
    | Some b => if f_is_inf b then None else Some b
    | None => None
    end
  end.

(* strconv.Unquote on the body of a double-quoted literal (between the quotes).
   Result: Ok s | Err (syntax error -> panic in VisitLiteral) | Unmodelled (byte escapes >= 0x80). *)
Definition hexval (s : str) : option Z := digits_val 16 s 0.
Fixpoint unquote_body (fuel : nat) (q : rune) (s : str) (acc : str) : res str :=
  match fuel with
  | O => Err COther
  | S f =>
    match s with
    | [] => Ok (rev acc)
    | c :: t =>
      if N.eqb c q then Err COther                     (* unescaped quote inside *)
      else if N.eqb c cNL then Err COther              (* newline in an interpreted string *)
      else if N.eqb c cBS then
        match t with
        | [] => Err COther
        | e :: t2 =>
          let simple (r : rune) := unquote_body f q t2 (r :: acc) in
          if N.eqb e 97 then simple 7 else if N.eqb e 98 then simple 8 else if N.eqb e 102 then simple 12
          else if N.eqb e 110 then simple 10 else if N.eqb e 114 then simple 13 else if N.eqb e 116 then simple 9
          else if N.eqb e 118 then simple 11 else if N.eqb e cBS then simple cBS
          else if N.eqb e cSQ || N.eqb e cDQ then (if N.eqb e q then simple e else Err COther)
          else if N.eqb e 120 then
            match hexval (firstn 2 t2) with
            | Some v => if Nat.eqb (length (firstn 2 t2)) 2 then
                          if (v <? 128)%Z then unquote_body f q (skipn 2 t2) (Z.to_N v :: acc) else Unmodelled
                        else Err COther
            | None => Err COther end
          else if N.eqb e 117 || N.eqb e 85 then
            let n := if N.eqb e 117 then 4%nat else 8%nat in
            match hexval (firstn n t2) with
            | Some v => if Nat.eqb (length (firstn n t2)) n then
                          if ((v <? 55296) || ((57343 <? v) && (v <=? 1114111)))%Z
                          then unquote_body f q (skipn n t2) (Z.to_N v :: acc) else Err COther
                        else Err COther
            | None => Err COther end
          else if is_oct e then
            match digits_val 8 (firstn 3 t) 0 with
            | Some v => if Nat.eqb (length (firstn 3 t)) 3 then
                          if (255 <? v)%Z then Err COther
                          else if (v <? 128)%Z then unquote_body f q (skipn 3 t) (Z.to_N v :: acc) else Unmodelled
                        else Err COther
            | None => Err COther end
          else Err COther
        end
      else unquote_body f q t (c :: acc)
    end
  end.

(* the single-quote -> double-quote rewriting of VisitLiteral: \' becomes ', an unescaped "
   becomes \", every other escape is kept *)
Fixpoint sq_to_dq (fuel : nat) (s : str) : str :=
  match fuel with
  | O => s
  | S f =>
    match s with
    | [] => []
    | c :: t =>
      if N.eqb c cBS then
        match t with
        | e :: t2 => if N.eqb e cSQ then cSQ :: sq_to_dq f t2 else cBS :: e :: sq_to_dq f t2
        | [] => [cBS]
        end
      else if N.eqb c cDQ then cBS :: cDQ :: sq_to_dq f t
      else c :: sq_to_dq f t
    end
  end.

Definition inner (s : str) : str := removelast (tl s).
Definition unquote_lit (text : str) : res str :=
  match text with
  | q :: _ =>
    if N.eqb q cBQ then Ok (filter (fun r => negb (N.eqb r cCR)) (inner text))
    else if N.eqb q cSQ then let b := sq_to_dq (S (length text)) (inner text) in unquote_body (S (length b)) cDQ b []
    else unquote_body (S (length text)) cDQ (inner text) []
  | [] => Err COther
  end.
