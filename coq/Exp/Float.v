(* float64 as Flocq binary64, kept as bit patterns (Z) in values so that values have a plain
   decidable equality; every operation converts, computes in Flocq, and converts back. *)
From Coq Require Import ZArith List.
From Flocq Require Import Core.Zaux Core.FLX IEEE754.BinarySingleNaN IEEE754.Binary IEEE754.Bits.
Open Scope Z_scope.

Lemma Hprec64 : Prec_gt_0 53. Proof. reflexivity. Qed.
Lemma Hmax64 : Prec_lt_emax 53 1024. Proof. reflexivity. Qed.

Definition fbits := Z.
Definition f_of_Zexp (m e : Z) : fbits := bits_of_b64 (binary_normalize 53 1024 Hprec64 Hmax64 mode_NE m e false).
Definition f_of_Z (z : Z) : fbits := f_of_Zexp z 0.
Definition f_add (a b : fbits) : fbits := bits_of_b64 (b64_plus mode_NE (b64_of_bits a) (b64_of_bits b)).
Definition f_sub (a b : fbits) : fbits := bits_of_b64 (b64_minus mode_NE (b64_of_bits a) (b64_of_bits b)).
Definition f_mul (a b : fbits) : fbits := bits_of_b64 (b64_mult mode_NE (b64_of_bits a) (b64_of_bits b)).
Definition f_div (a b : fbits) : fbits := bits_of_b64 (b64_div mode_NE (b64_of_bits a) (b64_of_bits b)).
Definition f_neg (a : fbits) : fbits := bits_of_b64 (b64_opp (b64_of_bits a)).
Definition f_cmp (a b : fbits) : option comparison := b64_compare (b64_of_bits a) (b64_of_bits b).
Definition f_is_nan (a : fbits) : bool := match b64_of_bits a with B754_nan _ _ _ _ _ => true | _ => false end.
Definition f_is_inf (a : fbits) : bool := match b64_of_bits a with B754_infinity _ _ _ => true | _ => false end.

(* Correctly rounded m * 10^e10 (m >= 0): exact when e10 >= 0; otherwise a quotient with at least
   64 significant bits plus a sticky bit, rounded once to nearest-even (round-to-odd argument). *)
Definition f_of_dec (m e10 : Z) : fbits :=
  if (0 <=? e10) then f_of_Z (m * 10 ^ e10)
  else
    let d := 10 ^ (- e10) in
    let s := Z.max 0 (66 + Z.log2 d - Z.log2 (Z.max m 1)) in
    let q := (m * 2 ^ s) / d in
    let r := (m * 2 ^ s) mod d in
    f_of_Zexp (2 * q + (if r =? 0 then 0 else 1)) (- (s + 1)).
