(* Go values as the evaluator sees them through reflect. *)
From Tpl Require Export Base.Runes.
From Coq Require Export ZArith.
Open Scope N_scope.

Inductive ikind := KInt | KInt8 | KInt16 | KInt32 | KInt64 | KUint | KUint8 | KUint16 | KUint32 | KUint64.

Inductive value :=
| VNil
| VBool (b : bool)
| VInt (k : ikind) (z : Z)
| VFloat (f32 : bool) (bits : Z)             (* binary64 bit pattern; float32 values already widened *)
| VStr (s : str)
| VSeq (arr : bool) (l : list value) (extra : list value)   (* slice/array; extra = elements between len and cap *)
| VMap (m : list (str * value))              (* string-keyed map *)
| VStruct (ty : N) (fields : list (str * (bool * value)))   (* name, exported, value; promoted fields included *)
| VPtr (addr : N) (ty : N) (target : option value)   (* None = nil pointer; ty = pointee type id *)
| VFunc (id : N) (bound : list value)        (* function or bound method value *)
| VOpaque (id : N).                          (* anything else (complex, chan, other named types) *)

(* outcome of an evaluation *)
Inductive cause := CNoSuchValue | CUser (sentinel : N) | COther.
Inductive res (A : Type) := Ok (a : A) | Err (c : cause) | Unmodelled.
Arguments Ok {A} a. Arguments Err {A} c. Arguments Unmodelled {A}.
Definition bind {A B} (r : res A) (f : A -> res B) : res B :=
  match r with Ok a => f a | Err c => Err c | Unmodelled => Unmodelled end.

(* three-valued lookup *)
Inductive lookup := Found (v : value) | Absent | Failed.

Definition two63 : Z := 9223372036854775808%Z.
Definition wrap64 (z : Z) : Z := ((z + two63) mod (2 * two63) - two63)%Z.

Definition kind_range (k : ikind) : Z * Z :=
  match k with
  | KInt | KInt64 => (- two63, two63 - 1)
  | KInt8 => (-128, 127) | KInt16 => (-32768, 32767) | KInt32 => (-2147483648, 2147483647)
  | KUint | KUint64 => (0, 2 * two63 - 1)
  | KUint8 => (0, 255) | KUint16 => (0, 65535) | KUint32 => (0, 4294967295)
  end%Z.
(* Go integer conversion T(x): wrap into the range of T *)
Definition wrap_kind (k : ikind) (z : Z) : Z :=
  let '(lo, hi) := kind_range k in
  let w := (hi - lo + 1)%Z in ((z - lo) mod w + lo)%Z.

(* IsInt: any integer kind as int64 (uint64 above MaxInt64 wraps) *)
Definition is_int (v : value) : option Z := match v with VInt _ z => Some (wrap64 z) | _ => None end.
Definition is_float (v : value) : option Z := match v with VFloat _ b => Some b | _ => None end.

(* UTF-8 length of a rune list (len() of a Go string counts bytes) *)
Definition utf8_len1 (r : rune) : Z := if r <? 128 then 1 else if r <? 2048 then 2 else if r <? 65536 then 3 else 4.
Definition utf8_len (s : str) : Z := fold_left (fun a r => (a + utf8_len1 r)%Z) s 0%Z.

(* decimal printing of Z / N *)
Fixpoint dec_digits (fuel : nat) (n : N) (acc : str) : str :=
  match fuel with
  | O => acc
  | S f => let acc' := (48 + n mod 10) :: acc in if n <? 10 then acc' else dec_digits f (n / 10) acc'
  end.
Definition str_of_N (n : N) : str := dec_digits 80 n [].
Definition str_of_Z (z : Z) : str :=
  match z with Z0 => [48] | Zpos p => str_of_N (Npos p) | Zneg p => cDASH :: str_of_N (Npos p) end.
