(* Model of exp/visitor.go, exp/reflects.go, exp/scope.go: a tree-walking evaluator in an error
   monad (first error wins, nothing is evaluated after it) that also logs user-function calls.
   User functions and method tables are oracles (Section variables). *)
From Tpl Require Export Exp.Parse Exp.Lit Exp.FloatFmt.
Open Scope N_scope.

Inductive fres := FOk (v : value) | FErrS (sentinel : N) | FPanic | FUnmodelled | FBadSecond | FBadCount
  | FBadArgs.   (* reflect rejects the argument count / types: the function body never runs *)
Definition call := (N * list value)%type.
Definition log := list call.                (* most recent first *)

Inductive scope := SData (v : value) | SCombine (s p : scope).

Definition assoc {A} (k : str) (l : list (str * A)) : option A :=
  match find (fun kv => str_eqb (fst kv) k) l with Some kv => Some (snd kv) | None => None end.

(* fmt "%v" for the values whose formatting is modelled *)
Definition join (sep : str) (l : list str) : str :=
  match l with [] => [] | x :: r => x ++ flat_map (fun y => sep ++ y) r end.
Fixpoint fmt_v (v : value) : option str :=
  match v with
  | VNil => Some [60;110;105;108;62]
  | VBool true => Some [116;114;117;101]
  | VBool false => Some [102;97;108;115;101]
  | VInt _ z => Some (str_of_Z z)
  | VFloat false b => fmt_float b      (* float64: shortest round-trip decimal; float32 values stay unmodelled *)
  | VStr s => Some s
  | VSeq _ l _ =>
    (fix go (l : list value) (acc : list str) : option str :=
       match l with
       | [] => Some ([cLBR] ++ join [cSP] (rev acc) ++ [cRBR])
       | x :: r => match fmt_v x with Some s => go r (s :: acc) | None => None end
       end) l []
  | _ => None
  end.

Section Eval.
Variable methods : N -> bool -> list (str * N).    (* type id, through a pointer? -> method name, function id *)
Variable call_fn : N -> list value -> fres.        (* user functions *)

Definition methods_of (v : value) : list (str * N) :=
  match v with
  | VStruct ty _ => methods ty false
  | VPtr _ ty _ => methods ty true
  | _ => []
  end.

(* strconv.ParseInt(name, 10, 64) for an index given as text *)
Definition parse_index (name : str) : option Z :=
  match name with
  | c :: t => let '(neg, ds) := if N.eqb c 45 then (true, t) else if N.eqb c 43 then (false, t) else (false, name) in
              match ds with
              | [] => None
              | _ => match digits_val 10 ds 0 with
                     | Some v => let v := if neg then (- v)%Z else v in
                                 if ((- two63 <=? v) && (v <? two63))%Z then Some v else None
                     | None => None end
              end
  | [] => None
  end.

(* getValue(name, from) *)
Definition get_value (name : str) (from : value) : lookup :=
  match from with
  | VNil => Absent
  | _ =>
    match assoc name (methods_of from) with
    | Some fid => Found (VFunc fid [from])
    | None =>
      let target := match from with VPtr _ _ (Some t) => Some t | VPtr _ _ None => None | v => Some v end in
      match target with
      | None => Absent
      | Some (VStruct _ fs) =>
        match assoc name fs with
        | Some (true, v) => Found v
        | Some (false, _) => Failed            (* unexported: reflect panics, recovered *)
        | None => Absent
        end
      | Some (VMap m) => match assoc name m with Some v => Found v | None => Absent end
      | Some (VSeq _ l _) =>
        match parse_index name with
        | None => Failed
        | Some i => let i := if (i <? 0)%Z then (Z.of_nat (length l) + i)%Z else i in
                    if ((0 <=? i) && (i <? Z.of_nat (length l)))%Z
                    then match nth_error l (Z.to_nat i) with Some v => Found v | None => Failed end
                    else Failed
        end
      | Some _ => Absent
      end
    end
  end.

Fixpoint sget (sc : scope) (name : str) : lookup :=
  match sc with
  | SData v => get_value name v
  | SCombine s p => match sget s name with Absent => sget p name | r => r end
  end.

(* ---------- built-in functions (exp/scope.go defaultScope) ---------- *)
Definition bi_len := 1000. Definition bi_cap := 1001. Definition bi_string := 1002.
Definition bi_float32 := 1013. Definition bi_float64 := 1014.
Definition bi_isNil := 1015. Definition bi_notNil := 1016. Definition bi_isNull := 1017. Definition bi_notNull := 1018.
Definition bi_other := 1019.   (* print printf println bytes runes duration: not modelled *)
Definition int_kinds : list (str * (N * ikind)) :=
  [ ([105;110;116], (1003, KInt)); ([105;110;116;56], (1004, KInt8)); ([105;110;116;49;54], (1005, KInt16));
    ([105;110;116;51;50], (1006, KInt32)); ([105;110;116;54;52], (1007, KInt64));
    ([117;105;110;116], (1008, KUint)); ([117;105;110;116;56], (1009, KUint8)); ([117;105;110;116;49;54], (1010, KUint16));
    ([117;105;110;116;51;50], (1011, KUint32)); ([117;105;110;116;54;52], (1012, KUint64)) ].
Definition builtins : list (str * value) :=
  [ ([116;114;117;101], VBool true); ([102;97;108;115;101], VBool false);
    ([115;116;114;105;110;103], VFunc bi_string []); ([98;121;116;101;115], VFunc bi_other []); ([114;117;110;101;115], VFunc bi_other []) ]
  ++ map (fun kv => (fst kv, VFunc (fst (snd kv)) [])) int_kinds ++
  [ ([102;108;111;97;116;51;50], VFunc bi_float32 []); ([102;108;111;97;116;54;52], VFunc bi_float64 []);
    ([100;117;114;97;116;105;111;110], VFunc bi_other []);
    ([105;115;78;105;108], VFunc bi_isNil []); ([110;111;116;78;105;108], VFunc bi_notNil []);
    ([105;115;78;117;108;108], VFunc bi_isNull []); ([110;111;116;78;117;108;108], VFunc bi_notNull []);
    ([108;101;110], VFunc bi_len []); ([99;97;112], VFunc bi_cap []);
    ([112;114;105;110;116], VFunc bi_other []); ([112;114;105;110;116;102], VFunc bi_other []); ([112;114;105;110;116;108;110], VFunc bi_other []) ].
Definition default_scope : scope := SData (VMap builtins).
Definition with_default (s : scope) : scope := SCombine s default_scope.

Definition is_builtin (id : N) : bool := (1000 <=? id) && (id <=? 1019).
Definition call_builtin (id : N) (args : list value) : res value :=
  match args with
  | [a] =>
    if N.eqb id bi_len then
      match a with
      | VStr s => Ok (VInt KInt (utf8_len s))
      | VSeq _ l _ => Ok (VInt KInt (Z.of_nat (length l)))
      | VMap m => Ok (VInt KInt (Z.of_nat (length m)))
      | VOpaque _ => Unmodelled
      | _ => Err COther
      end
    else if N.eqb id bi_cap then
      match a with
      | VSeq _ l ex => Ok (VInt KInt (Z.of_nat (length l + length ex)))
      | VOpaque _ => Unmodelled
      | _ => Err COther
      end
    else if N.eqb id bi_string then
      match a with
      | VStr s => Ok (VStr s)
      | VNil | VBool _ | VInt _ _ => match fmt_v a with Some s => Ok (VStr s) | None => Unmodelled end
      | _ => Unmodelled
      end
    else if (1003 <=? id) && (id <=? 1012) then
      match find (fun kv => N.eqb (fst (snd kv)) id) int_kinds with
      | Some (_, (_, k)) =>
        match a with
        | VInt _ z => Ok (VInt k (wrap_kind k z))
        | VStr _ | VBool _ => Err COther
        | _ => Unmodelled
        end
      | None => Unmodelled
      end
    else if N.eqb id bi_float64 then
      match a with
      | VInt _ z => Ok (VFloat false (f_of_Z z))
      | VFloat _ b => Ok (VFloat false b)
      | VStr _ | VBool _ => Err COther
      | _ => Unmodelled
      end
    else if N.eqb id bi_isNil then Ok (VBool false)
    else if N.eqb id bi_notNil then Ok (VBool true)
    else if N.eqb id bi_isNull || N.eqb id bi_notNull then
      let r := match a with
               | VPtr _ _ None => Ok true
               | VPtr _ _ (Some _) => Ok false
               | VFunc _ _ => Ok false
               | VBool _ | VInt _ _ | VFloat _ _ | VStr _ | VStruct _ _ => Err COther
               | VSeq true _ _ => Err COther
               | _ => Unmodelled
               end in
      bind r (fun b => Ok (VBool (if N.eqb id bi_isNull then b else negb b)))
    else Unmodelled
  | _ => if N.eqb id bi_other || N.eqb id bi_float32 then Unmodelled else Err COther   (* reflect: wrong argument count *)
  end.

(* ---------- operators ---------- *)
Definition any_opaque (a b : value) : bool :=
  match a, b with VOpaque _, _ | _, VOpaque _ => true | _, _ => false end.

Definition int_bin (op : binop) (i j : Z) : res value :=
  let ok z := Ok (VInt KInt64 (wrap64 z)) in
  match op with
  | BAdd => ok (i + j)%Z | BSub => ok (i - j)%Z | BMul => ok (i * j)%Z
  | BDiv => if (j =? 0)%Z then Err COther else ok (Z.quot i j)
  | BMod => if (j =? 0)%Z then Err COther else ok (Z.rem i j)
  | BShl => if (j <? 0)%Z then Err COther else if (64 <=? j)%Z then ok 0%Z else ok (i * 2 ^ j)%Z
  | BShr => if (j <? 0)%Z then Err COther else if (64 <=? j)%Z then ok (if (i <? 0)%Z then (-1)%Z else 0%Z) else ok (Z.shiftr i j)
  | BAnd => ok (Z.land i j) | BAndNot => ok (Z.ldiff i j) | BOr => ok (Z.lor i j) | BXor => ok (Z.lxor i j)
  | _ => Err COther
  end.
Definition float_bin (op : binop) (a b : Z) : res value :=
  match op with
  | BAdd => Ok (VFloat false (f_add a b)) | BSub => Ok (VFloat false (f_sub a b))
  | BMul => Ok (VFloat false (f_mul a b)) | BDiv => Ok (VFloat false (f_div a b))
  | _ => Err COther
  end.
(* binaryOp3: int/float (complex not modelled) *)
Definition num_bin (op : binop) (l r : value) : res value :=
  if any_opaque l r then Unmodelled else
  match is_int l, is_float l, is_int r, is_float r with
  | Some i, _, Some j, _ => int_bin op i j
  | Some i, _, _, Some g => float_bin op (f_of_Z i) g
  | _, Some f, Some j, _ => float_bin op f (f_of_Z j)
  | _, Some f, _, Some g => float_bin op f g
  | _, _, _, _ => Err COther
  end.
Definition int_only_bin (op : binop) (l r : value) : res value :=
  match is_int l, is_int r with
  | Some i, Some j => int_bin op i j
  | _, _ => Err COther
  end.

Definition cmp_holds (op : binop) (c : option comparison) : bool :=
  match op, c with
  | BLt, Some Lt => true | BLe, Some Lt => true | BLe, Some Eq => true
  | BGt, Some Gt => true | BGe, Some Gt => true | BGe, Some Eq => true
  | BEq, Some Eq => true
  | _, _ => false
  end.
(* ordering / numeric equality of two numbers, None when not both numeric *)
Definition num_compare (l r : value) : option (option comparison) :=
  match is_int l, is_float l, is_int r, is_float r with
  | Some i, _, Some j, _ => Some (Some (Z.compare i j))
  | Some i, _, _, Some g => Some (f_cmp (f_of_Z i) g)
  | _, Some f, Some j, _ => Some (f_cmp f (f_of_Z j))
  | _, Some f, _, Some g => Some (f_cmp f g)
  | _, _, _, _ => None
  end.
(* Go's == on two interface values that are not both numbers *)
Definition iface_eq (l r : value) : res bool :=
  match l, r with
  | VNil, VNil => Ok true
  | VBool a, VBool b => Ok (Bool.eqb a b)
  | VStr a, VStr b => Ok (str_eqb a b)
  | VPtr a ta _, VPtr b tb _ => Ok (N.eqb a b && N.eqb ta tb)
  | VFunc _ _, VFunc _ _ | VSeq _ _ _, VSeq _ _ _ | VMap _, VMap _ | VStruct _ _, VStruct _ _ => Unmodelled
  | VOpaque _, _ | _, VOpaque _ => Unmodelled
  | VInt _ _, VInt _ _ | VFloat _ _, VFloat _ _ | VInt _ _, VFloat _ _ | VFloat _ _, VInt _ _ => Ok false (* unreachable: numeric *)
  | _, _ => Ok false
  end.
Definition loose_equal (l r : value) : res bool :=
  match num_compare l r with
  | Some c => Ok (cmp_holds BEq c)
  | None => iface_eq l r
  end.
Definition rel_op (op : binop) (l r : value) : res value :=
  match op with
  | BEq => bind (loose_equal l r) (fun b => Ok (VBool b))
  | BNe => bind (loose_equal l r) (fun b => Ok (VBool (negb b)))
  | _ =>
    match num_compare l r with
    | Some c => Ok (VBool (cmp_holds op c))
    | None =>
      match l, r with
      | VStr a, VStr b => Ok (VBool (cmp_holds op (Some (str_compare a b))))
      | _, _ => if any_opaque l r then Unmodelled else Err COther
      end
    end
  end.

Definition add_op (l r : value) : res value :=
  match l, r with
  | VStr a, VStr b => Ok (VStr (a ++ b))
  | VStr a, _ => match fmt_v r with Some s => Ok (VStr (a ++ s)) | None => Unmodelled end
  | _, VStr b => match fmt_v l with Some s => Ok (VStr (s ++ b)) | None => Unmodelled end
  | _, _ => num_bin BAdd l r
  end.

Definition bin_op (op : binop) (l r : value) : res value :=
  match op with
  | BMul | BDiv => num_bin op l r
  | BMod | BShl | BShr | BAnd | BAndNot | BOr | BXor => int_only_bin op l r
  | BAdd => add_op l r
  | BSub => num_bin BSub l r
  | BEq | BNe | BLt | BLe | BGt | BGe => rel_op op l r
  | BLAnd => match l, r with VBool a, VBool b => Ok (VBool (a && b)) | _, _ => Err COther end
  | BLOr => match l, r with VBool a, VBool b => Ok (VBool (a || b)) | _, _ => Err COther end
  end.

Definition un_op (op : unop) (v : value) : res value :=
  match op with
  | UPlus => match is_int v, is_float v with
             | Some i, _ => Ok (VInt KInt64 i) | _, Some f => Ok (VFloat false f)
             | _, _ => match v with VOpaque _ => Unmodelled | _ => Err COther end end
  | UMinus => match is_int v, is_float v with
              | Some i, _ => Ok (VInt KInt64 (wrap64 (- i))) | _, Some f => Ok (VFloat false (f_neg f))
              | _, _ => match v with VOpaque _ => Unmodelled | _ => Err COther end end
  | UNot => match v with VBool b => Ok (VBool (negb b)) | _ => Err COther end
  | UCaret => match is_int v with Some i => Ok (VInt KInt64 (Z.lnot i)) | None => Err COther end
  | UStar => match v with
             | VPtr _ _ (Some t) => Ok t
             | VPtr _ _ None => Err COther
             | VOpaque _ => Unmodelled
             | _ => Err COther end
  | UAmp => Err COther
  | URecv => match v with VOpaque _ => Unmodelled | _ => Err COther end
  end.

(* rv.Slice / rv.Slice3 on a slice value *)
Definition slice_seq (l ex : list value) (lo hi : Z) (mx : option Z) : res value :=
  let all := l ++ ex in
  let cp := Z.of_nat (length all) in
  let m := match mx with Some m => m | None => cp end in
  if ((0 <=? lo) && (lo <=? hi) && (hi <=? m) && (m <=? cp))%Z then
    Ok (VSeq false (firstn (Z.to_nat (hi - lo)) (skipn (Z.to_nat lo) all))
                   (firstn (Z.to_nat (m - hi)) (skipn (Z.to_nat hi) all)))
  else Err COther.

Definition finish_call (id : N) (args : list value) (lg : log) : res value * log :=
  if existsb (fun a => match a with VNil => true | _ => false end) args then (Err COther, lg)   (* reflect: zero Value argument *)
  else if is_builtin id then (call_builtin id args, lg)
  else
    let lg' := (id, args) :: lg in
    match call_fn id args with
    | FBadArgs => (Err COther, lg)
    | FOk v => (Ok v, lg')
    | FErrS s => (Err (CUser s), lg')
    | FPanic => (Err COther, lg')
    | FBadSecond | FBadCount => (Err COther, lg')
    | FUnmodelled => (Unmodelled, lg')
    end.

Variable sc : scope.    (* already combined with the default scope *)

Definition thread {A B} (r : res A * log) (f : A -> log -> res B * log) : res B * log :=
  match r with
  | (Ok a, lg) => f a lg
  | (Err c, lg) => (Err c, lg)
  | (Unmodelled, lg) => (Unmodelled, lg)
  end.
Definition lift {A} (r : res A) (lg : log) : res A * log := (r, lg).
Definition as_int (v : value) : res Z :=
  match is_int v with Some i => Ok i | None => match v with VOpaque _ => Unmodelled | _ => Err COther end end.

Fixpoint eval (e : expr) (lg : log) {struct e} : res value * log :=
  match e with
  | ELit LNil _ _ _ => (Ok VNil, lg)
  | ELit LInt t _ _ => (match parse_int_lit t with Some z => Ok (VInt KInt64 z) | None => Err COther end, lg)
  | ELit LFloat t _ _ => (match parse_float_lit t with Some b => Ok (VFloat false b) | None => Err COther end, lg)
  | ELit LImag _ _ _ => (Unmodelled, lg)
  | ELit LStr t _ _ => (bind (unquote_lit t) (fun s => Ok (VStr s)), lg)
  | EName n _ _ =>
    (match sget sc n with Found v => Ok v | Absent => Err CNoSuchValue | Failed => Err COther end, lg)
  | EParen a => eval a lg
  | EUnary op a _ _ => thread (eval a lg) (fun v => lift (un_op op v))
  | EBin BLAnd a b _ _ =>
    thread (eval a lg) (fun l lg1 =>
      match l with
      | VBool false => (Ok (VBool false), lg1)
      | _ => thread (eval b lg1) (fun r => lift (bin_op BLAnd l r))
      end)
  | EBin BLOr a b _ _ =>
    thread (eval a lg) (fun l lg1 =>
      match l with
      | VBool true => (Ok (VBool true), lg1)
      | _ => thread (eval b lg1) (fun r => lift (bin_op BLOr l r))
      end)
  | EBin op a b _ _ =>
    thread (eval a lg) (fun l lg1 => thread (eval b lg1) (fun r => lift (bin_op op l r)))
  | ECond c a b =>
    thread (eval c lg) (fun cv lg1 =>
      match cv with
      | VBool true => eval a lg1
      | VBool false => eval b lg1
      | _ => (Err COther, lg1)
      end)
  | EField a _ name =>
    thread (eval a lg) (fun v => lift
      (match get_value name v with Found x => Ok x | Absent => Err CNoSuchValue | Failed => Err COther end))
  | EIndex a i =>
    thread (eval a lg) (fun v lg1 => thread (eval i lg1) (fun iv => lift
      (let name := match is_int iv, iv with
                   | Some z, _ => Ok (str_of_Z z)
                   | None, VStr s => Ok s
                   | None, VOpaque _ => Unmodelled
                   | None, _ => Err COther end in
       bind name (fun name =>
         match get_value name v with Found x => Ok x | Absent => Err CNoSuchValue | Failed => Err COther end))))
  | ESlice a lo hi =>
    thread (eval a lg) (fun v lg1 =>
      match v with
      | VSeq arr l ex =>
        let ev_opt (o : option expr) (dflt : Z) (lg : log) : res Z * log :=
          match o with None => (Ok dflt, lg) | Some x => thread (eval x lg) (fun xv => lift (as_int xv)) end in
        thread (ev_opt lo 0%Z lg1) (fun s lg2 =>
          thread (ev_opt hi (Z.of_nat (length l)) lg2) (fun e' => lift
            (if arr then Err COther else slice_seq l ex s e' None)))
      | VOpaque _ => (Unmodelled, lg1)
      | _ => (Err COther, lg1)
      end)
  | ESlice3 a lo hi cp =>
    thread (eval a lg) (fun v lg1 =>
      match v with
      | VSeq arr l ex =>
        thread (match lo with None => (Ok 0%Z, lg1) | Some x => thread (eval x lg1) (fun xv => lift (as_int xv)) end) (fun s lg2 =>
          thread (thread (eval hi lg2) (fun xv => lift (as_int xv))) (fun e' lg3 =>
            thread (thread (eval cp lg3) (fun xv => lift (as_int xv))) (fun m => lift
              (if arr then Err COther else slice_seq l ex s e' (Some m)))))
      | VOpaque _ => (Unmodelled, lg1)
      | _ => (Err COther, lg1)
      end)
  | ECall f args ell _ =>
    thread (eval f lg) (fun fv lg1 =>
      match fv with
      | VFunc id bound =>
        let fix eval_args (l : list expr) (acc : list value) (lg : log) : res (list value) * log :=
          match l with
          | [] => (Ok (rev acc), lg)
          | x :: r => thread (eval x lg) (fun v lg' => eval_args r (v :: acc) lg')
          end in
        thread (eval_args args [] lg1) (fun vs lg2 =>
          let vs' := if ell then
                       match rev vs with
                       | VSeq false l _ :: front => Ok (rev front ++ l)
                       | VOpaque _ :: _ => Unmodelled
                       | _ => Err COther
                       end
                     else Ok vs in
          match vs' with
          | Ok vs' => finish_call id (bound ++ vs') lg2
          | Err c => (Err c, lg2)
          | Unmodelled => (Unmodelled, lg2)
          end)
      | VOpaque _ => (Unmodelled, lg1)
      | _ => (Err COther, lg1)
      end)
  end.
End Eval.

Section Text.
Variable is_letter : rune -> bool.
Variable is_udigit : rune -> bool.
Variable methods : N -> bool -> list (str * N).
Variable call_fn : N -> list value -> fres.
(* exp.Evaluate on the text of a ${} block; a text that does not parse cannot have been loaded *)
Definition eval_text (sc : scope) (text : str) (lg : log) : res value * log :=
  match parse_code is_letter is_udigit text with
  | Some e => eval methods call_fn (with_default sc) e lg
  | None => (Err COther, lg)
  end.
End Text.
