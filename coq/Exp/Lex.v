(* Model of the ANTLR lexer generated from exp/parser/GoLexer.g4: maximal munch over explicit
   per-rule matchers, ties to the earlier rule, with the NLSEMI mode.  Unicode letter / digit
   classes are Section variables. *)
From Tpl Require Export Base.Runes.
From Coq Require Import Arith.
Open Scope N_scope.

Inductive punct := LPAREN | RPAREN | LCURLY | RCURLY | LBRACK | RBRACK | ASSIGN | COMMA | SEMI | COLON | DOT
 | PLUSPLUS | MINUSMINUS | DECLARE | ELLIPSIS | QUESTION | SAFEINDEX | LOR | LAND | EQ | NE | LT | LE | GT | GE
 | OR | DIV | MOD | LSHIFT | RSHIFT | BITCLEAR | UNDERLYING | EXCL | PLUS | MINUS | CARET | STAR | AMP | RECEIVE.

Inductive tkind :=
| TKw            (* a Go keyword: its own token class, never an operand *)
| TNil | TIdent
| TP (p : punct)
| TInt | TFloat | TImag
| TByteVal       (* BYTE_VALUE & co: not fragments in the grammar, so they are tokens *)
| TStr
| TEos.
Record etok := mkE { e_kind : tkind; e_text : str; e_line : N; e_col : N }.

Definition in_range (lo hi r : N) := N.leb lo r && N.leb r hi.
Definition is_dec (r : rune) := in_range 48 57 r.
Definition is_oct (r : rune) := in_range 48 55 r.
Definition is_bin (r : rune) := in_range 48 49 r.
Definition is_hex (r : rune) := in_range 48 57 r || in_range 97 102 r || in_range 65 70 r.
Definition is_r (c : N) (r : rune) := N.eqb r c.
Definition is_either (a b : N) (r : rune) := N.eqb r a || N.eqb r b.

Fixpoint span (f : rune -> bool) (s : str) : nat :=
  match s with c :: t => if f c then S (span f t) else O | [] => O end.

(* ('_'? D)* *)
Fixpoint udigits (d : rune -> bool) (s : str) : nat :=
  match s with
  | c :: t =>
    if d c then S (udigits d t)
    else if N.eqb c 95 then
      match t with
      | c2 :: t2 => if d c2 then S (S (udigits d t2)) else O
      | [] => O
      end
    else O
  | [] => O
  end.

Definition decimals (s : str) : nat :=   (* [0-9] ('_'? [0-9])* *)
  match s with c :: t => if is_dec c then S (udigits is_dec t) else O | [] => O end.
Definition exponent (e1 e2 : N) (s : str) : nat :=  (* [eE] [+-]? DECIMALS *)
  match s with
  | c :: t =>
    if is_either e1 e2 c then
      match t with
      | sg :: t2 => if is_either 43 45 sg then (match decimals t2 with O => O | n => S (S n) end)
                    else (match decimals t with O => O | n => S n end)
      | [] => O
      end
    else O
  | [] => O
  end.

Definition m_decimal (s : str) : nat :=
  match s with
  | c :: t => if N.eqb c 48 then 1%nat else if in_range 49 57 c then S (udigits is_dec t) else O
  | [] => O
  end.
Definition m_prefixed (p1 p2 : N) (d : rune -> bool) (s : str) : nat :=  (* '0' [pP] ('_'? D)+ *)
  match s with
  | z :: p :: t => if N.eqb z 48 && is_either p1 p2 p then (match udigits d t with O => O | n => S (S n) end) else O
  | _ => O
  end.
Definition m_binary := m_prefixed 98 66 is_bin.
Definition m_hex := m_prefixed 120 88 is_hex.
Definition m_octal (s : str) : nat :=   (* '0' [oO]? ('_'? OCT)+ *)
  match m_prefixed 111 79 is_oct s with
  | O => match s with
         | z :: t => if N.eqb z 48 then (match udigits is_oct t with O => O | n => S n end) else O
         | [] => O
         end
  | n => n
  end.
Definition m_dec_float (s : str) : nat :=
  match decimals s with
  | O => (* '.' DECIMALS EXPONENT? *)
    match s with
    | c :: t => if N.eqb c 46 then (match decimals t with O => O | n => S (n + exponent 101 69 (skipn n t)) end) else O
    | [] => O
    end
  | d =>
    match skipn d s with
    | c :: t => if N.eqb c 46
                then let d2 := decimals t in S (d + d2 + exponent 101 69 (skipn d2 t))
                else (match exponent 101 69 (c :: t) with O => O | n => (d + n)%nat end)
    | [] => O
    end
  end.
Definition m_hex_float (s : str) : nat :=
  match s with
  | z :: x :: t =>
    if N.eqb z 48 && is_either 120 88 x then
      let mant :=
        match udigits is_hex t with
        | O => match t with
               | c :: h :: t2 => if N.eqb c 46 && is_hex h then S (S (udigits is_hex t2)) else O
               | _ => O
               end
        | n => match skipn n t with
               | c :: t2 => if N.eqb c 46 then S (n + udigits is_hex t2) else n
               | [] => n
               end
        end in
      match mant with
      | O => O
      | m => match exponent 112 80 (skipn m t) with O => O | e => S (S (m + e)) end
      end
    else O
  | _ => O
  end.
Definition m_float (s : str) : nat := Nat.max (m_dec_float s) (m_hex_float s).
Definition with_i (n : nat) (s : str) : nat :=
  match n with O => O | _ => match skipn n s with c :: _ => if N.eqb c 105 then S n else O | [] => O end end.
Definition m_imag (s : str) : nat :=
  Nat.max (with_i (m_decimal s) s) (Nat.max (with_i (m_binary s) s) (Nat.max (with_i (m_octal s) s)
    (Nat.max (with_i (m_hex s) s) (Nat.max (with_i (m_dec_float s) s) (with_i (m_hex_float s) s))))).

(* ESCAPED_VALUE after the backslash: number of runes including the backslash, 0 = no match *)
Definition all_hex (n : nat) (s : str) : bool := Nat.leb n (span is_hex (firstn n s)).
Definition all_oct (n : nat) (s : str) : bool := Nat.leb n (span is_oct (firstn n s)).
Definition simple_escapes : str := [97; 98; 102; 110; 114; 116; 118; 92; 39; 34].
Definition m_escape (s : str) : nat :=   (* s starts after the backslash *)
  match s with
  | c :: t =>
    if N.eqb c 117 then (if all_hex 4 t then 6%nat else O)
    else if N.eqb c 85 then (if all_hex 8 t then 10%nat else O)
    else if existsb (N.eqb c) simple_escapes then 2%nat
    else if N.eqb c 120 then (if all_hex 2 t then 4%nat else O)
    else if all_oct 3 s then 4%nat
    else O
  | [] => O
  end.
Definition m_byteval (s : str) : nat :=  (* BYTE_VALUE | LITTLE_U_VALUE | BIG_U_VALUE *)
  match s with
  | b :: c :: t =>
    if N.eqb b cBS then
      if N.eqb c 117 then (if all_hex 4 t then 6%nat else O)
      else if N.eqb c 85 then (if all_hex 8 t then 10%nat else O)
      else if N.eqb c 120 then (if all_hex 2 t then 4%nat else O)
      else if all_oct 3 (c :: t) then 4%nat else O
    else O
  | _ => O
  end.

(* body of an interpreted / single-quoted string after the opening quote; returns length incl. the
   closing quote, 0 = unterminated or bad escape *)
Fixpoint m_qbody (fuel : nat) (q : rune) (s : str) : nat :=
  match fuel with
  | O => O
  | S f =>
    match s with
    | [] => O
    | c :: t =>
      if N.eqb c q then 1%nat
      else if N.eqb c cBS then
        match m_escape t with
        | O => O
        | n => match m_qbody f q (skipn (n - 1) t) with O => O | k => (n + k)%nat end
        end
      else match m_qbody f q t with O => O | k => S k end
    end
  end.
Definition m_string (s : str) : nat :=
  match s with
  | c :: t =>
    if N.eqb c cBQ then
      let n := span (fun r => negb (N.eqb r cBQ)) t in
      match skipn n t with _ :: _ => S (S n) | [] => O end
    else if N.eqb c cDQ || N.eqb c cSQ then (match m_qbody (S (length t)) c t with O => O | k => S k end)
    else O
  | [] => O
  end.

(* '/*' .*? '*/' : length up to and including the first "*/" ; nl=false forbids \r \n inside *)
Fixpoint m_comment_body (nl : bool) (s : str) : nat :=
  match s with
  | a :: t =>
    if N.eqb a cSTAR && (match t with b :: _ => N.eqb b cSLASH | [] => false end) then 2%nat
    else if negb nl && (N.eqb a cNL || N.eqb a cCR) then O
    else match m_comment_body nl t with O => O | k => S k end
  | [] => O
  end.
Definition m_comment (nl : bool) (s : str) : nat :=
  match s with
  | a :: b :: t => if N.eqb a cSLASH && N.eqb b cSTAR then (match m_comment_body nl t with O => O | k => S (S k) end) else O
  | _ => O
  end.
Definition m_line_comment (s : str) : nat :=
  match s with
  | a :: b :: t => if N.eqb a cSLASH && N.eqb b cSLASH then S (S (span (fun r => negb (N.eqb r cNL || N.eqb r cCR)) t)) else O
  | _ => O
  end.
Definition m_ws (s : str) : nat := span (fun r => N.eqb r cSP || N.eqb r cTAB) s.
Definition m_term (s : str) : nat := span (fun r => N.eqb r cNL || N.eqb r cCR) s.

Definition puncts : list (str * punct) :=
  [([40], LPAREN); ([41], RPAREN); ([123], LCURLY); ([125], RCURLY); ([91], LBRACK); ([93], RBRACK);
   ([61], ASSIGN); ([44], COMMA); ([59], SEMI); ([58], COLON); ([46], DOT); ([43;43], PLUSPLUS); ([45;45], MINUSMINUS);
   ([58;61], DECLARE); ([46;46;46], ELLIPSIS); ([63], QUESTION); ([63;46], SAFEINDEX); ([124;124], LOR); ([38;38], LAND);
   ([61;61], EQ); ([33;61], NE); ([60], LT); ([60;61], LE); ([62], GT); ([62;61], GE); ([124], OR); ([47], DIV); ([37], MOD);
   ([60;60], LSHIFT); ([62;62], RSHIFT); ([38;94], BITCLEAR); ([126], UNDERLYING); ([33], EXCL); ([43], PLUS); ([45], MINUS);
   ([94], CARET); ([42], STAR); ([38], AMP); ([60;45], RECEIVE)].
Fixpoint m_punct (tbl : list (str * punct)) (s : str) (best : option (nat * punct)) : option (nat * punct) :=
  match tbl with
  | [] => best
  | (p, k) :: r =>
    let best' := if prefixb p s
                 then match best with Some (n, _) => if Nat.ltb n (length p) then Some (length p, k) else best | None => Some (length p, k) end
                 else best in
    m_punct r s best'
  end.

Definition s_ (l : list N) : str := l.
Definition keywords : list str :=
  [ [98;114;101;97;107]; [100;101;102;97;117;108;116]; [102;117;110;99]; [105;110;116;101;114;102;97;99;101];
    [115;101;108;101;99;116]; [99;97;115;101]; [100;101;102;101;114]; [103;111]; [109;97;112]; [115;116;114;117;99;116];
    [99;104;97;110]; [101;108;115;101]; [103;111;116;111]; [112;97;99;107;97;103;101]; [115;119;105;116;99;104];
    [99;111;110;115;116]; [102;97;108;108;116;104;114;111;117;103;104]; [105;102]; [114;97;110;103;101]; [116;121;112;101];
    [99;111;110;116;105;110;117;101]; [102;111;114]; [105;109;112;111;114;116]; [114;101;116;117;114;110]; [118;97;114] ].
(* keywords that switch to NLSEMI: break fallthrough continue return *)
Definition nlsemi_keywords : list str :=
  [ [98;114;101;97;107]; [102;97;108;108;116;104;114;111;117;103;104]; [99;111;110;116;105;110;117;101]; [114;101;116;117;114;110] ].
Definition kw_nil : str := [110;105;108].

Section Lexer.
Variable is_letter : rune -> bool.   (* \p{L} *)
Variable is_udigit : rune -> bool.   (* \p{Nd} *)

Definition letter (r : rune) := is_letter r || N.eqb r 95.
Definition m_ident (s : str) : nat :=
  match s with c :: t => if letter c then S (span (fun r => letter r || is_udigit r) t) else O | [] => O end.

(* a candidate: length, kind, switches to NLSEMI afterwards, hidden *)
Record cand := mkCand { c_len : nat; c_tk : option tkind; c_nlsemi : bool }.
Definition pick (a b : cand) : cand := if Nat.ltb (c_len a) (c_len b) then b else a.  (* ties: the earlier *)
Definition none_c := mkCand O None false.

Definition lex_default (s : str) : cand :=
  let idn := m_ident s in
  let idt := firstn idn s in
  let c_id := if existsb (str_eqb idt) keywords then mkCand idn (Some TKw) (existsb (str_eqb idt) nlsemi_keywords)
              else if str_eqb idt kw_nil then mkCand idn (Some TNil) true
              else mkCand idn (Some TIdent) true in
  let c_p := match m_punct puncts s None with
             | Some (n, k) => mkCand n (Some (TP k))
                                (match k with RPAREN | RCURLY | RBRACK | PLUSPLUS | MINUSMINUS => true | _ => false end)
             | None => none_c end in
  fold_left pick
    [ c_p; mkCand (m_decimal s) (Some TInt) true; mkCand (m_binary s) (Some TInt) true;
      mkCand (m_octal s) (Some TInt) true; mkCand (m_hex s) (Some TInt) true;
      mkCand (m_float s) (Some TFloat) true; mkCand (m_imag s) (Some TImag) true;
      mkCand (m_byteval s) (Some TByteVal) false; mkCand (m_string s) (Some TStr) true;
      mkCand (m_ws s) None false; mkCand (m_comment true s) None false;
      mkCand (m_term s) None false; mkCand (m_line_comment s) None false ]
    c_id.

(* NLSEMI mode: c_nlsemi = stay in NLSEMI; a zero-length result is the OTHER rule (back to default) *)
Definition lex_nlsemi (s : str) : cand :=
  let eos_len := match s with
                 | c :: _ => if N.eqb c cSEMI then 1%nat else Nat.max (m_term s) (m_comment true s)
                 | [] => O end in
  fold_left pick
    [ mkCand (m_comment false s) None true; mkCand (m_line_comment s) None true; mkCand eos_len (Some TEos) false ]
    (mkCand (m_ws s) None true).

Fixpoint advance (line col : N) (s : str) : N * N :=
  match s with
  | [] => (line, col)
  | c :: t => if N.eqb c cNL then advance (line + 1) 0 t else advance line (col + 1) t
  end.

Fixpoint lex_loop (fuel : nat) (nlsemi : bool) (s : str) (line col : N) (acc : list etok) : option (list etok) :=
  match fuel with
  | O => None
  | S f =>
    match s with
    | [] => Some (rev acc)
    | _ =>
      let c := if nlsemi then lex_nlsemi s else lex_default s in
      match c_len c with
      | O => if nlsemi then lex_loop f false s line col acc   (* OTHER: back to the default mode *)
             else None                                       (* token recognition error *)
      | n =>
        let text := firstn n s in
        let '(l2, c2) := advance line col text in
        let acc' := match c_tk c with Some k => mkE k text line col :: acc | None => acc end in
        lex_loop f (c_nlsemi c) (skipn n s) l2 c2 acc'
      end
    end
  end.

Definition lex (s : str) : option (list etok) := lex_loop (2 * length s + 2) false s 1 0 [].
End Lexer.
