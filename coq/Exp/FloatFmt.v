(* fmt "%v" of a float64 (strconv.FormatFloat(x, 'g', -1, 64) as fmt applies it): the SHORTEST decimal that reads
   back as x (closest to x among the shortest), printed in %e form when the decimal exponent is < -4 or >= 6,
   otherwise in %f form.  Exact integer arithmetic on the bit pattern; no proofs depend on this file
   (fmt_v returns an option and is only ever destructed).  Validated against Go by the fmtfloat stream. *)
From Tpl Require Export Exp.Value.
From Coq Require Import List Bool.
Import ListNotations.
Open Scope Z_scope.

Definition zstr (z : Z) : str := str_of_Z z.          (* z >= 0 *)

(* rationals with a common denominator d > 0: x = xn/d, interval (lo, hi) = (ln/d, hn/d) *)
Record fdec := mkFD { fd_x : Z; fd_lo : Z; fd_hi : Z; fd_den : Z; fd_incl : bool }.

Definition decode (bits : Z) : Z * Z * Z := (bits / 2 ^ 63, (bits / 2 ^ 52) mod 2 ^ 11, bits mod 2 ^ 52).

Definition mk_fdec (ef mf : Z) : fdec :=
  let m := if ef =? 0 then mf else 2 ^ 52 + mf in
  let e := if ef =? 0 then -1074 else ef - 1075 in
  let lowgap := if (mf =? 0) && (1 <? ef) then 1 else 2 in      (* at a power of two the gap below is half *)
  let sh := e - 2 in
  if 0 <=? sh then mkFD (4 * m * 2 ^ sh) ((4 * m - lowgap) * 2 ^ sh) ((4 * m + 2) * 2 ^ sh) 1 (Z.even m)
  else mkFD (4 * m) (4 * m - lowgap) (4 * m + 2) (2 ^ (- sh)) (Z.even m).

(* floor(log10 (xn/d)) for xn, d > 0 *)
Definition pow10 (k : Z) : Z := 10 ^ k.
Definition ge_pow10 (xn d p : Z) : bool :=   (* xn/d >= 10^p *)
  if 0 <=? p then d * pow10 p <=? xn else d <=? xn * pow10 (- p).
Fixpoint adjust_up (fuel : nat) (xn d p : Z) : Z :=
  match fuel with O => p | S f => if ge_pow10 xn d (p + 1) then adjust_up f xn d (p + 1) else p end.
Fixpoint adjust_down (fuel : nat) (xn d p : Z) : Z :=
  match fuel with O => p | S f => if ge_pow10 xn d p then p else adjust_down f xn d (p - 1) end.
Definition floor_log10 (xn d : Z) : Z :=
  let p0 := ((Z.log2 xn - Z.log2 d) * 1233) / 4096 in
  adjust_up 6 xn d (adjust_down 6 xn d p0).

(* c * 10^k compared with n/d *)
Definition cmp_scaled (c k n d : Z) : comparison :=
  if 0 <=? k then Z.compare (c * pow10 k * d) n else Z.compare (c * d) (n * pow10 (- k)).
Definition inside (f : fdec) (c k : Z) : bool :=
  match cmp_scaled c k (fd_lo f) (fd_den f), cmp_scaled c k (fd_hi f) (fd_den f) with
  | Gt, Lt => true
  | Eq, Lt | Gt, Eq | Eq, Eq => fd_incl f
  | _, _ => false
  end.
(* |c*10^k - x| as a numerator over d * 10^max(0,-k) *)
Definition dist (f : fdec) (c k : Z) : Z :=
  if 0 <=? k then Z.abs (c * pow10 k * fd_den f - fd_x f) else Z.abs (c * fd_den f - fd_x f * pow10 (- k)).

(* shortest digits: returns (c, k) with value c*10^k *)
Fixpoint shortest (fuel : nat) (f : fdec) (p : Z) (n : Z) : option (Z * Z) :=
  match fuel with
  | O => None
  | S fu =>
    let k := p - n + 1 in
    let lo := if 0 <=? k then fd_x f / (fd_den f * pow10 k) else (fd_x f * pow10 (- k)) / fd_den f in
    let hi := lo + 1 in
    match inside f lo k, inside f hi k with
    | true, true => if dist f hi k <? dist f lo k then Some (hi, k)
                    else if dist f lo k <? dist f hi k then Some (lo, k)
                    else Some ((if Z.even lo then lo else hi), k)
    | true, false => Some (lo, k)
    | false, true => Some (hi, k)
    | false, false => shortest fu f p (n + 1)
    end
  end.

Fixpoint strip0 (fuel : nat) (c k : Z) : Z * Z :=
  match fuel with O => (c, k) | S f => if (c mod 10 =? 0) && negb (c =? 0) then strip0 f (c / 10) (k + 1) else (c, k) end.

Definition zeros (n : Z) : str := repeat 48%N (Z.to_nat n).

Definition fmt_pos (f : fdec) : option str :=
  let p := floor_log10 (fd_x f) (fd_den f) in
  match shortest 20 f p 1 with
  | None => None
  | Some (c0, k0) =>
    let '(c, k) := strip0 25 c0 k0 in
    let ds := zstr c in
    let nd := Z.of_nat (length ds) in
    let dp := nd + k in               (* value = 0.ds * 10^dp *)
    let ex := dp - 1 in
    if (ex <? -4) || (6 <=? ex) then
      (* d.ddde+XX *)
      let mant := match ds with d :: rest => d :: (match rest with [] => [] | _ => 46%N :: rest end) | [] => [] end in
      let ea := Z.abs ex in
      let es := zstr ea in
      Some (mant ++ [101%N; (if ex <? 0 then 45%N else 43%N)] ++ (if ea <? 10 then 48%N :: es else es))
    else if dp <=? 0 then Some ([48%N; 46%N] ++ zeros (- dp) ++ ds)
    else if nd <=? dp then Some (ds ++ zeros (dp - nd))
    else Some (firstn (Z.to_nat dp) ds ++ [46%N] ++ skipn (Z.to_nat dp) ds)
  end.

Definition fmt_float (bits : Z) : option str :=
  if (bits <? 0) || (2 ^ 64 <=? bits) then None else
  let '(s, ef, mf) := decode bits in
  let sign : str := if s =? 1 then [45%N] else [] in
  if ef =? 2047 then
    if mf =? 0 then Some (if s =? 1 then [45; 73; 110; 102]%N else [43; 73; 110; 102]%N)   (* -Inf / +Inf *)
    else Some [78; 97; 78]%N                                                                (* NaN *)
  else if (ef =? 0) && (mf =? 0) then Some (sign ++ [48%N])
  else match fmt_pos (mk_fdec ef mf) with Some t => Some (sign ++ t) | None => None end.
