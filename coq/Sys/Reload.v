(* Model of render.go (htmlRender): NewHTMLRender / Reload / Instance+Render / GetTemplate, in both
   hot-reload modes.  A "version" is what one successful build produced; the builder is an oracle
   whose outcome is supplied with each operation that calls it. *)
From Coq Require Export List NArith Bool.
Export ListNotations.

Definition version := nat.                 (* identifies one successful build *)
Inductive build := BOk (v : version) | BFail.
Inductive op :=
| Reload (b : build)                       (* Reload: calls the builder *)
| Render (exists_ : bool) (b : build)      (* Instance(name)+Render: the builder is called in hot mode only *)
| Get (exists_ : bool) (b : build).        (* GetTemplate(name) *)
Inductive answer :=
| AReloadOk | AReloadErr
| AServed (v : version)                    (* rendered / returned from template set v *)
| ANotFound (v : version)                  (* name missing in template set v *)
| ABuildErr                                (* hot mode: the request's own build failed, nothing written *)
| ANoSet.                                  (* no successful build yet *)

Record rstate := mkRS { cur : option version }.

Definition lookup_in (v : version) (exists_ : bool) : answer := if exists_ then AServed v else ANotFound v.

Definition rstep (hot : bool) (s : rstate) (o : op) : rstate * answer :=
  match o with
  | Reload (BOk v) => (mkRS (Some v), AReloadOk)
  | Reload BFail => (s, AReloadErr)
  | Render ex b | Get ex b =>
    if hot then
      match b with
      | BOk v => (s, lookup_in v ex)
      | BFail => (s, ABuildErr)
      end
    else
      match cur s with
      | Some v => (s, lookup_in v ex)
      | None => (s, ANoSet)
      end
  end.

Fixpoint run (hot : bool) (s : rstate) (ops : list op) : list answer :=
  match ops with
  | [] => []
  | o :: r => let '(s', a) := rstep hot s o in a :: run hot s' r
  end.

(* NewHTMLRender = a first Reload on an empty renderer; the renderer is returned even if it fails *)
Definition new_render (hot : bool) (first : build) (ops : list op) : list answer :=
  run hot (mkRS None) (Reload first :: ops).

(* WriteContentType: the header is set only when the handler has not set one *)
Definition write_content_type (existing : list (list N)) (html_ct : list (list N)) : list (list N) :=
  match existing with [] => html_ct | _ => existing end.
