(* C15: the part of "concurrent rendering equals serial" that is logic.
   (1) The only state of the shared parsed tree that Execute's accessors could write are the lazy
       caches of Tag (html/tag.go): AttrMap stores a lookup table when it is missing or stale;
       SortedAttr (after the fix) sorts a copy.  The scanner calls AttrMap before publishing a tag.
   (2) Executions that only READ the shared state and own their private state are independent of
       the schedule: every interleaving gives each execution the result it has when run alone. *)
From Tpl Require Export Html.Scan.
From Coq Require Import Arith Lia.

Record tagc := mkTC { tc_attrs : list attr; tc_map : option (list (str * attr)) }.
Fixpoint build_map (l : list attr) (m : list (str * attr)) : list (str * attr) :=
  match l with
  | [] => m
  | a :: r => build_map r ((a_name a, a) :: filter (fun kv => negb (str_eqb (fst kv) (a_name a))) m)
  end.
(* Tag.AttrMap: returns the tag (possibly with a newly STORED table) and whether it wrote *)
Definition attr_map (t : tagc) : tagc * bool :=
  match tc_map t with
  | Some m => if Nat.eqb (length m) (length (tc_attrs t)) then (t, false)
              else (mkTC (tc_attrs t) (Some (build_map (tc_attrs t) [])), true)
  | None => (mkTC (tc_attrs t) (Some (build_map (tc_attrs t) [])), true)
  end.
(* Tag.SortedAttr: works on a copy *)
Definition sorted_attr (t : tagc) : tagc * bool := (t, false).
(* what the scanner publishes *)
Definition published (attrs : list attr) : tagc := fst (attr_map (mkTC attrs None)).

(* ---------- schedules over read-only shared state ---------- *)
Section Sched.
Variables Sh Pv : Type.
Variable step : Sh -> Pv -> Pv.              (* one atomic step of one execution: reads S, updates its own P *)
Fixpoint upd (l : list Pv) (i : nat) (f : Pv -> Pv) : list Pv :=
  match l, i with
  | [], _ => []
  | p :: r, O => f p :: r
  | p :: r, S j => p :: upd r j f
  end.
Fixpoint run_sched (sh : Sh) (threads : list Pv) (sched : list nat) : list Pv :=
  match sched with
  | [] => threads
  | i :: r => run_sched sh (upd threads i (step sh)) r
  end.
Fixpoint iter (n : nat) (f : Pv -> Pv) (p : Pv) : Pv := match n with O => p | S k => iter k f (f p) end.
End Sched.
