(* Model of cmd/xtpl's catalogue (run / Save, translator.File.AddEntry, Entry.Key): the entries extracted from
   a SET of template files are merged into one POT catalogue.

     pot.AddEntry(header)                       -- entries: map key -> entry; key = ctxt ++ EOT ++ msgid
     for e in entries (file after file, each file in tree order):
        if pre, ok := m[key e]; ok { e.MsgCmts = pre.MsgCmts ++ e.MsgCmts }
        pot.AddEntry(e); m[key e] = e           -- the later entry replaces the earlier one (its plural wins)

   The header is in pot but NOT in m.  The order in which Go visits the files (a map) is not fixed: the model takes
   the files in the given order, and the theorems hold for every order. *)
From Tpl Require Export Sys.Xtpl.
Open Scope N_scope.

Definition cref : Type := (str * N * N)%type.                     (* file : line : column *)
Record centry := mkCe { ce_hdr : bool; ce_ctxt : str; ce_id : str; ce_id2 : str; ce_refs : list cref }.
Definition cEOT : rune := 4.
Definition ckey (c i : str) : str := c ++ cEOT :: i.
Definition ce_key (e : centry) : str := ckey (ce_ctxt e) (ce_id e).
Definition en_key (e : entry) : str := ckey (en_ctxt e) (en_id e).
Definition cat_header : centry := mkCe true [] [] [] [].

Fixpoint cat_find (k : str) (cat : list centry) : option centry :=
  match cat with
  | [] => None
  | e :: r => if str_eqb (ce_key e) k then Some e else cat_find k r
  end.
(* map assignment: replace the entry of that key, or add a new one *)
Fixpoint cat_put (e : centry) (cat : list centry) : list centry :=
  match cat with
  | [] => [e]
  | x :: r => if str_eqb (ce_key x) (ce_key e) then e :: r else x :: cat_put e r
  end.
Definition en_ref (file : str) (en : entry) : cref := (file, en_line en, en_col en).
Definition cat_add (cat : list centry) (fe : str * entry) : list centry :=
  let '(file, en) := fe in
  let pre := match cat_find (en_key en) cat with
             | Some p => if ce_hdr p then [] else ce_refs p      (* the header is not in Save's merge map *)
             | None => []
             end in
  cat_put (mkCe false (en_ctxt en) (en_id en) (en_id2 en) (pre ++ [en_ref file en])) cat.
Definition cat_of (es : list (str * entry)) : list centry := fold_left cat_add es [cat_header].

Section XC.
Variable is_letter : rune -> bool.
Variable is_udigit : rune -> bool.
Variable attr_prefix : str.
(* all entries of a template set, file after file *)
Definition set_entries (fuel : nat) (kws : list keyword) (files : list (str * node)) : list (str * entry) :=
  flat_map (fun f => map (pair (fst f)) (extract_node is_letter is_udigit attr_prefix fuel kws (snd f))) files.
Definition catalogue (fuel : nat) (kws : list keyword) (files : list (str * node)) : list centry :=
  cat_of (set_entries fuel kws files).
End XC.

(* ---- the specification the catalogue is proved equal to: one entry per key, in order of first appearance;
        its references are ALL occurrences of the key in order, its strings those of the last occurrence ---- *)
Definition has_key (k : str) (fe : str * entry) : bool := str_eqb (en_key (snd fe)) k.
Fixpoint first_keys (seen : list str) (es : list (str * entry)) : list str :=
  match es with
  | [] => []
  | fe :: r => let k := en_key (snd fe) in
               if existsb (str_eqb k) seen then first_keys seen r else k :: first_keys (k :: seen) r
  end.
Definition spec_entry (es : list (str * entry)) (k : str) : centry :=
  let occ := filter (has_key k) es in
  match last (map (fun fe => Some (snd fe)) occ) None with
  | Some en => mkCe false (en_ctxt en) (en_id en) (en_id2 en) (map (fun fe => en_ref (fst fe) (snd fe)) occ)
  | None => cat_header
  end.
Definition cat_spec (es : list (str * entry)) : list centry :=
  cat_header :: map (spec_entry es) (first_keys [] es).
