(* Model of tplManager.Parse (html/manager.go): fs.Sub, fs.WalkDir in lexical order, match, Open,
   Add, Close.  The file system is a finite list of files (path segments, content, injected fault);
   the matcher is an oracle (a flag per file, computed by the user's predicate). *)
From Tpl Require Export Html.Manager.
Open Scope N_scope.

Inductive fault := FltOpen | FltRead.
Record ffile := mkFF { ff_path : list str; ff_content : str; ff_fault : option fault; ff_match : bool }.
Inductive fev := EvOpen (p : str) | EvOpenFail (p : str) | EvClose (p : str).
Inductive werr := WFs | WLoad (e : lerr).

Fixpoint seg_compare (a b : list str) : comparison :=
  match a, b with
  | [], [] => Eq
  | [], _ => Lt
  | _, [] => Gt
  | x :: a', y :: b' => match str_compare x y with Eq => seg_compare a' b' | c => c end
  end.
Fixpoint insert_file (f : ffile) (l : list ffile) : list ffile :=
  match l with
  | [] => [f]
  | g :: r => match seg_compare (ff_path f) (ff_path g) with Gt => g :: insert_file f r | _ => f :: l end
  end.
Definition walk_order (l : list ffile) : list ffile := fold_right insert_file [] l.

Fixpoint join_path (segs : list str) : str :=
  match segs with [] => [] | [s] => s | s :: r => s ++ cSLASH :: join_path r end.
Fixpoint strip_prefix (p l : list str) : option (list str) :=
  match p, l with
  | [], _ => Some l
  | x :: p', y :: l' => if str_eqb x y then strip_prefix p' l' else None
  | _, [] => None
  end.
(* fs.Sub: the files below the sub-directory, with paths relative to it *)
Definition sub_fs (sub : list str) (l : list ffile) : list ffile :=
  flat_map (fun f => match strip_prefix sub (ff_path f) with
                     | Some (s :: r) => [mkFF (s :: r) (ff_content f) (ff_fault f) (ff_match f)]
                     | _ => [] end) l.

Section Walk.
Variable is_space : rune -> bool.
Variable to_lower : rune -> rune.
Variable is_letter : rune -> bool.
Variable is_udigit : rune -> bool.
Variable methods : N -> bool -> list (str * N).
Variable call_fn : N -> list value -> fres.
Variable text_tags : list str.
Variable void_elements : list str.
Variable tag_prefix : str.
Variable attr_prefix : str.
Variable global : scope.
Notation addfile := (add_file is_space to_lower is_letter is_udigit methods call_fn text_tags void_elements tag_prefix attr_prefix global).

Definition T := list (str * template).
Fixpoint walk (files : list ffile) (tps : T) (evs : list fev) : T * option werr * list fev :=
  match files with
  | [] => (tps, None, rev evs)
  | f :: r =>
    let p := join_path (ff_path f) in
    if negb (ff_match f) then walk r tps evs               (* never opened, never read *)
    else
      match ff_fault f with
      | Some FltOpen => (tps, Some WFs, rev (EvOpenFail p :: evs))
      | flt =>
        let evs1 := EvOpen p :: evs in
        match assoc p tps with
        | Some _ => (tps, Some (WLoad LDup), rev (EvClose p :: evs1))      (* Add checks the name before reading *)
        | None =>
          match flt with
          | Some FltRead => (tps, Some WFs, rev (EvClose p :: evs1))
          | _ =>
            match addfile tps p (ff_content f) with
            | (tps', None) => walk r tps' (EvClose p :: evs1)
            | (tps', Some e) => (tps', Some (WLoad e), rev (EvClose p :: evs1))
            end
          end
        end
      end
  end.

Definition parse_fs (sub : list str) (files : list ffile) : T * option werr * list fev :=
  walk (walk_order (sub_fs sub files)) [] [].
End Walk.
