(* Model of cmd/xtpl (extract / listener.EnterPrimaryExpr / doExtract / getFnName / isStringLiteral):
   the translatable literals of keyword calls inside ${} blocks. *)
From Tpl Require Export Html.Manager.
Open Scope N_scope.

Record keyword := mkKw { kw_name : str; kw_ctxt : nat; kw_id : nat; kw_id2 : nat }.   (* 1-based positions, 0 = none *)
Record entry := mkEn { en_ctxt : str; en_id : str; en_id2 : str; en_line : N; en_col : N }.

Definition is_primary (e : expr) : bool :=
  match e with EUnary _ _ _ _ | EBin _ _ _ _ _ | ECond _ _ _ => false | _ => true end.
(* getFnName: plain name, receiver.field, parenthesised callee *)
Fixpoint fn_name (e : expr) : option str :=
  match e with
  | EName s _ _ => Some s
  | EParen a => if is_primary a then fn_name a else None
  | EField _ _ n => Some n
  | _ => None
  end.
(* isStringLiteral: the argument must be a bare string literal *)
Definition str_lit (e : expr) : option (str * N * N) :=
  match e with
  | ELit LStr t l c => match unquote_lit t with Ok s => Some (s, l, c) | _ => Some ([], l, c) end
  | _ => None
  end.
Definition arg_lit (args : list expr) (i : nat) : option (str * N * N) :=
  match i with O => None | S k => match nth_error args k with Some a => str_lit a | None => None end end.
Definition max_index (kw : keyword) : nat := Nat.max (kw_ctxt kw) (Nat.max (kw_id kw) (kw_id2 kw)).

Definition do_extract (kw : keyword) (name : str) (args : list expr) : list entry :=
  if negb (str_eqb (kw_name kw) name) then []
  else if Nat.ltb (length args) (max_index kw) then []
  else
    let ctxt := match arg_lit args (kw_ctxt kw) with Some (s, _, _) => s | None => [] end in
    let id2 := match arg_lit args (kw_id2 kw) with Some (s, _, _) => s | None => [] end in
    match kw_id kw with
    | O => [mkEn ctxt [] id2 0 0]
    | _ => match arg_lit args (kw_id kw) with
           | Some (s, l, c) => match s with [] => [] | _ => [mkEn ctxt s id2 l c] end
           | None => []
           end
    end.

(* EnterPrimaryExpr in walk order: the call itself, then the callee subtree, then the arguments *)
Fixpoint extract_expr (kws : list keyword) (e : expr) : list entry :=
  let opt o := match o with Some x => extract_expr kws x | None => [] end in
  match e with
  | ELit _ _ _ _ | EName _ _ _ => []
  | EParen a | EUnary _ a _ _ | EField a _ _ => extract_expr kws a
  | EBin _ a b _ _ | EIndex a b => extract_expr kws a ++ extract_expr kws b
  | ECond c a b => extract_expr kws c ++ extract_expr kws a ++ extract_expr kws b
  | ESlice a lo hi => extract_expr kws a ++ opt lo ++ opt hi
  | ESlice3 a lo hi cp => extract_expr kws a ++ opt lo ++ extract_expr kws hi ++ extract_expr kws cp
  | ECall f args _ _ =>
    (match fn_name f, args with
     | Some name, _ :: _ => flat_map (fun kw => do_extract kw name args) kws
     | _, _ => []
     end) ++ extract_expr kws f ++ flat_map (extract_expr kws) args
  end.

(* Pos.Add(line, column) of exp/pos.go *)
Definition pos_add (p : pos) (line col : N) : pos := (fst p + line - 1, snd p + col).

Section X.
Variable is_letter : rune -> bool.
Variable is_udigit : rune -> bool.
Variable attr_prefix : str.
Definition pok' (_ : pos) (s : str) : bool := match parse_code is_letter is_udigit s with Some _ => true | None => false end.

Definition extract_ctok (kws : list keyword) (c : ctok) : list entry :=
  match c_kind c with
  | CodeValue =>
    match parse_code is_letter is_udigit (c_value c) with
    | Some e => map (fun en => let '(l, co) := pos_add (c_start c) (en_line en) (en_col en) in
                              mkEn (en_ctxt en) (en_id en) (en_id2 en) l co) (extract_expr kws e)
    | None => []
    end
  | _ => []
  end.
Definition extract_attr (kws : list keyword) (a : attr) : list entry :=
  match attr_ctoks attr_prefix pok' a with inl l => flat_map (extract_ctok kws) l | inr _ => [] end.
Fixpoint extract_node (fuel : nat) (kws : list keyword) (n : node) : list entry :=
  match fuel with
  | O => []
  | S f =>
    (match n_tok n with
     | Some t => match t_kind t with KTag => flat_map (extract_attr kws) (t_attrs t) | _ => [] end
     | None => []
     end) ++ flat_map (extract_node f kws) (n_children n)
  end.
End X.
