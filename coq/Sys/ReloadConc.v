(* C18 under concurrency — the part that is logic.
   render.go: Reload = { m, err := builder(ctx); if err != nil { return err }; mu.Lock(); manager = m; mu.Unlock() };
   GetTemplate (no hot reload) = { mu.RLock(); m := manager; mu.RUnlock(); if m == nil { ErrNoTemplateSet }; m.GetTemplate(name) }.
   Each operation is a short program of ATOMIC steps; the only step that writes the shared field is the store under
   the lock, the only step that reads it is the load under the read lock (that these two really are atomic with respect
   to each other is what sync.RWMutex gives and what the race-detector runs check: not provable here).
   A schedule is any list of thread numbers.  The theorems (Proofs/ReloadConcProps.v) say that every schedule is
   LINEARIZABLE with respect to the sequential model Sys/Reload.v: the answers are those of the sequential run of the
   operations in the order of their linearization steps, and an operation that finished before another one started
   precedes it in that order. *)
From Tpl Require Export Sys.Reload.
From Coq Require Import Arith.

Inductive cthread :=
| TReload (b : build)                        (* Reload: about to call the builder (outcome b) *)
| TBuilt (v : version)                       (* Reload: built, about to store under the lock *)
| TReq (ex : bool)                           (* request: about to load the field under the read lock *)
| TLoaded (m : option version) (ex : bool)   (* request: loaded m, about to look the name up in it *)
| TDone (a : answer).

(* the operation a thread executes, as an operation of the sequential model (non-hot mode: the build outcome that
   Render carries is unused there) *)
Definition op_of_start (t : cthread) : option op :=
  match t with
  | TReload b => Some (Reload b)
  | TReq ex => Some (Get ex BFail)
  | _ => None
  end.

(* one atomic step of a thread against the shared field; the boolean says whether this step is the operation's
   LINEARIZATION step (the failing build, the store, the load) *)
Definition tstep (c : option version) (t : cthread) : option version * cthread * bool :=
  match t with
  | TReload (BOk v) => (c, TBuilt v, false)
  | TReload BFail => (c, TDone AReloadErr, true)
  | TBuilt v => (Some v, TDone AReloadOk, true)
  | TReq ex => (c, TLoaded c ex, true)
  | TLoaded (Some v) ex => (c, TDone (lookup_in v ex), false)
  | TLoaded None ex => (c, TDone ANoSet, false)
  | TDone a => (c, TDone a, false)
  end.

Fixpoint set_nth {A} (l : list A) (i : nat) (x : A) : list A :=
  match l, i with
  | [], _ => []
  | _ :: r, O => x :: r
  | y :: r, S j => y :: set_nth r j x
  end.

Record cstate := mkCS { c_cur : option version; c_threads : list cthread; c_lin : list nat (* linearized thread numbers, oldest first *) }.

Definition cstep (s : cstate) (i : nat) : cstate :=
  match nth_error (c_threads s) i with
  | None => s
  | Some t =>
    let '(c', t', lin) := tstep (c_cur s) t in
    mkCS c' (set_nth (c_threads s) i t') (if lin then c_lin s ++ [i] else c_lin s)
  end.

Definition crun (s : cstate) (sched : list nat) : cstate := fold_left cstep sched s.

Definition conc_init (c : option version) (threads : list cthread) : cstate := mkCS c threads [].

(* all threads start at the beginning of an operation *)
Definition fresh (threads : list cthread) : Prop := forall t, In t threads -> op_of_start t <> None.

(* the sequential history that a linearization order denotes *)
Definition ops_of (threads : list cthread) (lin : list nat) : list op :=
  flat_map (fun i => match nth_error threads i with
                     | Some t => match op_of_start t with Some o => [o] | None => [] end
                     | None => [] end) lin.

Fixpoint index_of (l : list nat) (i : nat) : option nat :=
  match l with
  | [] => None
  | j :: r => if Nat.eqb i j then Some O else option_map S (index_of r i)
  end.
