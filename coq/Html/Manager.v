(* Model of html/manager.go: Add (scan, build, register the file and every fragment it defines in
   one namespace), GetTemplate, and rendering a history of executions on one template object. *)
From Tpl Require Export Html.Exec.
Open Scope N_scope.

Inductive lerr := LDup | LScan (e : serr) | LEval.

Section Mgr.
Variable is_space : rune -> bool.
Variable to_lower : rune -> rune.
Variable is_letter : rune -> bool.
Variable is_udigit : rune -> bool.
Variable methods : N -> bool -> list (str * N).
Variable call_fn : N -> list value -> fres.
Variable text_tags : list str.
Variable void_elements : list str.
Variable tag_prefix : str.
Variable attr_prefix : str.
Variable global : scope.

Definition pok (_ : pos) (s : str) : bool := match parse_code is_letter is_udigit s with Some _ => true | None => false end.
Definition mk_mgr (tps : list (str * template)) : manager := mkM tag_prefix attr_prefix tps global.

(* Node.GetChildrenWithoutHeadTailBlankText *)
Definition trim_blank_ends (ch : list node) : list node :=
  let blank := is_blank_text is_space in
  let drop_first := match ch with c :: r => if blank c then r else ch | [] => [] end in
  match ch with
  | [] => []
  | [c] => if blank c then [] else [c]
  | _ => match rev drop_first with
         | l :: r => if blank l then rev r else drop_first
         | [] => []
         end
  end.

(* addDefinedTpl: pre-order walk; a :define value is evaluated in the empty scope *)
Fixpoint add_defs (fuel : nat) (n : node) (tps : list (str * template)) : list (str * template) * option lerr :=
  match fuel with
  | O => (tps, Some LEval)
  | S f =>
    let own :=
      match n_tok n with
      | Some tok =>
        match t_kind tok with
        | KTag =>
          match find (fun a => str_eqb (a_name a) (attr_prefix ++ d_define)) (t_attrs tok) with
          | Some a =>
            match attr_evaluate is_letter is_udigit methods call_fn (mk_mgr tps) a (SData (VMap [])) [] with
            | (AOk name, _) =>
              match assoc name tps with
              | Some _ => (tps, Some LDup)
              | None => (tps ++ [(name, mkT (trim_blank_ends (n_children n)) (n_children n))], None)
              end
            | _ => (tps, Some LEval)
            end
          | None => (tps, None)
          end
        | _ => (tps, None)
        end
      | None => (tps, None)
      end in
    match own with
    | (tps1, Some e) => (tps1, Some e)
    | (tps1, None) =>
      (fix go (l : list node) (tps : list (str * template)) : list (str * template) * option lerr :=
         match l with
         | [] => (tps, None)
         | c :: r => match add_defs f c tps with
                     | (tps', None) => go r tps'
                     | e => e
                     end
         end) (n_children n) tps1
    end
  end.

Fixpoint depth (fuel : nat) (n : node) : nat :=
  match fuel with O => O | S f => S (fold_left (fun m c => Nat.max m (depth f c)) (n_children n) O) end.

(* tplManager.Add *)
Definition add_file (tps : list (str * template)) (name src : str) : list (str * template) * option lerr :=
  match assoc name tps with
  | Some _ => (tps, Some LDup)
  | None =>
    match load is_space to_lower text_tags void_elements attr_prefix pok src with
    | inr e => (tps, Some (LScan e))
    | inl root => add_defs (S (length src)) root (tps ++ [(name, mkT (n_children root) (n_children root))])
    end
  end.
Fixpoint add_files (tps : list (str * template)) (files : list (str * str)) : list (str * template) * option lerr :=
  match files with
  | [] => (tps, None)
  | (n, s) :: r => match add_file tps n s with (tps', None) => add_files tps' r | e => e end
  end.

(* a history of executions (data, writer budget) on ONE template object: the condition table is threaded *)
Fixpoint run_history (fuel : nat) (m : manager) (tp : template) (runs : list (value * option nat)) (t : tbl)
  : list (str * rres * log) :=
  match runs with
  | [] => []
  | (d, b) :: r =>
    match execute is_space to_lower is_letter is_udigit methods call_fn m fuel tp d t (mkR [] b) with
    | (o, res, t', st) => (o, res, r_log st) :: run_history fuel m tp r t'
    end
  end.
End Mgr.
