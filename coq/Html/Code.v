(* Model of html/scan_code.go (CodeScanner): directive values "literal ${code} literal".
   One-rune step function; UnRead = re-dispatch (at most three per rune). *)
From Tpl Require Export Base.Runes.
Open Scope N_scope.

Inductive ckind := BegEnd | Literal | CodeStart | CodeValue | CodeEnd.
Record ctok := mkC { c_kind : ckind; c_value : str; c_start : pos; c_end : pos }.
Inductive cerr := CEQuote | CECompile | CEEof.

Inductive cmode :=
| CInit                                   (* next rune must be the opening quote *)
| CEndQ                                   (* closing quote un-read after a literal: re-read it *)
| CClosed                                 (* closing quote already consumed by an empty literal *)
| CDone
| CText (buf : str) (start : pos) (endp : pos)
| CDollar (buf : str) (start : pos) (endp : pos)      (* '$' read, endp = pos before '$' *)
| CBlock (buf : str) (start : pos) (endp : pos)
| CStr (q : rune) (esc : bool) (buf : str) (start : pos)
| CErr (e : cerr).
Record cst := mkCS { k_toks : list ctok; k_pos : pos; k_first : rune; k_brace : N; k_mode : cmode }.

Section C.
Variable compile : pos -> str -> bool.
Definition isq (r : rune) := N.eqb r cDQ || N.eqb r cSQ.

Inductive cres := CR (toks : list ctok) (first : rune) (brace : N) (m : cmode) (again : bool).

Definition cdispatch (toks : list ctok) (first : rune) (brace : N) (m : cmode) (r : rune) (p0 p1 : pos) : cres :=
  match m with
  | CInit => if isq r then CR (mkC BegEnd [r] p0 p1 :: toks) r brace (CText [] p1 p1) false
             else CR toks r brace (CErr CEQuote) false
  | CEndQ | CClosed =>
             if isq r then CR (mkC BegEnd [r] p0 p1 :: toks) r brace CDone false
             else CR toks r brace (CErr CEQuote) false
  | CDone => CR toks first brace CDone false
  | CErr e => CR toks first brace (CErr e) false
  | CText buf start _ =>
    if isq r && N.eqb r first then
      match buf with
      | [] => CR (mkC BegEnd [r] start p1 :: toks) first brace CClosed false
      | _ => CR (mkC Literal buf start p0 :: toks) first brace CEndQ true
      end
    else if N.eqb r cDOLLAR then CR toks first brace (CDollar buf start p0) false
    else CR toks first brace (CText (buf ++ [r]) start p1) false
  | CDollar buf start endp =>
    if N.eqb r cLB then
      let t := mkC CodeStart [cDOLLAR; cLB] endp p1 in
      match buf with
      | [] => CR (t :: toks) first brace (CBlock [] p1 p1) false
      | _ => CR (t :: mkC Literal buf start endp :: toks) first brace (CBlock [] p1 p1) false
      end
    else CR toks first brace (CText (buf ++ [cDOLLAR]) start p0) true
  | CBlock buf start _ =>
    if N.eqb r cLB then CR toks first (brace + 1) (CBlock (buf ++ [r]) start p1) false
    else if N.eqb r cRB then
      if N.eqb brace 0 then
        if compile start buf
        then CR (mkC CodeEnd [cRB] p0 p1 :: mkC CodeValue buf start p0 :: toks) first brace (CText [] p1 p1) false
        else CR toks first brace (CErr CECompile) false
      else CR toks first (brace - 1) (CBlock (buf ++ [r]) start p1) false
    else if N.eqb r cDQ || N.eqb r cSQ || N.eqb r cBQ then CR toks first brace (CStr r false (buf ++ [r]) start) false
    else CR toks first brace (CBlock (buf ++ [r]) start p1) false
  | CStr q esc buf start =>
    if esc then CR toks first brace (CStr q false (buf ++ [r]) start) false
    else if N.eqb q cBQ then
      if N.eqb r cBQ then CR toks first brace (CBlock (buf ++ [r]) start p1) false
      else CR toks first brace (CStr q false (buf ++ [r]) start) false
    else if N.eqb r cBS then CR toks first brace (CStr q true (buf ++ [r]) start) false
    else if N.eqb r q then CR toks first brace (CBlock (buf ++ [r]) start p1) false
    else CR toks first brace (CStr q false (buf ++ [r]) start) false
  end.

Definition cstep (s : cst) (r : rune) : cst :=
  let p0 := k_pos s in let p1 := adv p0 r in
  let go '(CR t f b m again) := if again then cdispatch t f b m r p0 p1 else CR t f b m false in
  match go (go (go (cdispatch (k_toks s) (k_first s) (k_brace s) (k_mode s) r p0 p1))) with
  | CR t f b m _ => mkCS t p1 f b m
  end.

(* End of input is a normal end only once the closing quote has been read. *)
Definition cfinish (s : cst) : list ctok + cerr :=
  match k_mode s with
  | CErr e => inr e
  | CClosed | CDone => inl (rev (k_toks s))
  | _ => inr CEEof
  end.
Definition cinit (start : pos) : cst := mkCS [] start 0 0 CInit.
Definition cscan (start : pos) (src : str) := cfinish (fold_left cstep src (cinit start)).
End C.
