(* Model of html/scan_html.go (HtmlScanner) as a one-rune step function folded over the source.
   UnRead = re-dispatch of the same rune in the new state (at most once per rune). *)
From Tpl Require Export Base.Runes.
Open Scope N_scope.

Inductive tkind := KTag | KText | KComment | KCDATA.
Record attr := mkAttr { a_name : str; a_nstart : pos; a_nend : pos;
                        a_value : option str; a_vstart : pos; a_vend : pos }.
Record token := mkTok { t_kind : tkind; t_value : str; t_start : pos; t_end : pos;
                        t_name : str; t_attrs : list attr }.

Inductive serr := EUnexpectedEOF | EComment | EDupAttr | ECompile.
Inductive tstate := TName | TCData | TComment | TSpace | TAttrName | TAttrValue.

Record textst := mkText {
  x_buf : str; x_start : pos; x_raw : bool; x_close : str; (* "</name>" lower *) x_rawname : str;
  x_end : pos; x_tagbuf : str; x_namebuf : str }.
Record tagst := mkTag {
  g_state : tstate; g_buf : str; g_start : pos; g_attrs : list attr (* reversed *);
  g_name : str; g_comment : str; g_cdata : str;
  g_aname : str; g_anstart : pos; g_anend : pos;
  g_aval : str; g_avstart : pos; g_avend : pos }.
Inductive mode := MInit | MText (x : textst) | MTag (g : tagst) | MErr (e : serr).
Record sstate := mkS { s_toks : list token (* reversed *); s_pos : pos; s_mode : mode }.

Section Scan.
Variable is_space : rune -> bool.
Variable to_lower : rune -> rune.
Variable text_tags : list str.
Variable attr_prefix : str.
Variable compile : attr -> bool. (* true = ok *)

Definition lower (s : str) := map to_lower s.

Definition raw_tag_of_last (toks : list token) : option str :=
  match toks with
  | t :: _ =>
    match t_kind t with
    | KTag => let n := lower (t_name t) in
              if existsb (fun tt => str_eqb n (lower tt)) text_tags then Some n else None
    | _ => None
    end
  | [] => None
  end.

Definition has_attr (n : str) (l : list attr) := existsb (fun a => str_eqb (a_name a) n) l.

Definition else_name := attr_prefix ++ [101;108;115;101].
Definition true_q : str := [34;116;114;117;101;34].
Definition fix_else (a : attr) : attr :=
  match a_value a with
  | None => if str_eqb (a_name a) else_name
            then mkAttr (a_name a) (a_nstart a) (a_nend a) (Some true_q) (a_vstart a) (a_vend a) else a
  | Some _ => a
  end.
(* add attribute: compile (only matters for valued prefixed), then dup check. *)
Definition add_attr (check_compile : bool) (a : attr) (g : tagst) : tagst + serr :=
  let a := fix_else a in
  if check_compile && negb (compile a) then inr ECompile
  else if has_attr (a_name a) (g_attrs g) then inr EDupAttr
  else inl (mkTag (g_state g) (g_buf g) (g_start g) (a :: g_attrs g) (g_name g) (g_comment g) (g_cdata g)
                  (g_aname g) (g_anstart g) (g_anend g) (g_aval g) (g_avstart g) (g_avend g)).

Definition trim_sp (s : str) : str := (* TrimSuffix(s, " ") : at most one *)
  match rev s with
  | c :: r => if N.eqb c cSP then rev r else s
  | [] => s
  end.
Definition ends_sp (s : str) : bool := match rev s with c :: _ => N.eqb c cSP | [] => false end.

Definition set_g (g : tagst) st buf attrs name cm cd an ans ane av avs ave :=
  mkTag st buf (g_start g) attrs name cm cd an ans ane av avs ave.

Definition emit_tag (toks : list token) (g : tagst) (p1 : pos) : list token :=
  mkTok KTag (g_buf g) (g_start g) p1 (g_name g) (rev (g_attrs g)) :: toks.

Definition sBANGDD := [cBANG; cDASH; cDASH].
Definition sCDATA := [cBANG; cLBR; 67; 68; 65; 84; 65; cLBR].
Definition sDDGT := [cDASH; cDASH; cGT].
Definition sLTBDD := [cLT; cBANG; cDASH; cDASH].
Definition sDDBGT := [cDASH; cDASH; cBANG; cGT].
Definition sLTBD := [cLT; cBANG; cDASH].
Definition sRRGT := [cRBR; cRBR; cGT].

(* one rune in tag mode. p0 = pos before r, p1 = pos after r. Returns new (toks, mode, consumed?)
   consumed=false means UnRead: caller re-dispatches r. *)
Inductive tres := TR (toks : list token) (m : mode) (unread : bool).

Definition finish_or (toks : list token) (g : tagst) (r : rune) (p1 : pos) : tres :=
  if N.eqb r cGT then TR (emit_tag toks g p1) MInit false else TR toks (MTag g) false.

Definition tag_step (toks : list token) (g : tagst) (r : rune) (p0 p1 : pos) : tres :=
  let g0 := g in
  let buf := g_buf g ++ [r] in
  let g := set_g g (g_state g) buf (g_attrs g) (g_name g) (g_comment g) (g_cdata g)
                 (g_aname g) (g_anstart g) (g_anend g) (g_aval g) (g_avstart g) (g_avend g) in
  let with_state st g := set_g g st (g_buf g) (g_attrs g) (g_name g) (g_comment g) (g_cdata g)
                 (g_aname g) (g_anstart g) (g_anend g) (g_aval g) (g_avstart g) (g_avend g) in
  match g_state g with
  | TName =>
    if N.eqb r cGT then finish_or toks g r p1
    else if is_space r then TR toks (MTag (with_state TSpace g)) false
    else
      let name := g_name g ++ [r] in
      let st := if str_eqb name sBANGDD then TComment else if str_eqb name sCDATA then TCData else TName in
      let g' := set_g g st (g_buf g) (g_attrs g) name (g_comment g) (g_cdata g)
                 (g_aname g) (g_anstart g) (g_anend g) (g_aval g) (g_avstart g) (g_avend g) in
      finish_or toks g' r p1
  | TComment =>
    let ct := g_comment g ++ [r] in
    let isEnd := suffixb sDDGT ct in
    let text := if isEnd then drop_last 3 ct else ct in
    if prefixb [cGT] text || prefixb [cDASH; cGT] text then TR toks (MErr EComment) false
    else if isEnd then
      if containsb sLTBDD text || containsb sDDGT text || containsb sDDBGT text then TR toks (MErr EComment) false
      else if suffixb sLTBD text then TR toks (MErr EComment) false
      else TR (mkTok KComment (sLTBDD ++ text ++ sDDGT) (g_start g) p1 [] [] :: toks) MInit false
    else TR toks (MTag (set_g g TComment (g_buf g) (g_attrs g) (g_name g) ct (g_cdata g)
                 (g_aname g) (g_anstart g) (g_anend g) (g_aval g) (g_avstart g) (g_avend g))) false
  | TCData =>
    let cd := g_cdata g ++ [r] in
    if suffixb sRRGT cd then TR (mkTok KCDATA ((cLT :: sCDATA) ++ cd) (g_start g) p1 [] [] :: toks) MInit false
    else TR toks (MTag (set_g g TCData (g_buf g) (g_attrs g) (g_name g) (g_comment g) cd
                 (g_aname g) (g_anstart g) (g_anend g) (g_aval g) (g_avstart g) (g_avend g))) false
  | TSpace =>
    if N.eqb r cGT then finish_or toks g r p1
    else if is_space r then TR toks (MTag g) false
    else (* unread, truncate buf, go to attr name *)
      TR toks (MTag (set_g g TAttrName (g_buf g0) (g_attrs g) (g_name g) (g_comment g) (g_cdata g)
                 [] p0 (g_anend g) (g_aval g) (g_avstart g) (g_avend g))) true
  | TAttrName =>
    if is_space r then
      TR toks (MTag (set_g g TAttrName (g_buf g) (g_attrs g) (g_name g) (g_comment g) (g_cdata g)
                 (if ends_sp (g_aname g) then g_aname g else g_aname g ++ [cSP]) (g_anstart g) (g_anend g) (g_aval g) (g_avstart g) (g_avend g))) false
    else if N.eqb r cGT then
      let a := mkAttr (trim_sp (g_aname g)) (g_anstart g) (g_anend g) None (0,0) (0,0) in
      match add_attr false a g with
      | inr e => TR toks (MErr e) false
      | inl g' => finish_or toks g' r p1
      end
    else if N.eqb r cEQ then
      TR toks (MTag (set_g g TAttrValue (g_buf g) (g_attrs g) (g_name g) (g_comment g) (g_cdata g)
                 (g_aname g) (g_anstart g) (g_anend g) [] p1 (g_avend g))) false
    else
      if ends_sp (g_aname g) then
        let a := mkAttr (trim_sp (g_aname g)) (g_anstart g) (g_anend g) None (0,0) (0,0) in
        match add_attr false a g with
        | inr e => TR toks (MErr e) false
        | inl g' => TR toks (MTag (set_g g' TAttrName (g_buf g') (g_attrs g') (g_name g') (g_comment g') (g_cdata g')
                 [r] p0 p1 (g_aval g') (g_avstart g') (g_avend g'))) false
        end
      else TR toks (MTag (set_g g TAttrName (g_buf g) (g_attrs g) (g_name g) (g_comment g) (g_cdata g)
                 (g_aname g ++ [r]) (g_anstart g) p1 (g_aval g) (g_avstart g) (g_avend g))) false
  | TAttrValue =>
    match g_aval g with
    | [] =>
      if is_space r then
        TR toks (MTag (set_g g TAttrValue (g_buf g) (g_attrs g) (g_name g) (g_comment g) (g_cdata g)
                 (g_aname g) (g_anstart g) (g_anend g) [] p1 (g_avend g))) false
      else if N.eqb r cGT then (* <p a=> : the attribute is kept with an empty value *)
        let a := mkAttr (trim_sp (g_aname g)) (g_anstart g) (g_anend g) (Some []) (g_avstart g) (g_avstart g) in
        match add_attr true a g with
        | inr e => TR toks (MErr e) false
        | inl g' => finish_or toks g' r p1
        end
      else TR toks (MTag (set_g g TAttrValue (g_buf g) (g_attrs g) (g_name g) (g_comment g) (g_cdata g)
                 (g_aname g) (g_anstart g) (g_anend g) [r] (g_avstart g) p1)) false
    | f :: _ =>
      let quoted := N.eqb f cDQ || N.eqb f cSQ in
      let fin_q := quoted && N.eqb f r in
      let fin_u := negb quoted && (is_space r || N.eqb r cGT) in
      if fin_q || fin_u then
        let v := if fin_q then g_aval g ++ [r] else g_aval g in
        let ve := if fin_q then p1 else g_avend g in
        let a := mkAttr (trim_sp (g_aname g)) (g_anstart g) (g_anend g) (Some v) (g_avstart g) ve in
        match add_attr true a g with
        | inr e => TR toks (MErr e) false
        | inl g' => finish_or toks (set_g g' TSpace (g_buf g') (g_attrs g') (g_name g') (g_comment g') (g_cdata g')
                 (g_aname g') (g_anstart g') (g_anend g') v (g_avstart g') ve) r p1
        end
      else
        let g' := set_g g TAttrValue (g_buf g) (g_attrs g) (g_name g) (g_comment g) (g_cdata g)
                 (g_aname g) (g_anstart g) (g_anend g) (g_aval g ++ [r]) (g_avstart g) p1 in
        if quoted then TR toks (MTag g') false else finish_or toks g' r p1
    end
  end.

Definition new_tag (p0 : pos) : tagst := (* state after consuming '<' *)
  mkTag TName [cLT] p0 [] [] [] [] [] (0,0) (0,0) [] (0,0) (0,0).

Definition new_text (toks : list token) (p0 : pos) : textst :=
  match raw_tag_of_last toks with
  | Some n => mkText [] p0 true ([cLT; cSLASH] ++ n ++ [cGT]) n (0,0) [] []
  | None => mkText [] p0 false [] [] (0,0) [] []
  end.

(* the name of the close tag that ends raw text: '/' followed by the name AS WRITTEN (the blank-free copy of the close tag
   without its "</" and ">"), not the lower-cased name of the open tag *)
Definition written_close_name (namebuf : str) : str :=
  let a := if prefixb [cLT; cSLASH] namebuf then skipn 2 namebuf else namebuf in
  let b := match rev a with g :: r => if N.eqb g cGT then rev r else a | [] => a end in
  cSLASH :: b.

Definition text_step (toks : list token) (x : textst) (r : rune) (p0 p1 : pos) : tres :=
  if x_raw x then
    let closing0 := match x_tagbuf x with [] => false | _ => true end in
    let '(tagbuf, namebuf, closing) :=
      if N.eqb r cLT then ([], [], true) else (x_tagbuf x, x_namebuf x, closing0) in
    let x := if N.eqb r cLT
             then mkText (x_buf x) (x_start x) (x_raw x) (x_close x) (x_rawname x) p0 (x_tagbuf x) (x_namebuf x)
             else x in
    if negb closing then
      TR toks (MText (mkText (x_buf x ++ [r]) (x_start x) true (x_close x) (x_rawname x) p1 tagbuf namebuf)) false
    else
      let tagbuf := tagbuf ++ [r] in
      let namebuf := if is_space r then namebuf else namebuf ++ [r] in
      let closing := prefixb (lower namebuf) (x_close x) in
      if closing then
        if N.eqb r cGT then
          let textv := firstn (length (x_buf x) + 1 - length tagbuf) (x_buf x) in
          let t1 := mkTok KText textv (x_start x) (x_end x) [] [] in
          let t2 := mkTok KTag tagbuf (x_end x) p1 (written_close_name namebuf) [] in
          match textv with
          | [] => TR (t2 :: toks) MInit false          (* <script></script>: no empty text token *)
          | _ => TR (t2 :: t1 :: toks) MInit false
          end
        else TR toks (MText (mkText (x_buf x ++ [r]) (x_start x) true (x_close x) (x_rawname x) (x_end x) tagbuf namebuf)) false
      else TR toks (MText (mkText (x_buf x ++ [r]) (x_start x) true (x_close x) (x_rawname x) (x_end x) [] [])) false
  else if N.eqb r cLT then
    TR (mkTok KText (x_buf x) (x_start x) p0 [] [] :: toks) (MTag (new_tag p0)) false
  else TR toks (MText (mkText (x_buf x ++ [r]) (x_start x) false [] [] (0,0) [] [])) false.

Definition dispatch (toks : list token) (m : mode) (r : rune) (p0 p1 : pos) : tres :=
  match m with
  | MInit => (* inside a raw-text element the content is text even when it starts with '<' *)
             match raw_tag_of_last toks with
             | Some _ => text_step toks (new_text toks p0) r p0 p1
             | None => if N.eqb r cLT then TR toks (MTag (new_tag p0)) false
                       else text_step toks (new_text toks p0) r p0 p1
             end
  | MText x => text_step toks x r p0 p1
  | MTag g => tag_step toks g r p0 p1
  | MErr e => TR toks (MErr e) false
  end.

Definition step (s : sstate) (r : rune) : sstate :=
  let p0 := s_pos s in let p1 := adv p0 r in
  match dispatch (s_toks s) (s_mode s) r p0 p1 with
  | TR toks m false => mkS toks p1 m
  | TR toks m true =>
    match dispatch toks m r p0 p1 with
    | TR toks' m' _ => mkS toks' p1 m'
    end
  end.

Definition init : sstate := mkS [] (1,1) MInit.

Definition finish (s : sstate) : list token + serr :=
  match s_mode s with
  | MInit => inl (rev (s_toks s))
  | MText x => inl (rev (mkTok KText (x_buf x) (x_start x) (s_pos s) [] [] :: s_toks s))
  | MTag _ => inr EUnexpectedEOF
  | MErr e => inr e
  end.

Definition scan (src : str) := finish (fold_left step src init).
End Scan.
