(* The scanner with the attribute compiler plugged in (HtmlScanner.compileAttr). *)
From Tpl Require Export Html.Scan Html.Code Html.Tree.
Open Scope N_scope.

Section Pipe.
Variable is_space : rune -> bool.
Variable to_lower : rune -> rune.
Variable text_tags : list str.
Variable void_elements : list str.
Variable attr_prefix : str.
Variable parse_ok : pos -> str -> bool.   (* exp.ParseCode accepts the text of a ${} block *)

Definition attr_ctoks (a : attr) : list ctok + cerr :=
  match a_value a with
  | None => inl []
  | Some v => if prefixb attr_prefix (a_name a) then cscan parse_ok (a_vstart a) v else inl []
  end.
Definition compile_attr (a : attr) : bool :=
  match attr_ctoks a with inl _ => true | inr _ => false end.

Definition scan_html (src : str) : list token + serr :=
  scan is_space to_lower text_tags attr_prefix compile_attr src.

Definition load (src : str) : node + serr :=
  match scan_html src with
  | inl toks => inl (build to_lower void_elements toks)
  | inr e => inr e
  end.
End Pipe.
