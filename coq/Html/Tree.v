(* Model of html/parser.go (ParseTokens) and of the tag predicates of html/tag.go. *)
From Tpl Require Export Html.Scan.
Open Scope N_scope.

Inductive node := Node (id : N) (tok : option token) (children : list node) (endtok : option token).
Definition n_id (n : node) := let 'Node i _ _ _ := n in i.
Definition n_tok (n : node) := let 'Node _ t _ _ := n in t.
Definition n_children (n : node) := let 'Node _ _ c _ := n in c.
Definition n_end (n : node) := let 'Node _ _ _ e := n in e.

Definition last_rune (s : str) : option rune := match rev s with c :: _ => Some c | [] => None end.
Definition ends_slash (s : str) : bool := match last_rune s with Some c => N.eqb c cSLASH | None => false end.

(* Tag.IsSelfClose: <name/>, <name x/>, <name k=v/> *)
Definition is_self_close (t : token) : bool :=
  match rev (t_attrs t) with
  | [] => ends_slash (t_name t)
  | a :: _ => match a_value a with None => ends_slash (a_name a) | Some v => ends_slash v end
  end.
Definition is_close (t : token) : bool := prefixb [cSLASH] (t_name t) || is_self_close t.

Section Build.
Variable to_lower : rune -> rune.
Variable void_elements : list str.
Definition is_void (name : str) : bool :=
  let n := map to_lower name in existsb (fun v => str_eqb (map to_lower v) n) void_elements.

(* Zipper: children of the current node (reversed) and the open ancestors. *)
Record frame := mkF { f_id : N; f_tok : option token; f_sibs : list node (* reversed, before this node *) }.
Record bstate := mkB { b_cur : list node; b_stack : list frame; b_next : N }.

Definition leaf (i : N) (t : token) : node := Node i (Some t) [] None.

Definition bstep (b : bstate) (t : token) : bstate :=
  let i := b_next b in
  match t_kind t with
  | KTag =>
    let v := is_void (t_name t) in
    if is_close t || v then
      if is_self_close t || v then mkB (leaf i t :: b_cur b) (b_stack b) (i + 1)
      else match b_stack b with
           | [] => mkB (leaf i t :: b_cur b) [] (i + 1)            (* stray close tag at top level: a leaf *)
           | f :: st => mkB (Node (f_id f) (f_tok f) (rev (b_cur b)) (Some t) :: f_sibs f) st (i + 1)
           end
    else mkB [] (mkF i (Some t) (b_cur b) :: b_stack b) (i + 1)
  | _ => mkB (leaf i t :: b_cur b) (b_stack b) (i + 1)
  end.

(* Elements still open at the end of input are closed without an end token. *)
Fixpoint close_all (cur : list node) (st : list frame) : list node :=
  match st with
  | [] => cur
  | f :: st' => close_all (Node (f_id f) (f_tok f) (rev cur) None :: f_sibs f) st'
  end.

Definition build (toks : list token) : node :=
  let b := fold_left bstep toks (mkB [] [] 1) in
  Node 0 None (rev (close_all (b_cur b) (b_stack b))) None.
End Build.

(* flatten: tokens of a tree in document order *)
Fixpoint flatten (n : node) : list token :=
  let 'Node _ t ch e := n in
  (match t with Some x => [x] | None => [] end) ++ flat_map flatten ch ++ (match e with Some x => [x] | None => [] end).
