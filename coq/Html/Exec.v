(* Model of html/template.go (Execute / execute / processTagStart and friends), html/tag.go
   (SortedAttr), html/tag_attr.go (Evaluate / WithAssign): a transliteration in which the
   re-execution of an element by its if/else/range directive is a call with a larger [mask].
   Every call decrements fuel (the re-execution is not structural).  The writer is the top-level
   io.Writer with an optional budget of successful Write calls; nested renders write to buffers. *)
From Tpl Require Export Html.Pipeline Exp.Eval.
Open Scope N_scope.

Definition s_amp : str := [38;97;109;112;59].       (* &amp; *)
Definition s_sq : str := [38;35;51;57;59].          (* &#39; *)
Definition s_lt : str := [38;108;116;59].           (* &lt; *)
Definition s_gt : str := [38;103;116;59].           (* &gt; *)
Definition s_dq : str := [38;35;51;52;59].          (* &#34; *)
Definition escape1 (r : rune) : str :=
  if N.eqb r cAMP then s_amp else if N.eqb r cSQ then s_sq else if N.eqb r cLT then s_lt
  else if N.eqb r cGT then s_gt else if N.eqb r cDQ then s_dq else [r].
Definition escape (s : str) : str := flat_map escape1 s.

Inductive rcause := RC (c : cause) | RNotFound | RNoValue | RWriter | RFuel | RSyntax.
Inductive rres := ROk | RErr (c : rcause) | RUnmodelled.
Record rst := mkR { r_log : log; r_budget : option nat }.
Definition tbl := list (N * bool).              (* htmlTemplate.nodeCondition, keyed by node id *)
Definition tbl_get (t : tbl) (k : N) : option bool :=
  match find (fun kv => N.eqb (fst kv) k) t with Some kv => Some (snd kv) | None => None end.
Definition tbl_set (t : tbl) (k : N) (b : bool) : tbl := (k, b) :: filter (fun kv => negb (N.eqb (fst kv) k)) t.

(* directive names *)
Definition d_with : str := [119;105;116;104].
Definition d_if : str := [105;102].
Definition d_else_if : str := [101;108;115;101;45;105;102].
Definition d_elseif : str := [101;108;115;101;105;102].
Definition d_elif : str := [101;108;105;102].
Definition d_else : str := [101;108;115;101].
Definition d_remove : str := [114;101;109;111;118;101].
Definition d_range : str := [114;97;110;103;101].
Definition d_text : str := [116;101;120;116].
Definition d_raw : str := [114;97;119].
Definition d_define : str := [100;101;102;105;110;101].
Definition d_insert : str := [105;110;115;101;114;116].
Definition d_replace : str := [114;101;112;108;97;99;101].
Definition d_block : str := [98;108;111;99;107].
(* the block test compares the lower-cased tag name WITHOUT a trailing '/' (<t:block/> keeps the slash in its name) *)
Definition strip_slash (s : str) : str := match rev s with c :: r => if N.eqb c cSLASH then rev r else s | [] => s end.
Definition block_key (to_lower : rune -> rune) (name : str) : str := strip_slash (map to_lower name).
Definition cond_names : list str := [d_if; d_else_if; d_elseif; d_elif; d_else].
Definition is_cond_name (c : str) : bool := existsb (str_eqb c) cond_names.

(* Tag.SortedAttr: the weight map and the comparison; insertion sort = sort.SliceStable for up to
   12 elements (and for any length when the comparison is a strict weak order) *)
Definition weight (n : str) : Z :=
  if str_eqb n d_with then (-4)%Z
  else if is_cond_name n then (-3)%Z
  else if str_eqb n d_range then (-2)%Z
  else if str_eqb n d_remove then (-1)%Z else 0%Z.
Definition attr_less (prefix : str) (x y : str) : bool :=
  let xp := prefixb prefix x in let yp := prefixb prefix y in
  let x' := if xp then skipn (length prefix) x else x in
  let y' := if yp then skipn (length prefix) y else y in
  if xp && negb yp then true
  else if negb xp && negb yp then false
  else (weight x' <? weight y')%Z.
Fixpoint insert_sorted (prefix : str) (a : attr) (sorted_rev : list attr) : list attr :=
  (* sorted_rev: already placed attributes, last first; move a left while less(a, previous) *)
  match sorted_rev with
  | [] => [a]
  | b :: r => if attr_less prefix (a_name a) (a_name b) then b :: insert_sorted prefix a r else a :: sorted_rev
  end.
Definition sorted_attrs (prefix : str) (l : list attr) : list attr :=
  rev (fold_left (fun acc a => insert_sorted prefix a acc) l []).

Definition remove_values (s : str) : list str := [cDQ :: s ++ [cDQ]; cSQ :: s ++ [cSQ]].
Definition s_all : str := [97;108;108].
Definition s_body : str := [98;111;100;121].
Definition s_tag : str := [116;97;103].
Definition s_abf : str := [97;108;108;45;98;117;116;45;102;105;114;115;116].
Definition s_true : str := [116;114;117;101].
Definition s_assign : str := [58;61].

Inductive child_action := CDefault | CNop | CText (a : attr) (esc : bool) | CAllButFirst (sc : scope).

Record template := mkT { tp_children : list node; tp_ctx : list node }.
Record manager := mkM { m_tag_prefix : str; m_attr_prefix : str; m_templates : list (str * template); m_global : scope }.

Section Exec.
Variable is_space : rune -> bool.
Variable to_lower : rune -> rune.
Variable is_letter : rune -> bool.
Variable is_udigit : rune -> bool.
Variable methods : N -> bool -> list (str * N).
Variable call_fn : N -> list value -> fres.
Variable mgr : manager.

Definition prefix := m_attr_prefix mgr.
Definition parse_ok (_ : pos) (s : str) : bool :=
  match parse_code is_letter is_udigit s with Some _ => true | None => false end.
Definition ctoks_of (a : attr) : list ctok :=
  match attr_ctoks prefix parse_ok a with inl l => l | inr _ => [] end.

Definition is_blank_text (n : node) : bool :=
  match n_tok n with
  | Some t => match t_kind t with KText => forallb is_space (t_value t) | _ => false end
  | None => false
  end.
Definition is_tag_node (n : node) : bool :=
  match n_tok n with Some t => match t_kind t with KTag => true | _ => false end | None => false end.
(* Node.GetPreviousSiblingTag / GetNextSibling inside the parent's child list *)
Fixpoint prev_tag (ctx : list node) (id : N) (last : option node) : option node :=
  match ctx with
  | [] => None
  | c :: r => if N.eqb (n_id c) id then last else prev_tag r id (if is_tag_node c then Some c else last)
  end.
Fixpoint next_sibling (ctx : list node) (id : N) : option node :=
  match ctx with
  | [] => None
  | c :: r => if N.eqb (n_id c) id then (match r with x :: _ => Some x | [] => None end) else next_sibling r id
  end.

Definition has_attr_named (l : list attr) (n : str) : bool := existsb (fun a => str_eqb (a_name a) n) l.
Definition has_dir (l : list attr) (d : str) : bool := has_attr_named l (prefix ++ d).

(* evaluation of one ${} block: result value as text *)
Definition eval_block (sc : scope) (code : str) (lg : log) : res str * log :=
  match eval_text is_letter is_udigit methods call_fn sc code lg with
  | (Ok v, lg') => (match fmt_v v with Some s => Ok s | None => Unmodelled end, lg')
  | (Err c, lg') => (Err c, lg')
  | (Unmodelled, lg') => (Unmodelled, lg')
  end.

Definition lift_res {A} (r : res A) : rres := match r with Ok _ => ROk | Err c => RErr (RC c) | Unmodelled => RUnmodelled end.

(* Attr.Evaluate *)
Fixpoint eval_ctoks (sc : scope) (l : list ctok) (acc : str) (lg : log) : res str * log :=
  match l with
  | [] => (Ok acc, lg)
  | t :: r =>
    match c_kind t with
    | Literal => eval_ctoks sc r (acc ++ c_value t) lg
    | CodeValue =>
      match eval_block sc (c_value t) lg with
      | (Ok s, lg') => eval_ctoks sc r (acc ++ s) lg'
      | (e, lg') => (e, lg')
      end
    | _ => eval_ctoks sc r acc lg
    end
  end.
Inductive ares := AOk (s : str) | AErr (c : rcause) | AUnm.
Definition attr_evaluate (a : attr) (sc : scope) (lg : log) : ares * log :=
  match a_value a with
  | None => (AErr RNoValue, lg)
  | Some v =>
    match ctoks_of a with
    | [] => (AOk v, lg)
    | l => match eval_ctoks sc l [] lg with
           | (Ok s, lg') => (AOk s, lg')
           | (Err c, lg') => (AErr (RC c), lg')
           | (Unmodelled, lg') => (AUnm, lg')
           end
    end
  end.

(* Attr.WithAssign: names and code blocks *)
Definition trim (s : str) : str := trim_space is_space s.
Fixpoint with_collect (l : list ctok) (names : list str) (codes : list ctok) : option (list str * list ctok) :=
  match l with
  | [] => Some (rev names, rev codes)
  | t :: r =>
    match c_kind t with
    | Literal =>
      let name := trim (c_value t) in
      match name with
      | [] => with_collect r names codes
      | _ =>
        if Nat.ltb (length names) (length codes) then None
        else if negb (suffixb s_assign name) then None
        else
          let name := trim (drop_last 2 name) in
          match names with
          | [] => with_collect r (name :: names) codes
          | _ => if prefixb [cSEMI] name then with_collect r (trim (skipn 1 name) :: names) codes else None
          end
      end
    | CodeValue =>
      if Nat.eqb (length names) (S (length codes)) then with_collect r names (t :: codes) else None
    | _ => with_collect r names codes
    end
  end.
Fixpoint with_eval (sc : scope) (names : list str) (codes : list ctok) (acc : list (str * value)) (lg : log)
  : res (list (str * value)) * log :=
  match names, codes with
  | n :: ns, c :: cs =>
    match eval_text is_letter is_udigit methods call_fn sc (c_value c) lg with
    | (Ok v, lg') => with_eval sc ns cs ((n, v) :: filter (fun kv => negb (str_eqb (fst kv) n)) acc) lg'
    | (Err e, lg') => (Err e, lg')
    | (Unmodelled, lg') => (Unmodelled, lg')
    end
  | _, _ => (Ok acc, lg)
  end.
Definition with_assign (a : attr) (sc : scope) (lg : log) : (scope + rres) * log :=
  match a_value a with
  | None => (inr (RErr RNoValue), lg)
  | Some _ =>
    match with_collect (ctoks_of a) [] [] with
    | None => (inr (RErr RSyntax), lg)
    | Some (names, codes) =>
      match names with
      | [] => (inr (RErr RSyntax), lg)
      | _ => if negb (Nat.eqb (length codes) (length names)) then (inr (RErr RSyntax), lg)
             else match with_eval sc names codes [] lg with
                  | (Ok m, lg') => (inl (SCombine (SData (VMap m)) sc), lg')
                  | (Err e, lg') => (inr (RErr (RC e)), lg')
                  | (Unmodelled, lg') => (inr RUnmodelled, lg')
                  end
      end
    end
  end.

(* extractRange *)
Definition split_on (c : rune) (s : str) : option (str * str) :=
  match index_of c s with Some i => Some (firstn i s, skipn (S i) s) | None => None end.
Definition extract_range (s : str) : str * str * str :=   (* index name, item name, object *)
  let s := trim s in
  match split_on cCOLON s with
  | None => ([], [], s)
  | Some (hd, obj) =>
    match split_on cCOMMA hd with
    | None => (trim hd, [], trim obj)
    | Some (i, it) => (trim i, trim it, trim obj)
    end
  end.
Definition strip_quotes (v : str) : str :=
  trim_suffix [cDQ] (trim_prefix [cDQ] (trim_suffix [cSQ] (trim_prefix [cSQ] v))).

(* UTF-8 bytes of a string (range over a string iterates bytes) *)
Definition utf8_bytes1 (r : rune) : list N :=
  if r <? 128 then [r]
  else if r <? 2048 then [192 + r / 64; 128 + r mod 64]
  else if r <? 65536 then [224 + r / 4096; 128 + (r / 64) mod 64; 128 + r mod 64]
  else [240 + r / 262144; 128 + (r / 4096) mod 64; 128 + (r / 64) mod 64; 128 + r mod 64].
Definition utf8_bytes (s : str) : list N := flat_map utf8_bytes1 s.

Fixpoint enumerate1 {A} (i : Z) (l : list A) : list (Z * A) :=
  match l with [] => [] | x :: r => (i, x) :: enumerate1 (i + 1)%Z r end.
(* the (key, item) pairs a range header iterates over *)
Definition range_items (v : value) : option (list (value * value)) :=
  match v with
  | VSeq _ l _ => Some (map (fun p => (VInt KInt (fst p), snd p)) (enumerate1 1%Z l))
  | VStr s => Some (map (fun p => (VInt KInt (fst p), VInt KUint8 (Z.of_N (snd p)))) (enumerate1 1%Z (utf8_bytes s)))
  | VMap m => Some (map (fun kv => (VStr (fst kv), snd kv)) m)
  | _ => None
  end.
Definition range_scope (idx item : str) (k v : value) (sc : scope) : scope :=
  SCombine (SData (VMap (if str_eqb idx item then [(item, v)] else [(item, v); (idx, k)]))) sc.

Definition is_hidden_comment (v : str) : bool :=
  let inner := trim (trim_suffix [cDASH; cDASH; cGT] (trim_prefix [cLT; cBANG; cDASH; cDASH] v)) in
  prefixb [cSLASH; cSTAR] inner && suffixb [cSTAR; cSLASH] inner.

(* one Write call on the current writer *)
Definition write (top : bool) (s : str) (st : rst) : str * rres * rst :=
  if top then
    match r_budget st with
    | Some O => ([], RErr RWriter, st)
    | Some (S k) => (s, ROk, mkR (r_log st) (Some k))
    | None => (s, ROk, st)
    end
  else (s, ROk, st).

Definition R := (str * rres * tbl * rst)%type.
Definition seq2 (a : R) (f : tbl -> rst -> R) : R :=
  match a with
  | (o1, ROk, t1, s1) => match f t1 s1 with (o2, r, t2, s2) => (o1 ++ o2, r, t2, s2) end
  | other => other
  end.
Definition wr (top : bool) (s : str) (t : tbl) (st : rst) : R :=
  match write top s st with (o, r, st') => (o, r, t, st') end.
Definition set_log (st : rst) (lg : log) : rst := mkR lg (r_budget st).

(* the state of the attribute loop of processTagStart *)
Record lstate := mkL {
  l_sc : scope; l_np : bool; l_child : child_action;
  l_tagbuf : str; l_content : str; l_direct : str; l_replace : bool }.

(* The body of execute / processTagStart, parameterised by the recursive call [exec] (the same
   function with one unit of fuel less), so that lemmas about the pieces can be stated for any
   [exec] satisfying an invariant and lifted by induction on the fuel. *)
Section Body.
Variable exec : N -> list node -> node -> scope -> bool -> tbl -> rst -> R.

Fixpoint exec_list (ctx' : list node) (l : list node) (sc' : scope) (top' : bool) (t : tbl) (st : rst) : R :=
  match l with
  | [] => ([], ROk, t, st)
  | c :: r => seq2 (exec 0 ctx' c sc' top' t st) (exec_list ctx' r sc' top')
  end.

(* NewTemplate: a fresh object (fresh condition table) renders the fragment into a buffer *)
Definition run_template (tp : template) (sc' : scope) (st : rst) : str * rres * rst :=
  match exec_list (tp_ctx tp) (tp_children tp) sc' false [] st with (o, r, _, st') => (o, r, st') end.

Definition set_child (ls : lstate) (c : child_action) : lstate :=
  mkL (l_sc ls) (l_np ls) c (l_tagbuf ls) (l_content ls) (l_direct ls) (l_replace ls).
Definition add_direct (ls : lstate) (o : str) : lstate :=
  mkL (l_sc ls) (l_np ls) (l_child ls) (l_tagbuf ls) (l_content ls) (l_direct ls ++ o) (l_replace ls).
Definition add_tagbuf (ls : lstate) (o : str) : lstate :=
  mkL (l_sc ls) (l_np ls) (l_child ls) (l_tagbuf ls ++ o) (l_content ls) (l_direct ls) (l_replace ls).

Definition LR := ((lstate + rres) * tbl * rst)%type.

(* evaluateCondition: evaluate the attribute, record the outcome for this node, re-execute the
   element (with the condition mark set) when the value is "true" *)
Definition eval_cond (mask : N) (ctx : list node) (n : node) (a : attr) (ls : lstate) (t : tbl) (st : rst) : LR :=
  match attr_evaluate a (l_sc ls) (r_log st) with
  | (AOk s, lg) =>
    let st1 := set_log st lg in
    if str_eqb s s_true then
      match exec (N.lor mask 1) ctx n (l_sc ls) false (tbl_set t (n_id n) true) st1 with
      | (o, ROk, t2, st2) => (inl (add_direct (set_child ls CNop) o), t2, st2)
      | (_, r, t2, st2) => (inr r, t2, st2)
      end
    else (inl (set_child ls CNop), tbl_set t (n_id n) false, st1)
  | (AErr c, lg) => (inr (RErr c), t, set_log st lg)
  | (AUnm, lg) => (inr RUnmodelled, t, set_log st lg)
  end.

(* processIfElse for the invocation that owns the condition *)
Definition cond_owner (mask : N) (ctx : list node) (n : node) (a : attr) (cmd : str) (ls : lstate) (t : tbl) (st : rst) : LR :=
  if str_eqb cmd d_if then eval_cond mask ctx n a ls t st
  else
    match match prev_tag ctx (n_id n) None with Some p => tbl_get t (n_id p) | None => None end with
    | None => (inr (RErr RSyntax), t, st)          (* else without a preceding chain element *)
    | Some false => eval_cond mask ctx n a ls t st
    | Some true => (inl (set_child ls CNop), tbl_set t (n_id n) true, st)   (* chain already satisfied *)
    end.

(* the per-item loop of processRange *)
Fixpoint range_iter (mask : N) (ctx : list node) (n : node) (idx item : str) (scope0 : scope) (sep : option node)
    (items : list (value * value)) (first : bool) (acc : str) (t : tbl) (st : rst) : (str + rres) * tbl * rst :=
  match items with
  | [] => (inl acc, t, st)
  | (k, v) :: more =>
    let csc := range_scope idx item k v scope0 in
    let sep_out := match sep, first with
                   | Some x, false => (match n_tok x with Some tk => t_value tk | None => [] end)
                   | _, _ => [] end in
    match exec (N.lor mask 2) ctx n csc false t st with
    | (o, ROk, t2, st2) => range_iter mask ctx n idx item scope0 sep more false (acc ++ sep_out ++ o) t2 st2
    | (_, r, t2, st2) => (inr r, t2, st2)
    end
  end.

Definition range_owner (mask : N) (ctx : list node) (n : node) (av : str) (ls : lstate) (t : tbl) (st : rst) : LR :=
  let '(idx, item, obj) := extract_range (strip_quotes av) in
  match parse_code is_letter is_udigit obj with
  | None => (inr (RErr RSyntax), t, st)
  | Some _ =>
    let scope0 := with_default (l_sc ls) in
    match eval_text is_letter is_udigit methods call_fn scope0 obj (r_log st) with
    | (Ok v, lg) =>
      match range_items v with
      | None => (inr (match v with VOpaque _ => RUnmodelled | _ => RErr (RC COther) end), t, set_log st lg)
      | Some items =>
        let sep := match next_sibling ctx (n_id n) with
                   | Some x => if is_blank_text x then Some x else None
                   | None => None end in
        match range_iter mask ctx n idx item scope0 sep items true [] t (set_log st lg) with
        | (inl o, t2, st2) => (inl (add_direct ls o), t2, st2)
        | (inr r, t2, st2) => (inr r, t2, st2)
        end
      end
    | (Err c, lg) => (inr (RErr (RC c)), t, set_log st lg)
    | (Unmodelled, lg) => (inr RUnmodelled, t, set_log st lg)
    end
  end.

Definition remove_step (a : attr) (ls : lstate) : lstate :=
  let av := match a_value a with Some v => v | None => [] end in
  if existsb (str_eqb av) (remove_values s_all) then mkL (l_sc ls) true CNop (l_tagbuf ls) (l_content ls) (l_direct ls) (l_replace ls)
  else if existsb (str_eqb av) (remove_values s_body) then set_child ls CNop
  else if existsb (str_eqb av) (remove_values s_tag) then mkL (l_sc ls) true (l_child ls) (l_tagbuf ls) (l_content ls) (l_direct ls) (l_replace ls)
  else if existsb (str_eqb av) (remove_values s_abf) then
    match l_child ls with
    | CDefault => set_child ls (CAllButFirst (l_sc ls))
    | _ => ls end
  else ls.

(* one attribute of the (sorted) attribute loop; [attrs] = all attributes of the tag *)
Definition attr_step (mask : N) (ctx : list node) (n : node) (attrs : list attr) (a : attr) (ls : lstate) (t : tbl) (st : rst) : LR :=
  let an := a_name a in
  if prefixb prefix an then
    let cmd := skipn (length prefix) an in
    if str_eqb cmd d_with then
      if negb (N.eqb mask 0) then (inl ls, t, st)
      else match with_assign a (l_sc ls) (r_log st) with
           | (inl sc', lg) => (inl (mkL sc' (l_np ls) (l_child ls) (l_tagbuf ls) (l_content ls) (l_direct ls) (l_replace ls)), t, set_log st lg)
           | (inr e, lg) => (inr e, t, set_log st lg)
           end
    else if is_cond_name cmd then
      match a_value a with
      | None => (inr (RErr RNoValue), t, st)
      | Some _ => if negb (N.eqb (N.land mask 1) 0) then (inl ls, t, st) else cond_owner mask ctx n a cmd ls t st
      end
    else if str_eqb cmd d_range then
      match a_value a with
      | None => (inr (RErr RNoValue), t, st)
      | Some av => if negb (N.eqb (N.land mask 2) 0) then (inl ls, t, st) else range_owner mask ctx n av ls t st
      end
    else if str_eqb cmd d_remove then (inl (remove_step a ls), t, st)
    else if str_eqb cmd d_text || str_eqb cmd d_raw then
      match l_child ls with
      | CDefault => (inl (set_child ls (CText a (str_eqb cmd d_text))), t, st)
      | _ => (inl ls, t, st)
      end
    else if str_eqb cmd d_define then (inl ls, t, st)
    else if str_eqb cmd d_replace || str_eqb cmd d_insert then
      let repl := l_replace ls || str_eqb cmd d_replace in
      match attr_evaluate a (l_sc ls) (r_log st) with
      | (AOk name, lg) =>
        match assoc name (m_templates mgr) with
        | None => (inr (RErr RNotFound), t, set_log st lg)
        | Some tp =>
          match run_template tp (l_sc ls) (set_log st lg) with
          | (o, ROk, st2) =>
            (inl (if repl
                  then mkL (l_sc ls) (l_np ls) (l_child ls) (l_tagbuf ls) (l_content ls) (l_direct ls ++ o) true
                  else mkL (l_sc ls) (l_np ls) (l_child ls) (l_tagbuf ls) (l_content ls ++ o) (l_direct ls) false), t, st2)
          | (_, r, st2) => (inr r, t, st2)
          end
        end
      | (AErr c, lg) => (inr (RErr c), t, set_log st lg)
      | (AUnm, lg) => (inr RUnmodelled, t, set_log st lg)
      end
    else
      (* dynamic attribute *)
      match attr_evaluate a (l_sc ls) (r_log st) with
      | (AOk v, lg) => (inl (add_tagbuf ls ([cSP] ++ cmd ++ [cEQ; cDQ] ++ escape v ++ [cDQ])), t, set_log st lg)
      | (AErr c, lg) => (inr (RErr c), t, set_log st lg)
      | (AUnm, lg) => (inr RUnmodelled, t, set_log st lg)
      end
  else
    (* plain attribute: printed unless a dynamic attribute of the same name exists *)
    if has_attr_named attrs (prefix ++ an) then (inl ls, t, st)
    else (inl (add_tagbuf ls ([cSP] ++ an ++ match a_value a with Some v => cEQ :: v | None => [] end)), t, st).

(* is [a] the if/else or range directive that this invocation owns (it returns right after it)? *)
Definition is_owner (mask : N) (a : attr) : bool :=
  let cmd := skipn (length prefix) (a_name a) in
  prefixb prefix (a_name a) &&
  ((is_cond_name cmd && N.eqb (N.land mask 1) 0) || (str_eqb cmd d_range && N.eqb (N.land mask 2) 0)).

Fixpoint run_attrs (mask : N) (ctx : list node) (n : node) (attrs : list attr) (l : list attr) (ls : lstate) (t : tbl) (st : rst) : LR :=
  match l with
  | [] => (inl ls, t, st)
  | a :: rest =>
    match attr_step mask ctx n attrs a ls t st with
    | (inl ls', t', st') => if is_owner mask a then (inl ls', t', st') else run_attrs mask ctx n attrs rest ls' t' st'
    | e => e
    end
  end.

(* the suppression pre-checks of processTagStart *)
Definition init_lstate (mask : N) (tok : token) (sc : scope) : lstate :=
  let attrs := t_attrs tok in
  let np0 := str_eqb (block_key to_lower (t_name tok)) (m_tag_prefix mgr ++ d_block) in
  let has := has_dir attrs in
  let sup1 := has d_define || has d_replace in
  let sup2 := existsb has cond_names && N.eqb (N.land mask 1) 0 in
  let sup3 := has d_range && N.eqb (N.land mask 2) 0 in
  mkL sc (np0 || sup1 || sup2 || sup3) (if sup1 || sup2 || sup3 || has d_insert then CNop else CDefault)
      (cLT :: t_name tok) [] [] false.

Definition abf_children (ch : list node) : list node :=
  let first_tag := find is_tag_node ch in
  let tag_index_pos := match ch with c0 :: _ => negb (is_tag_node c0) && (match first_tag with Some _ => true | None => false end) | [] => false end in
  let before := match ch with c0 :: _ => if tag_index_pos && is_blank_text c0 then [c0] else [] | [] => [] end in
  let after := match rev ch with cl :: _ => if is_blank_text cl then [cl] else [] | [] => [] end in
  before ++ (match first_tag with Some x => [x] | None => [] end) ++ after.

Definition run_child (n : node) (ls : lstate) (top : bool) (t2 : tbl) (st2 : rst) : R :=
  match l_child ls with
  | CNop => ([], ROk, t2, st2)
  | CDefault => exec_list (n_children n) (n_children n) (l_sc ls) top t2 st2
  | CText a esc =>
    match attr_evaluate a (l_sc ls) (r_log st2) with
    | (AOk v, lg) => wr top (if esc then escape v else v) t2 (set_log st2 lg)
    | (AErr c, lg) => ([], RErr c, t2, set_log st2 lg)
    | (AUnm, lg) => ([], RUnmodelled, t2, set_log st2 lg)
    end
  | CAllButFirst csc => exec_list (n_children n) (abf_children (n_children n)) csc top t2 st2
  end.

Definition token_buf (ls : lstate) : str :=
  l_direct ls ++ (if l_np ls then [] else l_tagbuf ls ++ [cGT] ++ l_content ls).

Definition exec_tag (mask : N) (ctx : list node) (n : node) (tok : token) (sc : scope) (top : bool) (t : tbl) (st : rst) : R :=
  match run_attrs mask ctx n (t_attrs tok) (sorted_attrs prefix (t_attrs tok)) (init_lstate mask tok sc) t st with
  | (inr r, t', st') => ([], r, t', st')
  | (inl ls, t', st') =>
    seq2 (wr top (token_buf ls) t' st') (fun t2 st2 =>
      seq2 (run_child n ls top t2 st2)
           (fun t3 st3 =>
              match n_end n with
              | Some e => if l_np ls then ([], ROk, t3, st3) else wr top (t_value e) t3 st3
              | None => ([], ROk, t3, st3)
              end))
  end.

(* for a token-less root, [ctx] is the sibling context of its children (a fragment's children keep
   the full child list of their :define element as context) *)
Definition exec_body (mask : N) (ctx : list node) (n : node) (sc : scope) (top : bool) (t : tbl) (st : rst) : R :=
  match n_tok n with
  | None => seq2 (wr top [] t st) (exec_list ctx (n_children n) sc top)
  | Some tok =>
    match t_kind tok with
    | KText | KCDATA => wr top (t_value tok) t st
    | KComment => wr top (if is_hidden_comment (t_value tok) then [] else t_value tok) t st
    | KTag => exec_tag mask ctx n tok sc top t st
    end
  end.
End Body.

Fixpoint exec_node (fuel : nat) (mask : N) (ctx : list node) (n : node) (sc : scope) (top : bool) (t : tbl) (st : rst) {struct fuel} : R :=
  match fuel with
  | O => ([], RErr RFuel, t, st)
  | S f => exec_body (exec_node f) mask ctx n sc top t st
  end.

(* htmlTemplate.Execute: scope = Combine(NewScope(data), global) *)
Definition execute (fuel : nat) (tp : template) (data : value) (t : tbl) (st : rst) : R :=
  let sc := SCombine (SData (match data with VNil => VMap [] | d => d end)) (m_global mgr) in
  exec_node fuel 0 (tp_ctx tp) (Node 0 None (tp_children tp) None) sc true t st.
End Exec.
