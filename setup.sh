#!/bin/sh
# Builds the framework from files on disk only (offline): Coq development, extracted model, Go harness.
set -e
cd "$(dirname "$0")"
export GOFLAGS=-mod=mod GOPROXY=off GOSUMDB=off GOTOOLCHAIN=local
( cd coq && coq_makefile -f _CoqProject -o Makefile >/dev/null && timeout 3000 make -j16 )
( cd ocaml && coqc -R ../coq Tpl Extract.v && ocamlfind ocamlopt -w -a -O2 model.mli model.ml driver.ml -o driver )
cp /repo/go.sum harness/go.sum
( cd harness && mkdir -p bin && go build -tags verif -o bin/harness . )
echo setup done
