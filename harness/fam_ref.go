package main

// Family "ref": small structured templates whose expected output is computed natively from the generated
// description (no implementation code, no model): a direct oracle for
//   C04  range: once per item, in order (maps: in some order), index/key and item bound and visible to the element's
//        dynamic attributes, content and descendants; empty => nothing; non-collection => error; the blank text after the
//        element is repeated between consecutive items only;
//   C05  remove modes drop exactly the parts they name.
// Deterministic cases are also sent to the model as ordinary "render" cases; cases whose output order is not determined
// (maps with several entries) or whose data the value codec does not cover are printed as "fuzz ..." lines, which the
// model driver answers with UNMODELLED (oracle only).

import (
	"fmt"
	"sort"
	"strconv"
	"strings"
)

type refItem struct {
	key  any // 1-based position or map key
	ktxt string
	val  any
	vtxt string   // what ${x} prints (alphanumeric: no escaping involved)
	sub  []string // nested collection items (printed by an inner range)
}

func permutations(n int) [][]int {
	if n == 0 {
		return [][]int{{}}
	}
	var out [][]int
	for _, p := range permutations(n - 1) {
		for i := 0; i <= len(p); i++ {
			q := append(append(append([]int{}, p[:i]...), n-1), p[i:]...)
			out = append(out, q)
		}
	}
	return out
}

// Execute(w, nil): no data at all - names resolve in the global scope and the built-ins, unknown names fail
func genNilDataRef(r *Rng, out *outFiles) {
	cfg := tmplCfg{ap: ":", tp: "t:", global: map[string]any{"g1": "G"}}
	type piece struct {
		src, want string
		fails     bool
	}
	pool := []piece{
		{`<p id="a">static</p>`, `<p id="a">static</p>`, false},
		{`<b :text="${'lit'}"></b>`, `<b>lit</b>`, false},
		{`<i :if="${true}">y</i><i :else>n</i>`, `<i>y</i>`, false},
		{`<u :text="${g1}"></u>`, `<u>G</u>`, false},
		{`<s :text="${len('abc')}"></s>`, `<s>3</s>`, false},
		{`<q :with="v := ${1 + 2}" :text="${v}"></q>`, `<q>3</q>`, false},
		{`<em :text="${nosuch}"></em>`, ``, true},
	}
	var src, want strings.Builder
	fails := false
	for i, n := 0, 1+r.Intn(4); i < n; i++ {
		p := pool[r.Intn(len(pool))]
		src.WriteString(p.src)
		if !fails {
			if p.fails {
				fails = true
			} else {
				want.WriteString(p.want)
			}
		}
	}
	caseLine := "fuzz ref-nildata " + strconv.Quote(src.String())
	noteInput(caseLine)
	why, line := "", "REF ok"
	func() {
		defer func() {
			if x := recover(); x != nil {
				why = fmt.Sprintf("Execute(w, nil) panicked on %q: %v", src.String(), x)
			}
		}()
		m, le := newManager(cfg, [][2]string{{"n.html", src.String()}})
		if le != "" {
			why = "template did not load: " + le
			return
		}
		tpl, _ := m.GetTemplate("n.html")
		var sb strings.Builder
		err := tpl.Execute(&sb, nil)
		switch {
		case fails && err == nil:
			why = fmt.Sprintf("Execute(w, nil) of %q: an unknown name did not fail (output %q)", src.String(), sb.String())
		case !fails && err != nil:
			why = fmt.Sprintf("Execute(w, nil) of %q fails: %v", src.String(), err)
		case !fails && sb.String() != want.String():
			why = fmt.Sprintf("Execute(w, nil) of %q renders %q, expected %q", src.String(), sb.String(), want.String())
		}
	}()
	if why != "" {
		line = "REF differs"
	}
	out.count("ref-nildata")
	out.put(caseLine, line, verdict("C06", why), verdict("C05", why))
}

// genManyIncludesRef: acyclic inclusion is not bounded by how MANY fragments one execution includes — only nesting is:
// a call site under a range over 129..300 items, 129..200 sibling call sites, and one template object executed 130
// times (C07: insert / replace render the fragment; C16: every later execution like the first)
func genManyIncludesRef(r *Rng, out *outFiles) {
	cfg := tmplCfg{ap: ":", tp: "t:", global: map[string]any{}}
	shape := r.Intn(3)
	n := 129 + r.Intn(172)
	cmd := r.Pick([]string{"insert", "replace"})
	frag := `<div :define="f"><b :text="${x}">z</b></div>` // the fragment is the CONTENT of the defining element
	var src, want strings.Builder
	data := map[string]any{}
	runs := 1
	switch shape {
	case 0: // under range
		xs := make([]any, n)
		for i := range xs {
			xs[i] = strconv.Itoa(i)
		}
		data["big"] = xs
		src.WriteString(`<i :range="_, x : big" :` + cmd + `="f">old</i>`)
		for i := 0; i < n; i++ {
			if cmd == "insert" {
				want.WriteString("<i><b>" + strconv.Itoa(i) + "</b></i>")
			} else {
				want.WriteString("<b>" + strconv.Itoa(i) + "</b>")
			}
		}
	case 1: // sibling call sites
		if n > 200 {
			n = 200
		}
		data["x"] = "s"
		for i := 0; i < n; i++ {
			src.WriteString(`<i :` + cmd + `="f"></i>`)
			if cmd == "insert" {
				want.WriteString("<i><b>s</b></i>")
			} else {
				want.WriteString("<b>s</b>")
			}
		}
	default: // one object, many executions
		data["x"] = "r"
		runs = 130
		src.WriteString(`<i :` + cmd + `="f"></i>`)
		if cmd == "insert" {
			want.WriteString("<i><b>r</b></i>")
		} else {
			want.WriteString("<b>r</b>")
		}
	}
	caseLine := fmt.Sprintf("fuzz ref-manyincludes shape=%d n=%d %s", shape, n, cmd)
	noteInput(caseLine)
	why, line := "", "REF ok"
	func() {
		defer func() {
			if x := recover(); x != nil {
				why = fmt.Sprintf("many includes (%s): panic %v", caseLine, x)
			}
		}()
		m, le := newManager(cfg, [][2]string{{"n.html", src.String() + frag}})
		if le != "" {
			why = "template did not load: " + le
			return
		}
		tpl, _ := m.GetTemplate("n.html")
		for k := 0; k < runs && why == ""; k++ {
			var sb strings.Builder
			if err := tpl.Execute(&sb, data); err != nil {
				why = fmt.Sprintf("%s: execution %d of an ACYCLIC template fails: %v", caseLine, k+1, err)
			} else if sb.String() != want.String() {
				why = fmt.Sprintf("%s: execution %d renders %.120q..., expected %.120q...", caseLine, k+1, sb.String(), want.String())
			}
		}
	}()
	if why != "" {
		line = "REF differs"
	}
	out.count("ref-manyincludes")
	out.put(caseLine, line, verdict("C07", why), verdict("C16", why))
}

func genRefCase(r *Rng, out *outFiles) {
	if r.Chance(6) {
		genNilDataRef(r, out)
		return
	}
	if r.Chance(2) {
		genManyIncludesRef(r, out)
		return
	}
	if r.Chance(35) {
		genRemoveRef(r, out)
		return
	}
	cfg := tmplCfg{ap: r.Pick([]string{":", ":", "v-", "th:", "ui:", "wire:", "attr-"}), tp: "t:", global: map[string]any{}}
	ap := cfg.ap
	words := []string{"a", "b", "c7", "Zed", "q", "x1"}
	var coll any
	var items []refItem
	modelable, ordered, isErr := true, true, false
	kind := r.Intn(11)
	nested, structs := false, false
	switch kind {
	case 0, 1: // []any of strings and ints
		n := r.Intn(5)
		xs := make([]any, n)
		for i := range xs {
			if r.Chance(60) {
				w := r.Pick(words)
				xs[i] = w
				items = append(items, refItem{key: i + 1, ktxt: strconv.Itoa(i + 1), val: w, vtxt: w})
			} else {
				v := int64(r.Intn(100))
				xs[i] = v
				items = append(items, refItem{key: i + 1, ktxt: strconv.Itoa(i + 1), val: v, vtxt: strconv.FormatInt(v, 10)})
			}
		}
		coll = xs
	case 2: // []int
		n := r.Intn(4)
		xs := make([]int, n)
		for i := range xs {
			xs[i] = r.Intn(50)
			items = append(items, refItem{key: i + 1, ktxt: strconv.Itoa(i + 1), val: xs[i], vtxt: strconv.Itoa(xs[i])})
		}
		coll = xs
	case 3: // array
		a := [2]string{r.Pick(words), r.Pick(words)}
		for i, w := range a {
			items = append(items, refItem{key: i + 1, ktxt: strconv.Itoa(i + 1), val: w, vtxt: w})
		}
		coll = a
	case 4: // string: one item per byte
		s := r.Pick([]string{"ab", "", "xyz", "hé", "q"})
		for i := 0; i < len(s); i++ {
			items = append(items, refItem{key: i + 1, ktxt: strconv.Itoa(i + 1), val: s[i], vtxt: strconv.Itoa(int(s[i]))})
		}
		coll = s
	case 5, 6: // map with string keys
		n := r.Intn(4)
		m := map[string]any{}
		for len(m) < n {
			k := r.Pick([]string{"ka", "kb", "kc", "kd", "k1"})
			if _, ok := m[k]; ok {
				continue
			}
			m[k] = r.Pick(words) + strconv.Itoa(len(m))
		}
		var ks []string
		for k := range m {
			ks = append(ks, k)
		}
		sort.Strings(ks)
		for _, k := range ks {
			items = append(items, refItem{key: k, ktxt: k, val: m[k], vtxt: m[k].(string)})
		}
		coll = m
		ordered = n < 2
	case 7: // map with int keys (not covered by the value codec: oracle only)
		n := r.Intn(3)
		m := map[int]string{}
		for len(m) < n {
			m[r.Intn(9)] = r.Pick(words)
		}
		var ks []int
		for k := range m {
			ks = append(ks, k)
		}
		sort.Ints(ks)
		for _, k := range ks {
			items = append(items, refItem{key: k, ktxt: strconv.Itoa(k), val: m[k], vtxt: m[k]})
		}
		coll = m
		ordered = n < 2
		modelable = false
	case 8: // nested collections
		n := r.Intn(4)
		xs := make([]any, n)
		for i := range xs {
			k := r.Intn(3)
			in := make([]any, k)
			var sub []string
			for j := range in {
				w := r.Pick(words)
				in[j] = w
				sub = append(sub, w)
			}
			xs[i] = in
			items = append(items, refItem{key: i + 1, ktxt: strconv.Itoa(i + 1), val: in, sub: sub})
		}
		coll = xs
		nested = true
	case 9: // struct items
		n := r.Intn(4)
		xs := make([]T1, n)
		for i := range xs {
			xs[i] = T1{Name: r.Pick(words), Age: r.Intn(9)}
			items = append(items, refItem{key: i + 1, ktxt: strconv.Itoa(i + 1), val: xs[i], vtxt: xs[i].Name})
		}
		coll = xs
		structs = true
	default: // not a collection
		coll = []any{int64(5), nil, true, T1{Name: "n"}, 2.5}[r.Intn(5)]
		isErr = true
	}
	// header
	type hdr struct{ idx, item, form string }
	h := []hdr{{"", "", "OBJ"}, {"i", "", "i : OBJ"}, {"i", "x", "i, x : OBJ"}, {"", "x", ", x : OBJ"}, {"_", "x", "_, x : OBJ"},
		{"i", "x", " i , x : OBJ "}, {"i", "x", "i,x:OBJ"}, {"k", "v", "k, v : OBJ"}, {"i", "x", "i, x : OBJ"}}[r.Intn(9)]
	obj := r.Pick([]string{"coll", "coll", "ident(coll)", "d.coll"})
	header := strings.ReplaceAll(h.form, "OBJ", obj)
	I, X := h.idx, h.item
	if I == "_" {
		I = ""
	}
	// element: optional dynamic attribute, content using the variables, a descendant using them
	useAttr, useText, useDesc, useInterp := r.Chance(50), r.Chance(35), r.Chance(50), r.Chance(40)
	var el strings.Builder
	el.WriteString("<li " + ap + `range="` + header + `"`)
	xexpr := X
	if structs && X != "" {
		xexpr = X + ".Name"
		if r.Bool() { // the item as a whole, handed to a function whose parameter is the struct type (by value)
			xexpr = "nameOf(" + X + ")"
		}
	}
	if nested {
		xexpr = ""
	}
	render := func(it refItem) string {
		var sb strings.Builder
		sb.WriteString("<li")
		if useAttr && (I != "" || xexpr != "") {
			sb.WriteString(` data-k="`)
			if I != "" {
				sb.WriteString(it.ktxt)
			}
			sb.WriteString("-")
			if xexpr != "" {
				sb.WriteString(it.vtxt)
			}
			sb.WriteString(`"`)
		}
		sb.WriteString(">")
		if useText && xexpr != "" {
			sb.WriteString(it.vtxt)
		} else {
			if useInterp && I != "" {
				sb.WriteString("[${" + I + "}]") // text nodes are not interpolated
			}
			if useDesc && xexpr != "" {
				sb.WriteString("<b><i>" + it.vtxt + "</i></b>")
			}
			if nested && X != "" {
				for _, y := range it.sub {
					sb.WriteString("<u>" + y + "</u>")
				}
			}
			sb.WriteString("z")
		}
		sb.WriteString("</li>")
		return sb.String()
	}
	if useAttr && (I != "" || xexpr != "") {
		el.WriteString(" " + ap + `data-k="`)
		if I != "" {
			el.WriteString("${" + I + "}")
		}
		el.WriteString("-")
		if xexpr != "" {
			el.WriteString("${" + xexpr + "}")
		}
		el.WriteString(`"`)
	}
	if useText && xexpr != "" {
		el.WriteString(" " + ap + `text="${` + xexpr + `}"`)
	}
	el.WriteString(">")
	if useInterp && I != "" {
		el.WriteString("[${" + I + "}]")
	}
	if useDesc && xexpr != "" {
		el.WriteString("<b><i " + ap + `text="${` + xexpr + `}"></i></b>`)
	}
	if nested && X != "" {
		el.WriteString("<u " + ap + `range="j, y : ` + X + `" ` + ap + `text="${y}"></u>`)
	}
	el.WriteString("z</li>")
	pre := r.Pick([]string{"", "", "\n  ", "p"})
	after := r.Pick([]string{"", "\n  ", " ", "\n", "\t\n", "t", "<li>w</li>", "<!--c-->", "\n<li>w</li>", "\n  <!--c-->\n", "\r\n", "\r", "\r\n\t", "\f ", "\v"})
	sep := ""
	// the blank text node that directly follows the element (up to the next '<')
	if i := strings.Index(after, "<"); i != 0 {
		blank := after
		if i > 0 {
			blank = after[:i]
		}
		if strings.TrimSpace(blank) == "" {
			sep = blank
		}
	}
	src := "<ul>" + pre + el.String() + after + "</ul>"
	expect := func(order []int) string {
		var rs []string
		for _, j := range order {
			rs = append(rs, render(items[j]))
		}
		return "<ul>" + pre + strings.Join(rs, sep) + after + "</ul>"
	}
	data := map[string]any{"coll": coll, "d": map[string]any{"coll": coll}}
	if !modelable {
		data["d"] = map[string]any{}
		if obj == "d.coll" {
			obj = "coll"
			src = strings.ReplaceAll(src, "d.coll", "coll")
		}
	}
	files := [][2]string{{"main.html", src}}
	runs := []tmplRun{{data: data, budget: -1}}
	caseLine := ""
	if modelable && ordered {
		caseLine = renderCase(cfg, files, "main.html", runs)
	} else {
		caseLine = "fuzz ref-range " + strconv.Quote(src) + " " + fmt.Sprintf("%v", coll)
	}
	noteInput(caseLine)
	line, rs := implRender(cfg, files, "main.html", runs)
	out.count(fmt.Sprintf("ref-range-kind-%d", kind))
	out.count(fmt.Sprintf("ref-range-items-%d", len(items)))
	why := ""
	switch {
	case rs == nil:
		why = "template did not load: " + line
	case isErr:
		if rs[0].class == "" {
			why = fmt.Sprintf("range over a non-collection (%T) rendered %q without an error", coll, rs[0].out)
		}
	case rs[0].class != "":
		why = fmt.Sprintf("range over %T %v fails: %s", coll, coll, rs[0].line())
	default:
		okAny := false
		var first string
		perms := permutations(len(items))
		ident := make([]int, len(items))
		for i := range ident {
			ident[i] = i
		}
		perms = append([][]int{ident}, perms...)
		for _, p := range perms {
			e := expect(p)
			if first == "" {
				first = e
			}
			if e == rs[0].out {
				okAny = true
				break
			}
			if ordered {
				break
			}
		}
		if !okAny {
			why = fmt.Sprintf("template %q over %T %v renders %q, expected %q", src, coll, coll, rs[0].out, first)
			if !ordered {
				why += " (or the same items in another order)"
			}
		}
	}
	if !(modelable && ordered) {
		line = "REF " + map[bool]string{true: "ok", false: "differs"}[why == ""]
	}
	out.put(caseLine, line, verdict("C04", why))
}

// remove modes: <div id="d" :remove="MODE">CHILDREN</div>
func genRemoveRef(r *Rng, out *outFiles) {
	cfg := tmplCfg{ap: r.Pick([]string{":", ":", "v-", "th:", "ui:", "wire:", "attr-"}), tp: "t:", global: map[string]any{}}
	type child struct {
		src, outp  string
		tag, blank bool
	}
	pool := []child{
		{"t", "t", false, false}, {"\n  ", "\n  ", false, true}, {" ", " ", false, true}, {"\n", "\n", false, true},
		{"<!--c-->", "<!--c-->", false, false}, {"<!--/* h */-->", "", false, false},
		{"<p>e1</p>", "<p>e1</p>", true, false}, {"<br>", "<br>", true, false}, {"<i>e2<b>n</b></i>", "<i>e2<b>n</b></i>", true, false},
		{"<li " + cfg.ap + `text="${w}">old</li>`, "<li>W</li>", true, false}, {"<![CDATA[x]]>", "<![CDATA[x]]>", false, false},
	}
	n := r.Intn(6)
	var ch []child
	for i := 0; i < n; i++ {
		c := pool[r.Intn(len(pool))]
		// two text nodes in a row would be scanned as one
		if len(ch) > 0 && !c.tag && !strings.HasPrefix(c.src, "<") && !ch[len(ch)-1].tag && !strings.HasPrefix(ch[len(ch)-1].src, "<") {
			continue
		}
		ch = append(ch, c)
	}
	mode := r.Pick([]string{"all", "body", "tag", "all-but-first", "all-but-first", "all-but-first", "none"})
	q := r.Pick([]string{`"`, `'`})
	name := r.Pick([]string{"div", "ul", "span"})
	var src, all strings.Builder
	for _, c := range ch {
		src.WriteString(c.src)
		all.WriteString(c.outp)
	}
	open, cl := "<"+name+` id="d">`, "</"+name+">"
	tpl := "<" + name + ` id="d" ` + cfg.ap + "remove=" + q + mode + q + ">" + src.String() + cl
	if r.Chance(30) { // the directive written first
		tpl = "<" + name + " " + cfg.ap + "remove=" + q + mode + q + ` id="d">` + src.String() + cl
	}
	exp := ""
	switch mode {
	case "all":
		exp = ""
	case "body":
		exp = open + cl
	case "tag":
		exp = all.String()
	case "none":
		exp = open + all.String() + cl
	case "all-but-first":
		first := -1
		for i, c := range ch {
			if c.tag {
				first = i
				break
			}
		}
		if first < 0 {
			exp = "?" // no child element: nothing documented; only the model is consulted
		} else {
			exp = open
			if first > 0 && ch[0].blank {
				exp += ch[0].outp
			}
			exp += ch[first].outp
			if ch[len(ch)-1].blank {
				exp += ch[len(ch)-1].outp
			}
			exp += cl
		}
	}
	pre := r.Pick([]string{"", "a", "\n"})
	post := r.Pick([]string{"", "b", "\n"})
	files := [][2]string{{"main.html", pre + tpl + post}}
	runs := []tmplRun{{data: map[string]any{"w": "W"}, budget: -1}}
	caseLine := renderCase(cfg, files, "main.html", runs)
	noteInput(caseLine)
	line, rs := implRender(cfg, files, "main.html", runs)
	out.count("ref-remove-" + mode)
	why := ""
	if rs == nil {
		why = "template did not load: " + line
	} else if exp != "?" {
		if rs[0].class != "" {
			why = fmt.Sprintf("template %q fails: %s", files[0][1], rs[0].line())
		} else if rs[0].out != pre+exp+post {
			why = fmt.Sprintf("template %q renders %q, expected %q", files[0][1], rs[0].out, pre+exp+post)
		}
	}
	out.put(caseLine, line, verdict("C05", why))
}
