package main

import (
	"errors"
	"fmt"
	"math"
	"reflect"
	"sort"
	"strconv"
	"strings"
)

// ---- fixed families of Go types and functions known to both the harness and the model ----

type T2 struct {
	X int64
	M map[string]any
}

func (t T2) GetX() int64 { return t.X }

type T1 struct {
	Name   string
	Age    int
	hidden int
	Inner  *T2
	Tags   []string
}

func (t T1) Hello() string         { return "hello" }
func (t *T1) PtrM() string         { return "ptrm" }
func (t T1) Twice(s string) string { return s + s }

// Load has the (value, error) result shape and always fails: the value must never be used
func (t T1) Load() (string, error) { return "half-loaded", sentinels[3] }

// T4: every method has a pointer receiver (like *bytes.Buffer); its results depend on the receiver
type T4 struct{ N int64 }

func (t *T4) Next() int64 { return t.N + 1 }
func (t *T4) Self() int64 { return t.N }

// Try has the (value, error) result shape: it fails for receivers with N >= 10
func (t *T4) Try() (int64, error) {
	if t.N >= 10 {
		return t.N, sentinels[2]
	}
	return t.N, nil
}

type T3 struct {
	T2
	Y int
}

var typeIDs = map[reflect.Type]int{reflect.TypeOf(T1{}): 1, reflect.TypeOf(T2{}): 2, reflect.TypeOf(T3{}): 3, reflect.TypeOf(T4{}): 4}

// method tables: type id -> via pointer -> name -> function id
var methodTable = map[int]map[bool]map[string]int{
	1: {false: {"Hello": 21, "Twice": 23, "Load": 26}, true: {"Hello": 21, "PtrM": 22, "Twice": 23, "Load": 26}},
	2: {false: {"GetX": 20}, true: {"GetX": 20}},
	3: {false: {"GetX": 20}, true: {"GetX": 20}},
	4: {false: {}, true: {"Next": 24, "Self": 25, "Try": 27}},
}

var sentinels = []error{nil, errors.New("sentinel-1"), errors.New("sentinel-2"), errors.New("sentinel-3")}

// call log of the recording functions (ids 7, 8, 9)
type CallLog struct{ entries []string }

func (l *CallLog) add(id int, k int64) { l.entries = append(l.entries, fmt.Sprintf("%d:%d", id, k)) }

func userFuncs(l *CallLog) map[string]any {
	return map[string]any{
		"one":   func() int64 { return 1 },
		"ident": func(a any) any { return a },
		"fail":  func() (int64, error) { return 0, sentinels[1] },
		"boom":  func() int64 { panic("boom") },
		"add":   func(a, b int64) int64 { return a + b },
		"cat":   func(xs ...string) string { return strings.Join(xs, "") },
		"rec":   func(k int64) int64 { l.add(7, k); return k },
		"recb":  func(k int64, b bool) bool { l.add(8, k); return b },
		"recs":  func(k int64, s string) string { l.add(9, k); return s },
		"two":   func() (int64, int64) { return 1, 2 },
		// a parameter of STRUCT type (by value): a pointer to the struct is not accepted in its place
		"nameOf": func(t T1) string { return t.Name },
		"none":   func() {},
		"failIf": func(b bool) (string, error) {
			if b {
				return "", sentinels[2]
			}
			return "ok", nil
		},
	}
}

var userFuncIDs = map[string]int{"one": 1, "ident": 2, "fail": 3, "boom": 4, "add": 5, "cat": 6, "rec": 7, "recb": 8, "recs": 9, "two": 10, "none": 11, "failIf": 12, "nameOf": 13}

// ---- value encoding (shared with ocaml/driver.ml) ----

var ikindIdx = map[reflect.Kind]int{reflect.Int: 0, reflect.Int8: 1, reflect.Int16: 2, reflect.Int32: 3, reflect.Int64: 4,
	reflect.Uint: 5, reflect.Uint8: 6, reflect.Uint16: 7, reflect.Uint32: 8, reflect.Uint64: 9}

func encRunes(s string) string {
	rs := []rune(s)
	parts := make([]string, len(rs))
	for i, r := range rs {
		parts[i] = strconv.Itoa(int(r))
	}
	return strings.Join(parts, ".")
}

type valEnc struct {
	addrs map[uintptr]int
	funcs map[uintptr]int // function pointer -> id
	opaq  int
}

func newValEnc() *valEnc { return &valEnc{addrs: map[uintptr]int{}, funcs: map[uintptr]int{}} }

func canonFloat(f float64) uint64 {
	if math.IsNaN(f) {
		return 0x7FF8000000000000
	}
	return math.Float64bits(f)
}

func (e *valEnc) enc(v any) string {
	if v == nil {
		return "n"
	}
	return e.encRV(reflect.ValueOf(v))
}

func (e *valEnc) encRV(rv reflect.Value) string {
	if !rv.IsValid() {
		return "n"
	}
	switch rv.Kind() {
	case reflect.Interface:
		if rv.IsNil() {
			return "n"
		}
		return e.encRV(rv.Elem())
	case reflect.Bool:
		if rv.Type() != reflect.TypeOf(true) {
			break
		}
		if rv.Bool() {
			return "t"
		}
		return "f"
	case reflect.Int, reflect.Int8, reflect.Int16, reflect.Int32, reflect.Int64:
		if rv.Type().PkgPath() != "" {
			break
		}
		return fmt.Sprintf("i%d:%d", ikindIdx[rv.Kind()], rv.Int())
	case reflect.Uint, reflect.Uint8, reflect.Uint16, reflect.Uint32, reflect.Uint64:
		if rv.Type().PkgPath() != "" {
			break
		}
		return fmt.Sprintf("i%d:%d", ikindIdx[rv.Kind()], rv.Uint())
	case reflect.Float32:
		return fmt.Sprintf("d1:%d", canonFloat(rv.Float()))
	case reflect.Float64:
		return fmt.Sprintf("d0:%d", canonFloat(rv.Float()))
	case reflect.String:
		if rv.Type().PkgPath() != "" {
			break
		}
		return "s" + encRunes(rv.String())
	case reflect.Slice, reflect.Array:
		arr := 0
		if rv.Kind() == reflect.Array {
			arr = 1
		}
		var parts, extra []string
		for i := 0; i < rv.Len(); i++ {
			parts = append(parts, e.encRV(rv.Index(i)))
		}
		if rv.Kind() == reflect.Slice && rv.Cap() > rv.Len() {
			full := rv.Slice(0, rv.Cap())
			for i := rv.Len(); i < rv.Cap(); i++ {
				extra = append(extra, e.encRV(full.Index(i)))
			}
		}
		return fmt.Sprintf("L%d(%s)[%s]", arr, strings.Join(parts, ";"), strings.Join(extra, ";"))
	case reflect.Map:
		if rv.Type().Key().Kind() != reflect.String {
			break
		}
		keys := rv.MapKeys()
		sort.Slice(keys, func(i, j int) bool { return keys[i].String() < keys[j].String() })
		var parts []string
		for _, k := range keys {
			parts = append(parts, encRunes(k.String())+"="+e.encRV(rv.MapIndex(k)))
		}
		return "M(" + strings.Join(parts, ";") + ")"
	case reflect.Struct:
		ty, ok := typeIDs[rv.Type()]
		if !ok {
			break
		}
		var parts []string
		for _, f := range reflect.VisibleFields(rv.Type()) {
			if f.Anonymous {
				continue
			}
			exp := 0
			if f.IsExported() {
				exp = 1
			}
			fv := rv.FieldByIndex(f.Index)
			var enc string
			if f.IsExported() {
				enc = e.encRV(fv)
			} else {
				enc = "n"
			}
			parts = append(parts, fmt.Sprintf("%s,%d=%s", encRunes(f.Name), exp, enc))
		}
		return fmt.Sprintf("T%d(%s)", ty, strings.Join(parts, ";"))
	case reflect.Pointer:
		ty, ok := typeIDs[rv.Type().Elem()]
		if !ok {
			break
		}
		if rv.IsNil() {
			return fmt.Sprintf("P0,%d()", ty)
		}
		id, seen := e.addrs[rv.Pointer()]
		if !seen {
			id = len(e.addrs) + 1
			e.addrs[rv.Pointer()] = id
		}
		return fmt.Sprintf("P%d,%d(%s)", id, ty, e.encRV(rv.Elem()))
	case reflect.Func:
		if id, ok := e.funcs[rv.Pointer()]; ok {
			return fmt.Sprintf("F%d()", id)
		}
	}
	e.opaq++
	return fmt.Sprintf("O%d", e.opaq)
}

func encMethods() string {
	var parts []string
	for ty := 1; ty <= 4; ty++ {
		for _, ptr := range []bool{false, true} {
			var names []string
			for n := range methodTable[ty][ptr] {
				names = append(names, n)
			}
			sort.Strings(names)
			var ms []string
			for _, n := range names {
				ms = append(ms, fmt.Sprintf("%s=%d", encRunes(n), methodTable[ty][ptr][n]))
			}
			p := 0
			if ptr {
				p = 1
			}
			parts = append(parts, fmt.Sprintf("%d,%d:%s", ty, p, strings.Join(ms, ";")))
		}
	}
	return strings.Join(parts, "|")
}
