package main

import (
	"fmt"
	"strconv"
	"strings"

	"code.gopub.tech/tpl/html"
)

// encoding of case fields (shared with ocaml/driver.ml)
func encStr(s string) string {
	if s == "" {
		return "-"
	}
	var sb strings.Builder
	for i, r := range []rune(s) {
		if i > 0 {
			sb.WriteByte(',')
		}
		sb.WriteString(strconv.Itoa(int(r)))
	}
	return sb.String()
}
func encStrs(xs []string) string {
	if len(xs) == 0 {
		return "_"
	}
	parts := make([]string, len(xs))
	for i, x := range xs {
		parts[i] = encStr(x)
	}
	return strings.Join(parts, "|")
}

// canonical printers (shared format with ocaml/driver.ml)
func pStr(sb *strings.Builder, s string) {
	sb.WriteByte('[')
	for i, r := range []rune(s) {
		if i > 0 {
			sb.WriteByte(',')
		}
		sb.WriteString(strconv.Itoa(int(r)))
	}
	sb.WriteByte(']')
}
func pPos(sb *strings.Builder, p html.Pos) { fmt.Fprintf(sb, "%d:%d", p.Line, p.Column) }

var ckindName = map[html.CodeTokenKind]string{html.BegEnd: "BegEnd", html.Literal: "Literal",
	html.CodeStart: "CodeStart", html.CodeValue: "CodeValue", html.CodeEnd: "CodeEnd"}

func pCtok(sb *strings.Builder, c *html.CodeToken) {
	sb.WriteString("(" + ckindName[c.Kind] + " ")
	pStr(sb, c.Value)
	sb.WriteByte(' ')
	pPos(sb, c.Start)
	sb.WriteByte('-')
	pPos(sb, c.End)
	sb.WriteByte(')')
}
func pAttr(sb *strings.Builder, a *html.Attr) {
	sb.WriteString("{")
	pStr(sb, a.Name)
	sb.WriteByte(' ')
	pPos(sb, a.NameStart)
	sb.WriteByte('-')
	pPos(sb, a.NameEnd)
	if a.Value == nil {
		sb.WriteString(" N")
	} else {
		sb.WriteString(" V")
		pStr(sb, *a.Value)
		sb.WriteByte(' ')
		pPos(sb, a.ValueStart)
		sb.WriteByte('-')
		pPos(sb, a.ValueEnd)
	}
	for _, c := range a.ValueTokens {
		pCtok(sb, c)
	}
	sb.WriteString("}")
}
func pTok(sb *strings.Builder, t *html.Token) {
	sb.WriteString("(" + t.Kind.String() + " ")
	pStr(sb, t.Value)
	sb.WriteByte(' ')
	pPos(sb, t.Start)
	sb.WriteByte('-')
	pPos(sb, t.End)
	if t.Kind == html.TokenKindTag && t.Tag != nil {
		sb.WriteByte(' ')
		pStr(sb, t.Tag.Name)
		for _, a := range t.Tag.Attrs {
			pAttr(sb, a)
		}
	}
	sb.WriteString(")")
}

// pNode prints the tree with node ids = 1-based index of the node's token in the token list.
func pNode(sb *strings.Builder, n *html.Node, ids map[*html.Token]int) {
	if n.Token == nil {
		sb.WriteString("<0 doc")
	} else {
		fmt.Fprintf(sb, "<%d ", ids[n.Token])
		pTok(sb, n.Token)
	}
	for _, c := range n.Children {
		pNode(sb, c, ids)
	}
	if n.End != nil {
		sb.WriteString(" /")
		pTok(sb, n.End)
	}
	sb.WriteString(">")
}

func sortStrings(xs []string) {
	for i := 1; i < len(xs); i++ {
		for j := i; j > 0 && xs[j] < xs[j-1]; j-- {
			xs[j], xs[j-1] = xs[j-1], xs[j]
		}
	}
}
