package main

import (
	"context"
	"errors"
	"fmt"
	"io"
	"io/fs"
	"net/http"
	"strings"
	"sync"
	"testing/fstest"
	"time"

	tpl "code.gopub.tech/tpl"
	"code.gopub.tech/tpl/html"
	"code.gopub.tech/tpl/types"
)

// reload family (C18): histories over {Reload ok, Reload failing, Render existing, Render missing,
// GetTemplate} in both hot-reload modes against a fake template manager.

type fakeTpl struct{ v int }

func (f fakeTpl) Execute(w io.Writer, data any) error {
	_, err := fmt.Fprintf(w, "v%d", f.v)
	return err
}

// a template that fails in the middle of its execution, after it has produced output
type fakeBadTpl struct{ v int }

var errExec = errors.New("template execution failed")

func (f fakeBadTpl) Execute(w io.Writer, data any) error {
	fmt.Fprintf(w, "partial-%d-", f.v)
	return errExec
}

// a client that goes away: the first Write fails (after taking some of the bytes)
type brokenWriter struct {
	h http.Header
}

var errClient = errors.New("client went away")

func (r *brokenWriter) Header() http.Header { return r.h }
func (r *brokenWriter) Write(p []byte) (int, error) {
	return len(p) / 2, errClient
}
func (r *brokenWriter) WriteHeader(int) {}

type notFound struct{ v int }

func (e notFound) Error() string { return fmt.Sprintf("no template in set %d", e.v) }
func (e notFound) Unwrap() error { return html.ErrTplNotFound }

type fakeMgr struct{ v int }

func (m fakeMgr) GetTemplate(name string) (types.Template, error) {
	if name == "t" {
		return fakeTpl{m.v}, nil
	}
	if name == "bad" {
		return fakeBadTpl{m.v}, nil
	}
	return nil, notFound{m.v}
}

// a second concrete manager type: builders may return different implementations over time
type fakeMgrPtr struct{ v int }

func (m *fakeMgrPtr) GetTemplate(name string) (types.Template, error) {
	return fakeMgr{m.v}.GetTemplate(name)
}

// a third one: the library's own manager, built by parsing a file system whose one file changes its CONTENT from
// build to build but neither its name, its size (for builds 1-9) nor its modification time
type realMgr struct {
	m types.TemplateManager
	v int
}

func (m realMgr) GetTemplate(name string) (types.Template, error) {
	t, err := m.m.GetTemplate(name)
	if err != nil {
		if errors.Is(err, html.ErrTplNotFound) {
			return nil, notFound{m.v}
		}
		return nil, err
	}
	return t, nil
}

func buildReal(v int) (types.TemplateManager, error) {
	m := html.NewTplManager()
	err := m.ParseWithSuffix(fstest.MapFS{"t": &fstest.MapFile{Data: []byte(fmt.Sprintf("v%d", v))}, "u.txt": &fstest.MapFile{Data: []byte("x")}}, "t")
	return realMgr{m, v}, err
}

var errBuild = errors.New("build failed")

// buildRealFailing: the library's own manager on a file system with a directory that cannot be read — the idiom
// `return m, m.ParseWithSuffix(fsys, ...)`.  The build must FAIL (Parse returns the walk's error); if Parse swallowed it
// the builder would report success and the renderer would publish the partial set.
func buildRealFailing(v int) (types.TemplateManager, error) {
	m := html.NewTplManager()
	fsys := &traceFS{inner: fstest.MapFS{"t": &fstest.MapFile{Data: []byte(fmt.Sprintf("v%d", v))},
		"parts/nav.t": &fstest.MapFile{Data: []byte("nav")}, "zz/last.t": &fstest.MapFile{Data: []byte("last")}}, fault: map[string]int{"parts": 3}}
	if err := m.ParseWithSuffix(fsys, "t"); err != nil {
		return realMgr{m, -v}, errors.Join(errBuild, err)
	}
	return realMgr{m, v}, nil
}

// buildFailure: what a failing build returns — the marker error joined with the kinds of error real builders produce
// (a vanished directory, a permission problem, a truncated file, a cancelled context, even a template-not-found error)
func buildFailure(k int) error {
	// (histories make at most nine builds: every kind must be reachable with few of them)
	causes := []error{nil, fs.ErrNotExist, html.ErrTplNotFound, fs.ErrNotExist, fs.ErrPermission, context.Canceled, io.ErrUnexpectedEOF, fs.ErrNotExist, io.EOF}
	if c := causes[k%len(causes)]; c != nil {
		return errors.Join(errBuild, &fs.PathError{Op: "open", Path: "views", Err: c})
	}
	return errBuild
}

type respWriter struct {
	h  http.Header
	sb strings.Builder
}

func (r *respWriter) Header() http.Header         { return r.h }
func (r *respWriter) Write(p []byte) (int, error) { return r.sb.Write(p) }
func (r *respWriter) WriteHeader(int)             {}

func runReloadHistory(hot bool, first bool, ops string) (line string, c18 string) {
	defer func() {
		if x := recover(); x != nil {
			line, c18 = fmt.Sprintf("PANIC %v", x), fmt.Sprintf("PANIC %v", x)
		}
	}()
	calls, healthy := 0, first
	builder := func(ctx context.Context) (types.TemplateManager, error) {
		calls++
		if healthy {
			if calls%3 == 0 {
				return buildReal(calls)
			}
			if calls%2 == 0 {
				return &fakeMgrPtr{calls}, nil
			}
			return fakeMgr{calls}, nil
		}
		if calls%3 == 2 {
			return buildRealFailing(calls)
		}
		if calls%2 == 1 {
			// the idiom `return m, m.ParseWithSuffix(...)`: a failed build hands back a half-built, non-nil manager
			// together with its error; it must never be put in service
			return fakeMgr{-calls}, buildFailure(calls)
		}
		return nil, buildFailure(calls)
	}
	r, err := tpl.NewHTMLRender(builder, tpl.WithHotReload(hot))
	var ans []string
	// reference: the last successfully built set
	last := 0
	if err == nil {
		ans = append(ans, "rok")
		last = calls
	} else {
		ans = append(ans, "rerr")
	}
	ctx := context.Background()
	for _, o := range ops {
		var got, want string
		switch o {
		case '+', '-':
			healthy = o == '+'
			if e := r.Reload(ctx); e == nil {
				got = "rok"
				last = calls
			} else {
				got = "rerr"
			}
			if healthy {
				want = "rok"
			} else {
				want = "rerr"
			}
		case 'X', 'M', 'G':
			name := "t"
			if o == 'M' {
				name = "missing"
			}
			before := calls
			var e error
			out := ""
			if o == 'G' {
				var t types.Template
				t, e = r.GetTemplate(ctx, name)
				if e == nil {
					var sb strings.Builder
					e = t.Execute(&sb, nil)
					out = sb.String()
				}
			} else {
				if !hot && last != 0 {
					// requests that FAIL must leave nothing behind for the next one: a template that fails after producing
					// output, and a client that goes away in the middle of the response
					wb := &respWriter{h: http.Header{}}
					if eb := r.Instance(ctx, "bad", nil).Render(wb); eb == nil {
						c18 = "a request whose template execution failed was answered without an error"
					} else if !errors.Is(eb, errExec) && !errors.Is(eb, html.ErrTplNotFound) {
						c18 = fmt.Sprintf("the error of a failing template execution does not wrap its cause: %v", eb)
					}
					if eb := r.Instance(ctx, "t", nil).Render(&brokenWriter{h: http.Header{}}); !errors.Is(eb, errClient) {
						c18 = fmt.Sprintf("a request whose client went away did not return the writer's error: %v", eb)
					}
				}
				w := &respWriter{h: http.Header{}}
				inst := r.Instance(ctx, name, nil)
				e = inst.Render(w)
				out = w.sb.String()
				inst.WriteContentType(w)
				if ct := w.h["Content-Type"]; len(ct) != 1 || ct[0] != "text/html; charset=utf-8" {
					c18 = fmt.Sprintf("content type not set on an empty header: %v", ct)
				}
				// a handler that set the header - even to an empty first value - has set one
				for _, set := range [][]string{{""}, {"", "text/plain"}} {
					w3 := &respWriter{h: http.Header{"Content-Type": append([]string{}, set...)}}
					inst.WriteContentType(w3)
					if ct := w3.h["Content-Type"]; len(ct) != len(set) || ct[0] != set[0] {
						c18 = fmt.Sprintf("content type %q set by the handler was overwritten: %q", set, ct)
					}
				}
				w2 := &respWriter{h: http.Header{"Content-Type": {"x/y"}}}
				inst.WriteContentType(w2)
				if ct := w2.h["Content-Type"]; len(ct) != 1 || ct[0] != "x/y" {
					c18 = fmt.Sprintf("content type overwritten: %v", ct)
				}
			}
			var nf notFound
			switch {
			case e == nil:
				got = "served" + strings.TrimPrefix(out, "v")
			case errors.As(e, &nf):
				got = fmt.Sprintf("notfound%d", nf.v)
			case errors.Is(e, errBuild):
				got = "builderr"
			case errors.Is(e, tpl.ErrNoTemplateSet):
				got = "noset"
			default:
				got = "err:" + e.Error()
			}
			if e != nil && out != "" {
				c18 = "something was written although the request failed: " + out
			}
			// expectation, independent of the model
			v := last
			if hot {
				if calls != before+1 {
					c18 = "hot reload did not build afresh for this request"
				}
				if healthy {
					v = calls
				} else {
					v = -1
				}
			} else if calls != before {
				c18 = "the builder was called by a request without hot reload"
			}
			switch {
			case v == -1:
				want = "builderr"
			case v == 0:
				want = "noset"
			case o == 'M':
				want = fmt.Sprintf("notfound%d", v)
			default:
				want = fmt.Sprintf("served%d", v)
			}
		}
		if got != want && c18 == "" {
			c18 = fmt.Sprintf("history %q (hot=%v first=%v): operation %c answered %s, expected %s (last successful build %d)", ops, hot, first, o, got, want, last)
		}
		ans = append(ans, got)
	}
	return strings.Join(ans, " "), c18
}

func reloadHistory(idx int) (hot, first bool, ops string, ok bool) {
	// enumerate all histories of length 0..7 over 5 operations x 2 modes x 2 first-build outcomes
	alphabet := "+-XMG"
	mode := idx % 4
	idx /= 4
	hot, first = mode&1 == 1, mode&2 == 2
	for l := 0; l <= 7; l++ {
		c := 1
		for i := 0; i < l; i++ {
			c *= 5
		}
		if idx < c {
			b := make([]byte, l)
			for i := l - 1; i >= 0; i-- {
				b[i] = alphabet[idx%5]
				idx /= 5
			}
			return hot, first, string(b), true
		}
		idx -= c
	}
	return false, false, "", false
}

// ---- reloadconc: deterministic schedules of concurrent Reloads and requests (Sys/ReloadConc.v) ----
// A Reload is split at the only place the library lets a caller hold it: inside the builder.  First occurrence of a
// Reload thread in the schedule: its goroutine is started and runs until it is inside the builder; second occurrence:
// the builder returns and the Reload runs to completion.  A request's occurrence runs the whole request.

type concKey struct{}

func runReloadConc(first bool, threads string, sched []int) (line string, c18 string) {
	defer func() {
		if x := recover(); x != nil {
			line, c18 = fmt.Sprintf("PANIC %v", x), fmt.Sprintf("PANIC %v", x)
		}
	}()
	n := len(threads)
	var mu sync.Mutex
	calls := 0
	ver := make([]int, n)
	entered := make([]chan struct{}, n)
	release := make([]chan struct{}, n)
	done := make([]chan error, n)
	for i := range entered {
		entered[i], release[i], done[i] = make(chan struct{}, 1), make(chan struct{}), make(chan error, 1)
	}
	stray := ""
	builder := func(ctx context.Context) (types.TemplateManager, error) {
		mu.Lock()
		calls++
		c := calls
		mu.Unlock()
		id, has := ctx.Value(concKey{}).(int)
		ok := first
		if has {
			if threads[id] != '+' && threads[id] != '-' {
				mu.Lock()
				stray = "the builder was called by a request without hot reload"
				mu.Unlock()
			} else {
				mu.Lock()
				ver[id] = c
				mu.Unlock()
				entered[id] <- struct{}{}
				<-release[id]
				ok = threads[id] == '+'
			}
		}
		if ok {
			if c%3 == 0 {
				return buildReal(c)
			}
			if c%2 == 0 {
				return &fakeMgrPtr{c}, nil
			}
			return fakeMgr{c}, nil
		}
		return fakeMgr{-c}, buildFailure(c)
	}
	r, err := tpl.NewHTMLRender(builder)
	cur := 0 // reference: the set in service
	if err == nil {
		cur = 1
	}
	request := func(ctx context.Context, o byte) string {
		name := "t"
		if o == 'M' {
			name = "missing"
		}
		var e error
		out := ""
		if o == 'G' {
			var t types.Template
			t, e = r.GetTemplate(ctx, name)
			if e == nil {
				var sb strings.Builder
				e = t.Execute(&sb, nil)
				out = sb.String()
			}
		} else {
			w := &respWriter{h: http.Header{}}
			e = r.Instance(ctx, name, nil).Render(w)
			out = w.sb.String()
		}
		var nf notFound
		switch {
		case e == nil:
			return "served" + strings.TrimPrefix(out, "v")
		case errors.As(e, &nf):
			return fmt.Sprintf("notfound%d", nf.v)
		case errors.Is(e, errBuild):
			return "builderr"
		case errors.Is(e, tpl.ErrNoTemplateSet):
			return "noset"
		}
		return "err:" + e.Error()
	}
	want := func(o byte) string {
		switch {
		case cur == 0:
			return "noset"
		case o == 'M':
			return fmt.Sprintf("notfound%d", cur)
		}
		return fmt.Sprintf("served%d", cur)
	}
	ans := make([]string, n)
	seen := make([]int, n)
	for i := range ans {
		ans[i] = "-"
	}
	for _, i := range sched {
		seen[i]++
		ctx := context.WithValue(context.Background(), concKey{}, i)
		switch o := threads[i]; {
		case (o == '+' || o == '-') && seen[i] == 1:
			go func(i int) { done[i] <- r.Reload(ctx) }(i)
			select {
			case <-entered[i]:
			case <-time.After(3 * time.Second):
				return "STUCK", fmt.Sprintf("Reload of thread %d did not call the builder", i)
			}
		case (o == '+' || o == '-') && seen[i] == 2:
			close(release[i])
			var e error
			select {
			case e = <-done[i]:
			case <-time.After(3 * time.Second):
				return "STUCK", fmt.Sprintf("Reload of thread %d did not return after its build", i)
			}
			if e == nil {
				ans[i] = "rok"
			} else {
				ans[i] = "rerr"
			}
			if (e == nil) != (o == '+') && c18 == "" {
				c18 = fmt.Sprintf("Reload of thread %d answered %s", i, ans[i])
			}
			if o == '+' {
				cur = ver[i]
			}
		case seen[i] == 1 && o != '+' && o != '-':
			ans[i] = request(ctx, o)
			if w := want(o); ans[i] != w && c18 == "" {
				c18 = fmt.Sprintf("threads %q schedule %v: request of thread %d answered %s, expected %s (set %d was the last one published; builds still running do not count)", threads, sched, i, ans[i], w, cur)
			}
		}
	}
	probe := request(context.Background(), 'X')
	if w := want('X'); probe != w && c18 == "" {
		c18 = fmt.Sprintf("threads %q schedule %v: final request answered %s, expected %s", threads, sched, probe, w)
	}
	curS := "none"
	if strings.HasPrefix(probe, "served") {
		curS = strings.TrimPrefix(probe, "served")
	} else if probe != "noset" {
		curS = probe
	}
	// let the Reloads that are still inside the builder finish
	for i := range threads {
		if (threads[i] == '+' || threads[i] == '-') && seen[i] == 1 {
			close(release[i])
			<-done[i]
		}
	}
	mu.Lock()
	if stray != "" && c18 == "" {
		c18 = stray
	}
	mu.Unlock()
	return strings.Join(ans, " ") + " cur=" + curS, c18
}

func genReloadConc(r *Rng) (first bool, threads string, sched []int) {
	first = r.Chance(70)
	n := 1 + r.Intn(7)
	var tb []byte
	var pool []int
	for i := 0; i < n; i++ {
		o := "+++-XXXMG"[r.Intn(9)]
		tb = append(tb, o)
		occ := 1
		if o == '+' || o == '-' {
			occ = []int{0, 1, 2, 2, 2}[r.Intn(5)] // never started, left inside the builder, or completed
		} else if r.Chance(15) {
			occ = 0
		}
		for k := 0; k < occ; k++ {
			pool = append(pool, i)
		}
	}
	for i := len(pool) - 1; i > 0; i-- {
		j := r.Intn(i + 1)
		pool[i], pool[j] = pool[j], pool[i]
	}
	return first, string(tb), pool
}
