package main

import (
	"fmt"
	"strings"
	"unicode"

	"code.gopub.tech/tpl/html"
)

// plain family (C01): documents without directives are reproduced unchanged.

func printTagNormalized(sb *strings.Builder, t *html.Token) {
	sb.WriteString("<" + t.Tag.Name)
	for _, a := range t.Tag.Attrs {
		sb.WriteString(" " + a.Name)
		if a.Value != nil {
			sb.WriteString("=" + *a.Value)
		}
	}
	sb.WriteString(">")
}

// expectedPlain: open tags are re-printed from their parts (only in-tag white space may differ),
// everything else - text, comments, CDATA, close tags - byte for byte.
func expectedPlain(n *html.Node, sb *strings.Builder) {
	if n.Token != nil {
		if n.Token.Kind == html.TokenKindTag && n.Token.Tag != nil {
			printTagNormalized(sb, n.Token)
		} else {
			sb.WriteString(n.Token.Value)
		}
	}
	for _, c := range n.Children {
		expectedPlain(c, sb)
	}
	if n.End != nil {
		sb.WriteString(n.End.Value)
	}
}

func partsOf(toks []*html.Token) string {
	var sb strings.Builder
	for _, t := range toks {
		sb.WriteString(t.Kind.String() + "|")
		if t.Kind == html.TokenKindTag && t.Tag != nil {
			sb.WriteString(t.Tag.Name)
			for _, a := range t.Tag.Attrs {
				sb.WriteString("|" + a.Name)
				if a.Value != nil {
					sb.WriteString("=" + *a.Value)
				}
			}
		} else {
			sb.WriteString(t.Value)
		}
		sb.WriteString("\x00")
	}
	return sb.String()
}

func genPlainCase(r *Rng, out *outFiles) {
	cfg := tmplCfg{ap: r.Pick(prefixes), tp: r.Pick([]string{"t:", "t:", "x-"}), tags: tagSets[r.Intn(len(tagSets))], voids: voidSets[r.Intn(len(voidSets))],
		global: map[string]any{}}
	o := DocOpts{Prefix: cfg.ap, Directives: false, Hidden: false, Malformed: r.Chance(10)}
	src := GenDoc(r, o)
	// keep clear of the configured tag prefix
	if strings.Contains(strings.ToLower(src), "<"+cfg.tp+"block") {
		src = strings.ReplaceAll(strings.ReplaceAll(src, "<"+cfg.tp, "<q"), "</"+cfg.tp, "</q")
	}
	files := [][2]string{{"doc.html", src}}
	runs := []tmplRun{{data: map[string]any{}, budget: -1}}
	line, rs := implRender(cfg, files, "doc.html", runs)
	c01, c08 := "", ""
	if strings.Contains(line, "PANIC") {
		c08 = line
	}
	plain := true
	{
		sc := html.NewHtmlScanner(strings.NewReader(src)).SetAttrPrefix(cfg.ap)
		if cfg.tags != nil {
			sc.SetTextTags(cfg.tags)
		}
		if toks, err := sc.GetAllTokens(); err == nil {
			for _, t := range toks {
				if t.Kind == html.TokenKindTag && t.Tag != nil {
					for _, a := range t.Tag.Attrs {
						if strings.HasPrefix(a.Name, cfg.ap) {
							plain = false // a malformed insertion brought a directive in: outside C01's quantifier
						}
					}
				}
				if t.Kind == html.TokenKindComment {
					// the documented hidden-comment form <!-- /* ... */ --> (a mutation can turn a near miss into one)
					body := strings.TrimSpace(strings.TrimSuffix(strings.TrimPrefix(t.Value, "<!--"), "-->"))
					if strings.HasPrefix(body, "/*") && strings.HasSuffix(body, "*/") {
						plain = false
					}
				}
			}
		}
	}
	if !plain {
		out.count("not-plain")
	}
	if rs != nil && plain {
		if rs[0].class != "" {
			c01 = "a document without directives failed to render: " + rs[0].class
		} else {
			sc := html.NewHtmlScanner(strings.NewReader(src)).SetAttrPrefix(cfg.ap)
			if cfg.tags != nil {
				sc.SetTextTags(cfg.tags)
			}
			// independent of any tokenisation: apart from white space the output IS the source (no name re-spelled, no
			// comment dropped, nothing added) - the statement of theorem render_differs_only_by_space
			nsp := func(s string) string {
				return strings.Map(func(c rune) rune {
					if unicode.IsSpace(c) {
						return -1
					}
					return c
				}, s)
			}
			if nsp(rs[0].out) != nsp(src) {
				c01 = fmt.Sprintf("output %q differs from the source %q by more than white space", rs[0].out, src)
			}
			toks, err := sc.GetAllTokens()
			if err == nil && c01 == "" {
				p := html.NewParser()
				p.VoidElements = defVoids(cfg.voids)
				tree, perr := p.ParseTokens(toks)
				if perr == nil {
					var sb strings.Builder
					expectedPlain(tree, &sb)
					if want := sb.String(); rs[0].out != want {
						c01 = fmt.Sprintf("output %q differs from the source parts %q", rs[0].out, want)
					}
				}
				sc2 := html.NewHtmlScanner(strings.NewReader(rs[0].out)).SetAttrPrefix(cfg.ap)
				if cfg.tags != nil {
					sc2.SetTextTags(cfg.tags)
				}
				toks2, err2 := sc2.GetAllTokens()
				if c01 == "" && (err2 != nil || partsOf(toks2) != partsOf(toks)) {
					c01 = fmt.Sprintf("scanning the output gives different parts than scanning the source (err=%v)", err2)
				}
				// rendering the output again yields the same output
				if c01 == "" {
					_, rs2 := implRender(cfg, [][2]string{{"doc.html", rs[0].out}}, "doc.html", runs)
					if rs2 == nil || rs2[0].out != rs[0].out {
						c01 = "rendering the output again changes it"
					}
				}
			}
		}
	}
	if o.Malformed {
		out.count("malformed")
	}
	out.count("plain")
	out.put(renderCase(cfg, files, "doc.html", runs), line, verdict("C01", c01), verdict("C08", c08))
}
