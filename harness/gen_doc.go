package main

import (
	"strings"
)

// Document generator: a token grammar (mostly well-formed) plus a malformed stream.

var plainNames = []string{"div", "p", "span", "a", "ul", "li", "DIV", "b", "x-y", "h1", "Table", "t:block", "o:p", "linK", "block", "BLOCK", "blocks", "Block"}
var rawNames = []string{"script", "style", "textarea", "title", "SCRIPT", "Style", "TextArea", "TITLE"}
var voidNames = []string{"br", "img", "input", "meta", "BR", "hr", "!DOCTYPE", "!doctype", "link"}
var attrNames = []string{"id", "class", "href", "data-x", "Title", "a", "b", "x:y", "disabled", "é", "a.b", "on_click", "a/b", "/x", "v-if", "@c", "#r",
	"with", "if", "range", "remove", "else", "elif", "else-if", "text", "define", // plain attributes named like directives
	"w%", "100%%", "%s", "a%b", "%v%d"} // a name is text, never a format
var textRunes = []rune("abcXYZ 019 \t\n&;=/'\"-!][>é中  \U0001F600İK.,:$(){}\\`?\uFFFD\uFEFF\U0010FFFF")
var valRunes = []rune("abcXYZ019&;=/-!][é中\U0001F600.,:(){}\\`?#\uFFFD\uFEFF")
var exprPool = []string{"a", "a.b", "x+1", "f(1)", "name", "1", "'s'", `"q"`, "a[0]", "a ? 1 : 2", "!b", "len(xs)", "'}'", "'{'", "`}`", "'${'", "a.b.c", " a ", "x  >  1", "m['k']", "-1", "1.5e3", "0x1F", "s+'<'",
	// strings whose last character is a backslash or an escaped quote; raw strings take backslashes literally
	"`C:\\tmp\\`", "`\\`+'}'", "`\\`", "'a\\\\'", `"\\"`, "'\\''", `"a\"b"`, "`\\n{`", "`'`+`\"`", "'\\\\'+`}`", "`a\\`+`\\b`"}

type DocOpts struct {
	Prefix     string
	Directives bool // allow prefixed attributes with ${} values
	Hidden     bool // allow <!-- /* */ --> and block tags
	Malformed  bool
}

type docGen struct {
	r   *Rng
	o   DocOpts
	sb  strings.Builder
	dep int
	n   int // tokens emitted
}

func (g *docGen) ws(min int) string {
	k := min + g.r.Intn(2)
	if g.r.Chance(15) {
		k += g.r.Intn(3)
	}
	var sb strings.Builder
	for i := 0; i < k; i++ {
		sb.WriteString(g.r.Pick([]string{" ", " ", " ", "\t", "\n", "\r\n", " ", " ", "\f"}))
	}
	return sb.String()
}

func (g *docGen) runes(alpha []rune, min, max int) string {
	k := min + g.r.Intn(max-min+1)
	rs := make([]rune, k)
	for i := range rs {
		rs[i] = alpha[g.r.Intn(len(alpha))]
	}
	return string(rs)
}

func (g *docGen) text() string {
	s := g.runes(textRunes, 1, 12)
	if g.r.Chance(10) {
		s += g.r.Pick([]string{"&amp;", "&lt;b&gt;", "&#39;", "  \n  ", "\t\t", "a > b", "]]>", "-->"})
	}
	return s
}

func (g *docGen) directiveValue(q string) string {
	// literal / ${} mixture delimited by q
	var sb strings.Builder
	parts := 1 + g.r.Intn(3)
	for i := 0; i < parts; i++ {
		switch g.r.Intn(4) {
		case 0:
			lit := g.runes([]rune("abc $ {}:=,;.<>中\t"), 0, 5)
			lit = strings.ReplaceAll(lit, "${", "$ {")
			if strings.HasSuffix(sb.String(), "$") && strings.HasPrefix(lit, "{") {
				lit = " " + lit
			}
			sb.WriteString(lit)
		case 1:
			sb.WriteString("$")
		default:
			e := g.r.Pick(exprPool)
			if strings.Contains(e, q) {
				e = "a"
			}
			sb.WriteString("${" + e + "}")
		}
	}
	return q + sb.String() + q
}

func (g *docGen) attr(used map[string]bool) string {
	name := g.r.Pick(attrNames)
	if g.r.Chance(10) {
		name = g.runes([]rune("abcAZ-_:.9é"), 1, 4)
	}
	directive := false
	if g.o.Directives && g.r.Chance(35) {
		name = g.o.Prefix + g.r.Pick([]string{"text", "if", "else", "title", "with", "range", "x", "raw", "remove", "insert", "else-if"})
		directive = true
	} else if !g.o.Directives && strings.HasPrefix(name, g.o.Prefix) {
		name = "z" + name
	}
	if used[name] && !g.o.Malformed {
		name = name + g.runes([]rune("0123456789"), 2, 3)
	}
	used[name] = true
	if directive {
		if g.r.Chance(12) {
			return name
		}
		q := g.r.Pick([]string{`"`, `'`})
		eq := "="
		if g.r.Chance(15) {
			eq = g.ws(0) + "=" + g.ws(0)
		}
		return name + eq + g.directiveValue(q)
	}
	switch g.r.Intn(7) {
	case 0:
		return name
	case 1:
		v := g.runes(valRunes, 1, 6)
		return name + "=" + v
	case 2:
		return name + "='" + strings.ReplaceAll(g.runes(textRunes, 0, 8), "'", "") + "'"
	case 3:
		return name + g.ws(0) + "=" + g.ws(0) + `"` + strings.ReplaceAll(g.runes(textRunes, 0, 8), `"`, "") + `"`
	case 4:
		return name + `="` + strings.ReplaceAll(g.runes(textRunes, 0, 4)+"\n  "+g.runes(textRunes, 0, 4), `"`, "") + `"`
	case 5:
		return name + `=""`
	default:
		return name + `="` + g.runes([]rune("abc"), 1, 5) + `"`
	}
}

func (g *docGen) attrs() string {
	k := 0
	switch {
	case g.r.Chance(40):
		k = 0
	case g.r.Chance(60):
		k = 1 + g.r.Intn(2)
	default:
		k = 3 + g.r.Intn(3)
	}
	used := map[string]bool{}
	var sb strings.Builder
	for i := 0; i < k; i++ {
		sb.WriteString(g.ws(1))
		sb.WriteString(g.attr(used))
	}
	if g.r.Chance(25) {
		sb.WriteString(g.ws(1))
	}
	if g.r.Chance(4) { // value-less '=' before '>', also on a directive attribute (the empty directive value must be rejected)
		n := "x"
		if g.o.Directives && g.r.Bool() {
			n = g.o.Prefix + g.r.Pick([]string{"text", "if", "href", "with", "range", "remove", "else", "raw", "insert"})
		}
		sb.WriteString(" " + n + "=" + g.ws(0))
	}
	return sb.String()
}

func (g *docGen) rawContent(name string) string {
	var sb strings.Builder
	k := g.r.Intn(5)
	for i := 0; i < k; i++ {
		switch g.r.Intn(8) {
		case 0:
			sb.WriteString("<")
		case 1:
			sb.WriteString("</" + name[:g.r.Intn(len(name)+1)])
		case 2:
			sb.WriteString("</" + name + g.ws(1) + "x>")
		case 3:
			sb.WriteString("a<b")
		case 4:
			sb.WriteString("<!-- c -->")
		case 5:
			sb.WriteString("</ " + name)
		default:
			sb.WriteString(g.runes(textRunes, 1, 8))
		}
	}
	return sb.String()
}

func (g *docGen) closeTag(name string) string {
	switch g.r.Intn(8) {
	case 0:
		return "</" + name + g.ws(1) + ">"
	case 1:
		return "</" + strings.ToUpper(name) + ">"
	default:
		return "</" + name + ">"
	}
}

func (g *docGen) item() {
	if g.n > 60 {
		return
	}
	g.n++
	switch c := g.r.Intn(100); {
	case c < 28:
		g.sb.WriteString(g.text())
	case c < 55: // element
		name := g.r.Pick(plainNames)
		if g.r.Chance(8) {
			name = g.runes([]rune("abcdXY-:9"), 1, 5)
			if name[0] == '-' || name[0] == ':' || name[0] == '9' {
				name = "q" + name
			}
		}
		if !g.o.Hidden && strings.HasPrefix(strings.ToLower(name), "t:") {
			name = "div"
		}
		g.sb.WriteString("<" + name + g.attrs() + ">")
		if g.dep < 5 {
			g.dep++
			k := g.r.Intn(4)
			for i := 0; i < k; i++ {
				g.item()
			}
			g.dep--
		}
		if !g.r.Chance(7) { // sometimes left unclosed
			if g.r.Chance(5) {
				g.sb.WriteString(g.closeTag(g.r.Pick(plainNames))) // mismatched name
			} else {
				g.sb.WriteString(g.closeTag(name))
			}
		}
	case c < 63: // raw text element
		name := g.r.Pick(rawNames)
		if g.r.Chance(8) {
			// a self-closing raw-text open tag still switches to raw text; its close tag is then a stray close tag
			g.sb.WriteString("<" + name + g.attrs() + g.r.Pick([]string{"/>", " />"}))
		} else {
			g.sb.WriteString("<" + name + g.attrs() + ">")
		}
		g.sb.WriteString(g.rawContent(strings.ToLower(name)))
		if !g.r.Chance(5) {
			cn := name
			if g.r.Chance(30) {
				cn = strings.ToLower(name)
			} else if g.r.Chance(30) {
				cn = strings.ToUpper(name)
			}
			switch g.r.Intn(6) {
			case 0:
				g.sb.WriteString("</" + cn + g.ws(1) + ">")
			case 1:
				g.sb.WriteString("<" + g.ws(1) + "/" + g.ws(0) + cn + ">")
			default:
				g.sb.WriteString("</" + cn + ">")
			}
		}
	case c < 71: // void
		name := g.r.Pick(voidNames)
		if strings.HasPrefix(name, "!") {
			g.sb.WriteString("<" + name + " html>")
		} else {
			g.sb.WriteString("<" + name + g.attrs() + ">")
		}
	case c < 78: // self closing
		name := g.r.Pick(plainNames)
		if !g.o.Hidden && strings.HasPrefix(strings.ToLower(name), "t:") {
			name = "div"
		}
		switch g.r.Intn(4) {
		case 0:
			g.sb.WriteString("<" + name + "/>")
		case 1:
			g.sb.WriteString("<" + name + " />")
		case 2:
			g.sb.WriteString("<" + name + " a=b/>")
		default:
			g.sb.WriteString("<" + name + g.attrs() + " />")
		}
	case c < 86: // comment
		body := strings.ReplaceAll(g.runes(textRunes, 0, 10), "--", "-")
		body = strings.TrimLeft(body, ">-")
		if strings.HasSuffix(body, "-") || strings.HasSuffix(body, "<!") {
			body += " "
		}
		if g.o.Hidden && g.r.Chance(30) {
			body = " /* " + body + " */ "
		} else if !g.o.Hidden && strings.HasPrefix(strings.TrimSpace(body), "/*") {
			body = "c" + body
		}
		if g.r.Chance(10) {
			body += "<" + g.r.Pick([]string{"p>", "!- ", "! --"})
		}
		if g.r.Chance(10) {
			// near misses of the hidden-comment form <!-- /* ... */ -->: ordinary comments, reproduced byte for byte
			body = g.r.Pick([]string{"- /* legacy */ -", "! /* b */ !", " /* a */ >", " /* a */ x", "x /* a */ ", " /* a * /", " / * a */ ", "- /* x */", " /* y */ -", "!/* z */", " /* q */!", "< /* r */ >"})
		}
		g.sb.WriteString("<!--" + body + "-->")
	case c < 91: // cdata
		body := strings.ReplaceAll(g.runes(textRunes, 0, 10), "]]>", "]] >")
		if g.r.Chance(30) {
			body += "a>b<c>" + g.r.Pick([]string{"]", "]]", "] ]>x", ">"})
		}
		body = strings.ReplaceAll(body, "]]>", "]] >")
		g.sb.WriteString("<![CDATA[" + body + "]]>")
	case c < 95: // stray close tag
		g.sb.WriteString(g.closeTag(g.r.Pick(plainNames)))
	default:
		g.sb.WriteString(g.text())
	}
}

var badBits = []string{"<p A A>", "<svg viewBox=1 viewBox=2>", "<p Data-x=1 id=i Data-x=>", "<p ID=a id=b>", "<p É É>", "<p :Foo=\"${a}\" :Foo=\"${b}\">", "<!-->", "<!--->", "<!-- <!-- -->", "<!-- --!> -->", "<!-- <!--->", "<p a=1 a=2>", "<p a a>", "<p", "<p a=", "<p a='x", "<!--", "<![CDATA[ x", "<", "< >", "<>", "</>", "<p =>", "<p ==>", "<p a==b>", "<p 'a'>", "<p a=\"x\"b>", "<p a='x'/>", "<p/ >", "<//>", "<!--x--->", "<!---->", "<!-- a -- b -->", "<p a = >", "<p\n>", "<![CDATA[]]>", "<![cdata[x]]>", "<!--->-->", "<p a=b=c>", "<p a= 'x' b>", "<script", "<script>x</script", "<title/>x</title>", "<p :text=>", "<p :text=a>", "<p :text=\"${\">", "<p :text='${a'>", "<p :text=\"${'}\">", "<p :else>", "<p :else  x>", "<p :text=\"a\"\"b\">"}

func mutate(r *Rng, s string) string {
	rs := []rune(s)
	hostile := []rune("<>=\"'/!-[] \t\n:${}`\\")
	k := 1 + r.Intn(3)
	for i := 0; i < k; i++ {
		if len(rs) == 0 {
			rs = append(rs, hostile[r.Intn(len(hostile))])
			continue
		}
		p := r.Intn(len(rs))
		switch r.Intn(4) {
		case 0:
			rs = append(rs[:p], rs[p+1:]...)
		case 1:
			rs = append(rs[:p], append([]rune{hostile[r.Intn(len(hostile))]}, rs[p:]...)...)
		case 2:
			rs[p] = hostile[r.Intn(len(hostile))]
		default: // truncate
			rs = rs[:p]
		}
	}
	return string(rs)
}

// GenDoc generates one document source.
func GenDoc(r *Rng, o DocOpts) string {
	g := &docGen{r: r, o: o}
	k := 1 + r.Intn(6)
	for i := 0; i < k; i++ {
		g.item()
	}
	s := g.sb.String()
	if o.Malformed {
		switch r.Intn(3) {
		case 0:
			p := 0
			if len(s) > 0 {
				rs := []rune(s)
				p = r.Intn(len(rs) + 1)
				s = string(rs[:p]) + r.Pick(badBits) + string(rs[p:])
			} else {
				s = r.Pick(badBits)
			}
		case 1:
			s = mutate(r, s)
		default:
			s = r.Pick(badBits) + mutate(r, s)
		}
	}
	return s
}
