package main

import (
	"errors"
	"fmt"
	stdhtml "html"
	"io"
	"sort"
	"strings"

	tpl "code.gopub.tech/tpl"
	"code.gopub.tech/tpl/exp"
	"code.gopub.tech/tpl/html"
	"code.gopub.tech/tpl/types"
)

var errWriter = errors.New("writer-failed")

// failWriter fails at the budget-th Write call (budget < 0: never) and writes nothing then.
type failWriter struct {
	budget int
	n      int
	sb     strings.Builder
}

func (w *failWriter) Write(p []byte) (int, error) {
	if w.budget >= 0 && w.n >= w.budget {
		return 0, errWriter
	}
	w.n++
	return w.sb.Write(p)
}

var _ io.Writer = (*failWriter)(nil)

// sweepWriter fails at write number failAt. mode 0: from then on every write fails, nothing is accepted;
// mode 1: only that write fails (later writes would be accepted: they are counted in "after");
// mode 2: that write accepts its bytes AND returns an error (allowed by io.Writer), later writes are counted in "after".
type sweepWriter struct {
	failAt, mode int
	n, after     int
	failed       bool
	sb           strings.Builder
}

func (w *sweepWriter) Write(p []byte) (int, error) {
	i := w.n
	w.n++
	if w.failAt >= 0 && (i == w.failAt || (w.mode == 0 && i > w.failAt)) {
		w.failed = true
		if w.mode == 2 && i == w.failAt {
			w.sb.Write(p)
			return len(p), errWriter
		}
		return 0, errWriter
	}
	if w.failed {
		w.after++
	}
	return w.sb.Write(p)
}

func execSweep(tpl types.Template, data map[string]any, w *sweepWriter) (res runResult) {
	l := &CallLog{}
	defer func() {
		if x := recover(); x != nil {
			res = runResult{out: w.sb.String(), class: fmt.Sprintf("PANIC %v", x), log: strings.Join(l.entries, ",")}
		}
	}()
	d := map[string]any{}
	for k, v := range data {
		d[k] = v
	}
	for k, v := range userFuncs(l) {
		d[k] = v
	}
	err := tpl.Execute(w, d)
	res = runResult{out: w.sb.String(), log: strings.Join(l.entries, ",")}
	if err != nil {
		res.class = renderClass(err)
		res.msg = err.Error()
	}
	return res
}

// writerSweep (C12): the writer fails at EVERY write index 0..W-1 of the render, in the three ways above. Each time
// Execute must return the writer's error, what was written must be a prefix of the unlimited output, nothing may be
// written after the failure, and the calls made must be a prefix of the calls of the unlimited render.
func writerSweep(m types.TemplateManager, name string, data map[string]any, stats func(string)) string {
	tpl, err := m.GetTemplate(name)
	if err != nil {
		return ""
	}
	fullW := &sweepWriter{failAt: -1}
	full := execSweep(tpl, data, fullW)
	if strings.HasPrefix(full.class, "PANIC") || full.class == "toodeep" {
		return ""
	}
	W := fullW.n
	if W > 40 {
		W = 40
	}
	stats(fmt.Sprintf("sweep-writes-%d", (W/10)*10))
	for k := 0; k < W; k++ {
		for mode := 0; mode < 3; mode++ {
			t2, _ := m.GetTemplate(name)
			w := &sweepWriter{failAt: k, mode: mode}
			got := execSweep(t2, data, w)
			what := fmt.Sprintf("writer failing at write %d of %d (mode %d)", k, fullW.n, mode)
			switch {
			case got.class != "writer":
				return fmt.Sprintf("%s: Execute returned %q, not the writer's error (output %q)", what, got.class, got.out)
			case w.after > 0:
				return fmt.Sprintf("%s: %d write(s) were made after the failure", what, w.after)
			case !strings.HasPrefix(full.out, got.out):
				return fmt.Sprintf("%s: what was written %q is not a prefix of the full output %q", what, got.out, full.out)
			case !strings.HasPrefix(full.log, got.log):
				return fmt.Sprintf("%s: calls made %q are not a prefix of the calls of the full render %q", what, got.log, full.log)
			}
		}
	}
	return ""
}

var hostileStrings = []string{"x", "a<b", "<script>alert(1)</script>", "a&b", `"q"`, "it's", `a\b`, "l1\nl2", "\ttab", "${x}", "}", "-->", "</p>", "é中😀", "a=\"b\" c='d'", "&amp;", "\x01", " ", "", "<!--", "]]>", "> <", "pad \n", "\u3000wide\u00a0"}

func genData(r *Rng) map[string]any {
	d := map[string]any{}
	for i := 1; i <= 4; i++ {
		d[fmt.Sprintf("c%d", i)] = r.Bool()
	}
	d["s1"] = r.Pick(hostileStrings)
	if r.Chance(70) {
		d["s2"] = r.Pick(hostileStrings)
	}
	d["r1"] = r.Pick([]string{"<b>bold</b>", "plain", "<i a='1'>", ""})
	d["num"] = int64(r.Intn(5))
	d["name"] = "Ann"
	n := r.Intn(4)
	xs := make([]any, n)
	for i := range xs {
		if r.Chance(70) {
			xs[i] = r.Pick([]string{"a", "b", "<c>", "d&e"})
		} else {
			xs[i] = int64(r.Intn(10))
		}
	}
	d["xs"] = xs
	d["ns"] = []int{10, 20}[:r.Intn(3)]
	d["m1"] = map[string]any{"k": r.Pick([]string{"v", "<v>"})}
	d["word"] = r.Pick([]string{"ab", "", "xyz"})
	d["emp"] = []any{}
	d["st"] = T1{Name: "Sue", Age: 3, Tags: []string{"t1", "t2"}}
	d["nilv"] = nil
	if r.Chance(8) { // the data may shadow built-in names: they are resolved last
		d[r.Pick([]string{"true", "false"})] = r.Pick([]string{"mine", "7", "true"})
	}
	d["p4"], d["q4"] = &T4{N: int64(r.Intn(3))}, &T4{N: int64(10 + r.Intn(3))} // two receivers of one type with different method results
	d["t3"] = T3{T2{X: int64(20 + r.Intn(5))}, r.Intn(9)}                      // promoted fields and methods of an embedded struct
	d["fname"] = r.Pick([]string{"f1", "f1", "f2", "f3", "nosuch"})
	d["fnames"] = []any{r.Pick([]string{"f1", "f2"}), r.Pick([]string{"f1", "f2", "f3"}), "f1"}[:1+r.Intn(3)]
	return d
}

func renderClass(err error) string {
	switch {
	case errors.Is(err, errWriter):
		return "writer"
	case errors.Is(err, html.ErrIncludeTooDeep):
		return "toodeep"
	case errors.Is(err, html.ErrTplNotFound):
		return "notfound"
	case errors.Is(err, html.ErrAttrValueExpected):
		return "novalue"
	}
	return errClass(err)
}

type runResult struct {
	out   string
	class string // "" = ok
	log   string
	msg   string // the error's text: compared only between two runs of the implementation itself (C16), never with the model
}

func (r runResult) line() string {
	var sb strings.Builder
	if r.class == "" {
		sb.WriteString("OK ")
	} else {
		sb.WriteString("ERR " + r.class + " ")
	}
	pStr(&sb, r.out)
	if r.class == "toodeep" {
		// how many calls were made before the depth guard fired depends on the limit, not on the property
		sb.WriteString(" LOG ")
		return sb.String()
	}
	sb.WriteString(" LOG " + r.log)
	return sb.String()
}

type tmplCfg struct {
	ap, tp      string
	tags, voids []string
	global      map[string]any
	globalScope exp.Scope // when set: used instead of NewScope(global) (a scope built by the caller, e.g. with exp.Combine)
}

type tmplRun struct {
	data   map[string]any
	budget int
}

func newManager(cfg tmplCfg, files [][2]string) (m types.TemplateManager, loadErr string) {
	defer func() {
		if x := recover(); x != nil {
			m, loadErr = nil, fmt.Sprintf("PANIC %v", x)
		}
	}()
	mgr := html.NewTplManager().SetAttrPrefix(cfg.ap).SetTagPrefix(cfg.tp)
	if len(files) > 0 && len(files[0][1])%3 == 0 {
		// the global scope may be SET more than once: the last one replaces the earlier ones entirely
		mgr.SetGlobalScope(exp.NewScope(map[string]any{"g1": "stale-global", "stale": "stale", "len": "stale-len", "name": "stale-name", "zz": "stale-zz"}))
	}
	if cfg.globalScope != nil {
		mgr.SetGlobalScope(cfg.globalScope)
	} else {
		mgr.SetGlobalScope(exp.NewScope(cfg.global))
	}
	if cfg.tags != nil {
		mgr.SetTextTags(cfg.tags)
	}
	if cfg.voids != nil {
		mgr.SetVoidElements(cfg.voids)
	}
	for _, f := range files {
		if err := mgr.Add(f[0], strings.NewReader(f[1])); err != nil {
			switch {
			case errors.Is(err, html.ErrDuplicatedTplName):
				return nil, "LOADERR dup"
			case strings.Contains(err.Error(), "failed to read html tokens"):
				return nil, "LOADERR scan-" + scanErrClass(err)
			}
			return nil, "LOADERR eval"
		}
	}
	return mgr, ""
}

func execOne(tpl types.Template, run tmplRun) (res runResult) {
	l := &CallLog{}
	w := &failWriter{budget: run.budget}
	defer func() {
		if x := recover(); x != nil {
			res = runResult{out: w.sb.String(), class: fmt.Sprintf("PANIC %v", x), log: strings.Join(l.entries, ",")}
		}
	}()
	data := map[string]any{}
	for k, v := range run.data {
		data[k] = v
	}
	for k, v := range userFuncs(l) {
		data[k] = v
	}
	err := tpl.Execute(w, data)
	res = runResult{out: w.sb.String(), log: strings.Join(l.entries, ",")}
	if err != nil {
		res.class = renderClass(err)
		res.msg = err.Error()
	}
	return res
}

// helperAgrees: tpl.RenderToString and tpl.RenderToBytes give what Execute gives (output also when the render fails)
func helperAgrees(m types.TemplateManager, name string, run tmplRun, want runResult) (why string) {
	defer func() {
		if x := recover(); x != nil {
			why = fmt.Sprintf("PANIC in RenderToString/RenderToBytes: %v", x)
		}
	}()
	data := map[string]any{}
	for k, v := range run.data {
		data[k] = v
	}
	for k, v := range userFuncs(&CallLog{}) {
		data[k] = v
	}
	t1, _ := m.GetTemplate(name)
	s, e1 := tpl.RenderToString(t1, data)
	t2, _ := m.GetTemplate(name)
	b, e2 := tpl.RenderToBytes(t2, data)
	c1, c2 := "", ""
	if e1 != nil {
		c1 = renderClass(e1)
	}
	if e2 != nil {
		c2 = renderClass(e2)
	}
	if s != want.out || c1 != want.class {
		return fmt.Sprintf("RenderToString gives %q (error class %q), Execute %q (%q)", s, c1, want.out, want.class)
	}
	if string(b) != want.out || c2 != want.class {
		return fmt.Sprintf("RenderToBytes gives %q (error class %q), Execute %q (%q)", b, c2, want.out, want.class)
	}
	return ""
}

// implRender loads the files, gets the template and runs the history on ONE template object.
func implRender(cfg tmplCfg, files [][2]string, name string, runs []tmplRun) (string, []runResult) {
	m, le := newManager(cfg, files)
	if le != "" {
		return le, nil
	}
	tpl, err := m.GetTemplate(name)
	if err != nil {
		return "GETERR " + renderClass(err), nil
	}
	var rs []runResult
	var parts []string
	for _, run := range runs {
		r := execOne(tpl, run)
		rs = append(rs, r)
		parts = append(parts, r.line())
	}
	return strings.Join(parts, " ## "), rs
}

func encData(d map[string]any) string {
	ve := newValEnc()
	var names []string
	for n := range d {
		names = append(names, n)
	}
	sort.Strings(names)
	var parts []string
	for _, n := range names {
		parts = append(parts, encRunes(n)+"="+ve.enc(d[n]))
	}
	fn := make([]string, 0, len(userFuncIDs))
	for n := range userFuncIDs {
		fn = append(fn, n)
	}
	sort.Strings(fn)
	for _, n := range fn {
		parts = append(parts, fmt.Sprintf("%s=F%d()", encRunes(n), userFuncIDs[n]))
	}
	return "M(" + strings.Join(parts, ";") + ")"
}

func encGlobal(g map[string]any) string {
	ve := newValEnc()
	var names []string
	for n := range g {
		names = append(names, n)
	}
	sort.Strings(names)
	var parts []string
	for _, n := range names {
		parts = append(parts, encRunes(n)+"="+ve.enc(g[n]))
	}
	return "M(" + strings.Join(parts, ";") + ")"
}

func renderCase(cfg tmplCfg, files [][2]string, name string, runs []tmplRun) string {
	var fs []string
	for _, f := range files {
		fs = append(fs, encStr(f[0])+"~"+encStr(f[1]))
	}
	var rs []string
	for _, r := range runs {
		rs = append(rs, fmt.Sprintf("%s@%d", encData(r.data), r.budget))
	}
	return fmt.Sprintf("render %s %s %s %s %s %s %s %s %s", encStr(cfg.ap), encStr(cfg.tp), encStrs(defTags(cfg.tags)), encStrs(defVoids(cfg.voids)),
		strings.Join(fs, "|"), encStr(name), encMethods(), encGlobal(cfg.global), strings.Join(rs, "!"))
}

// tagsOf: the sequence of tag names and attribute names of a rendered output (C02 structure oracle)
func tagsOf(out string) (string, bool) {
	toks, err := html.NewHtmlScanner(strings.NewReader(out)).GetAllTokens()
	if err != nil {
		return "", false
	}
	var sb strings.Builder
	for _, t := range toks {
		if t.Kind == html.TokenKindTag && t.Tag != nil {
			sb.WriteString("<" + t.Tag.Name)
			for _, a := range t.Tag.Attrs {
				sb.WriteString(" " + a.Name)
			}
			sb.WriteString(">")
		} else if t.Kind == html.TokenKindComment {
			sb.WriteString("<!>")
		}
	}
	return sb.String(), true
}

// noDirectiveLeft (C05): "no directive attribute, block tag or hidden comment ever appears in the output" - the output of a
// successful render is scanned (with a prefix that matches nothing, so that nothing is compiled) and searched for them
func noDirectiveLeft(cfg tmplCfg, out string) string {
	toks, err := html.NewHtmlScanner(strings.NewReader(out)).SetAttrPrefix("\x00none\x00").GetAllTokens()
	if err != nil {
		return "" // the structure oracle (C02) deals with unscannable output
	}
	block := strings.ToLower(cfg.tp + "block")
	for _, t := range toks {
		switch {
		case t.Kind == html.TokenKindTag && t.Tag != nil:
			name := strings.Trim(strings.ToLower(t.Tag.Name), "/")
			if name == block {
				return fmt.Sprintf("the block tag %q appears in the output %q", t.Value, out)
			}
			for _, a := range t.Tag.Attrs {
				if strings.HasPrefix(a.Name, cfg.ap) {
					return fmt.Sprintf("the directive attribute %q appears in the output tag %q", a.Name, t.Value)
				}
			}
		case t.Kind == html.TokenKindComment:
			body := strings.TrimSpace(strings.TrimSuffix(strings.TrimPrefix(t.Value, "<!--"), "-->"))
			if strings.HasPrefix(body, "/*") && strings.HasSuffix(body, "*/") {
				return fmt.Sprintf("the hidden comment %q appears in the output", t.Value)
			}
		}
	}
	return ""
}

// sameModuloOrder: same outcome and output; the calls made may be ordered differently among
// directives whose relative order is not fixed (and, on failure, fewer of them may have run)
func sameModuloOrder(a, b runResult) bool {
	if a.out != b.out {
		return false
	}
	if a.class != "" && b.class != "" {
		// both renders fail at the same point of the output: WHICH of two failing expressions of the last group
		// (text/raw/insert/replace and dynamic attributes, whose relative order is the written one) is met first is
		// not fixed by the property
		return true
	}
	if a.class != b.class {
		return false
	}
	x, y := strings.Split(a.log, ","), strings.Split(b.log, ",")
	sort.Strings(x)
	sort.Strings(y)
	return strings.Join(x, ",") == strings.Join(y, ",")
}

func snapshotAll(m types.TemplateManager) string {
	tps := html.VerifTemplates(m)
	names := make([]string, 0, len(tps))
	for n := range tps {
		names = append(names, n)
	}
	sort.Strings(names)
	var sb strings.Builder
	for _, n := range names {
		sb.WriteString(n + "=" + html.VerifSnapshot(tps[n]) + "\n")
	}
	return sb.String()
}

func firstDiff(a, b string) string {
	i := 0
	for i < len(a) && i < len(b) && a[i] == b[i] {
		i++
	}
	lo := i - 60
	if lo < 0 {
		lo = 0
	}
	hi := i + 60
	cut := func(s string) string {
		if hi > len(s) {
			return s[lo:]
		}
		return s[lo:hi]
	}
	return fmt.Sprintf("%q vs %q", cut(a), cut(b))
}

var probeStrings = []string{"a<b", "x&y", "&lt;", "&amp;amp;", "&#34;", "a=1&lt=2", `"q"`, "it's", `a\b`, "l1\nl2", "\ttab", "${x}", "}", "-->", "</p>", "</script>", "é中😀", "\x01", " ", "", "> <", "&", "&&", "'\"'"}

func escapeProbe(r *Rng, cfg tmplCfg) string {
	a, b := r.Pick(probeStrings), r.Pick(probeStrings)
	ap := cfg.ap
	src := "<p " + ap + "title=\"${s1}\" " + ap + "data-x='pre-${s2}-post' " + ap + "text=\"${s1}\">old</p><textarea " + ap + "text='[${s2}]'></textarea>" +
		"<i " + ap + "with=\"w := ${s1}\" " + ap + "class=\"${w}\"></i><b " + ap + "range=\"_, x : xs\" " + ap + "id=\"${x}\" " + ap + "text=\"${ident(x)}\"></b>"
	m, le := newManager(cfg, [][2]string{{"probe.html", src}})
	if le != "" {
		return "escape probe does not load: " + le
	}
	tpl, _ := m.GetTemplate("probe.html")
	res := execOne(tpl, tmplRun{data: map[string]any{"s1": a, "s2": b, "xs": []any{a, b}}, budget: -1})
	if res.class != "" {
		return "escape probe failed to render: " + res.class
	}
	toks, err := html.NewHtmlScanner(strings.NewReader(res.out)).SetAttrPrefix(ap).GetAllTokens()
	if err != nil {
		return fmt.Sprintf("output of the escape probe does not scan (inserted %q, %q): %q", a, b, res.out)
	}
	un := func(v *string) string {
		if v == nil {
			return "<nil>"
		}
		s := *v
		if len(s) >= 2 {
			s = s[1 : len(s)-1]
		}
		return stdhtml.UnescapeString(s)
	}
	var tags, texts []string
	attrs := map[string]string{}
	for _, t := range toks {
		if t.Kind == html.TokenKindTag && t.Tag != nil {
			tags = append(tags, t.Tag.Name)
			for _, at := range t.Tag.Attrs {
				attrs[t.Tag.Name+"."+at.Name+fmt.Sprint(len(tags))] = un(at.Value)
			}
		} else if t.Kind == html.TokenKindText {
			texts = append(texts, stdhtml.UnescapeString(t.Value))
		}
	}
	wantTags := "p /p textarea /textarea i /i b /b b /b"
	if strings.Join(tags, " ") != wantTags {
		return fmt.Sprintf("inserting %q / %q changed the markup structure: tags %v, output %q", a, b, tags, res.out)
	}
	checks := map[string]string{"p.title1": a, "p.data-x1": "pre-" + b + "-post", "i.class5": a, "b.id7": a, "b.id9": b}
	for k, want := range checks {
		if attrs[k] != want {
			return fmt.Sprintf("attribute %s reads back as %q, inserted %q (output %q)", k, attrs[k], want, res.out)
		}
	}
	var wantTexts []string
	for _, s := range []string{a, "[" + b + "]", a, b} {
		if s != "" {
			wantTexts = append(wantTexts, s)
		}
	}
	if strings.Join(texts, "\x00") != strings.Join(wantTexts, "\x00") {
		return fmt.Sprintf("texts read back as %q, inserted %q (output %q)", texts, wantTexts, res.out)
	}
	return ""
}

func copyData(d map[string]any) map[string]any {
	c := map[string]any{}
	for k, v := range d {
		c[k] = v
	}
	return c
}

// genTmplCase produces one soup case with its metamorphic oracle verdicts.
func genTmplCase(r *Rng, out *outFiles) {
	cfg := tmplCfg{ap: r.Pick([]string{":", ":", ":", "v-", "th:", "ui:", "wire:", "attr-"}), tp: r.Pick([]string{"t:", "t:", "x-", "tb:", "ck-"}),
		global: map[string]any{"g1": "G", "s2": "global-s2", "num": int64(99)}}
	if r.Chance(8) {
		// global entries named like built-ins: the global scope is consulted BEFORE the built-ins
		cfg.global["true"] = false
		cfg.global["len"] = int64(7)
		cfg.global["string"] = "S"
	}
	g := &tmplGen{r: r, ap: cfg.ap, tp: cfg.tp}
	ts := g.genSet()
	g.layout(ts)
	nruns := 1 + r.Intn(3)
	var runs []tmplRun
	for i := 0; i < nruns; i++ {
		b := -1
		if r.Chance(15) {
			b = r.Intn(12)
		}
		runs = append(runs, tmplRun{data: genData(r), budget: b})
	}
	name := ts.Main
	if r.Chance(8) && len(ts.FragTree) > 0 {
		name = "f1"
	}
	if r.Chance(2) {
		name = "nosuch.html"
	}
	noteInput(renderCase(cfg, ts.Files, name, runs))
	line, rs := implRender(cfg, ts.Files, name, runs)
	var c16, c05, c12, c02, c08, c15, c07 string
	if strings.Contains(line, "PANIC") {
		c08 = line
	}
	if rs != nil {
		m, _ := newManager(cfg, ts.Files)
		snapBefore := snapshotAll(m)
		defer func() {
			_ = snapBefore
		}()
		// C16: every run equals the same data on a fresh template object
		for i, run := range runs {
			tpl, _ := m.GetTemplate(name)
			fresh := execOne(tpl, run)
			if fresh.line() != rs[i].line() && c16 == "" {
				c16 = fmt.Sprintf("run %d on a used template object gives %s, on a fresh object %s", i, rs[i].line(), fresh.line())
			}
			if fresh.msg != rs[i].msg && c16 == "" { // the error is part of the result: same templates, same data, same error
				c16 = fmt.Sprintf("run %d: the same data gives the error %q on the used object and %q on a fresh one", i, rs[i].msg, fresh.msg)
			}
			// the package-level helpers RenderToString / RenderToBytes are Execute into a buffer: same output, same error
			if i == 0 && run.budget < 0 && c16 == "" {
				c16 = helperAgrees(m, name, run, fresh)
			}
			// C12: with a failing writer, what was written is a prefix of the unlimited output
			if run.budget >= 0 && c12 == "" {
				tpl2, _ := m.GetTemplate(name)
				full := execOne(tpl2, tmplRun{data: run.data, budget: -1})
				if !strings.HasPrefix(full.out, rs[i].out) {
					c12 = fmt.Sprintf("output with a writer failing at write %d is not a prefix of the full output", run.budget)
				} else if rs[i].class == "" && full.class == "" && rs[i].out != full.out {
					c12 = "writer failure swallowed: Execute returned nil but output is truncated"
				} else if rs[i].class == "writer" && !strings.HasPrefix(full.log, rs[i].log) {
					c12 = "calls were made after the writer failed: " + rs[i].log + " vs " + full.log
				}
			}
		}
		if c12 == "" {
			c12 = writerSweep(m, name, runs[0].data, out.count)
		}
		// C07: every definition written anywhere in the loaded files (top level, inside elements, inside other
		// definitions) and every file is resolvable by name, whatever the load order
		for fn := range ts.FragTree {
			if _, err := m.GetTemplate(fn); err != nil && c07 == "" {
				c07 = fmt.Sprintf("fragment %q is defined in the loaded files but GetTemplate fails: %s", fn, renderClass(err))
			}
		}
		for _, nn := range []string{"nosuch", "100%.html", "%v", "a%sb"} {
			if _, err := m.GetTemplate(nn); !errors.Is(err, html.ErrTplNotFound) && c07 == "" {
				c07 = fmt.Sprintf("unknown name %q is not a template-not-found error: %v", nn, err)
			}
		}
		for _, fl := range ts.Files {
			if _, err := m.GetTemplate(fl[0]); err != nil && c07 == "" {
				c07 = fmt.Sprintf("file %q was loaded but GetTemplate fails: %s", fl[0], renderClass(err))
			}
		}
		// C15: executing templates never writes to the shared parsed trees (incl. the Tag caches)
		if after := snapshotAll(m); after != snapBefore {
			c15 = "the shared parsed tree changed during Execute: " + firstDiff(snapBefore, after)
		}
		// C05: the order in which control attributes are written does not matter
		reorderCtl(r, ts.MainTree)
		for _, ft := range ts.FragTree {
			reorderCtl(r, ft)
		}
		files2 := make([][2]string, len(ts.Files))
		copy(files2, ts.Files)
		g2 := &tmplGen{r: auxRng(1, 1), ap: cfg.ap, tp: cfg.tp}
		_ = g2
		// re-print main with reordered attributes; fragments keep their layout only if they are in main:
		// simpler and exact: rebuild every file text by replacing the printed trees
		// (layout randomness is avoided by re-printing from the same layout decisions)
		// -> we only re-print the main tree when no fragment is defined inside main.html
		mainOnly := true
		for _, f := range ts.Files {
			if f[0] == "main.html" && strings.Contains(f[1], cfg.ap+"define=") {
				mainOnly = false
			}
		}
		if mainOnly && name == "main.html" {
			for i, f := range files2 {
				if f[0] == "main.html" {
					files2[i][1] = printNodes(ts.MainTree)
				}
			}
			_, rs2 := implRender(cfg, files2, name, runs[:1])
			if rs2 != nil && !sameModuloOrder(rs2[0], rs[0]) {
				c05 = fmt.Sprintf("reordering control attributes changes the result: %s vs %s", rs[0].line(), rs2[0].line())
			}
		}
		if c05 == "" && rs[0].class == "" && runs[0].budget < 0 {
			c05 = noDirectiveLeft(cfg, rs[0].out)
		}
		// C02: structure does not depend on the inserted strings s1/s2 (never used by control directives)
		if rs[0].class == "" && runs[0].budget < 0 {
			d2 := copyData(runs[0].data)
			d2["s1"], d2["s2"] = "x", "x"
			d1 := copyData(runs[0].data)
			if _, ok := d1["s2"]; !ok {
				d1["s2"] = "y"
			}
			tplA, _ := m.GetTemplate(name)
			tplB, _ := m.GetTemplate(name)
			ra := execOne(tplA, tmplRun{data: d1, budget: -1})
			rb := execOne(tplB, tmplRun{data: d2, budget: -1})
			// a with-binding may rebind a name that control directives read (num := ${s2} and :range="x : num"): then the
			// inserted string legitimately steers the control flow - outside this clause
			rebinds := false
			all := fmt.Sprint(ts.Files)
			for _, nm := range []string{"num :=", "s1 :=", "true :=", "false :=", "len :="} {
				if strings.Contains(all, nm) {
					rebinds = true
				}
			}
			if ra.class == "" && rb.class == "" && !rebinds && !strings.Contains(ts.Files[0][1]+all, "raw") && !strings.Contains(all, "recs(") {
				ta, oka := tagsOf(ra.out)
				tb, okb := tagsOf(rb.out)
				if okb && (!oka || ta != tb) {
					c02 = fmt.Sprintf("markup structure depends on inserted strings s1=%q s2=%q: %q vs %q", d1["s1"], d1["s2"], ta, tb)
				}
			}
		}
	}
	// C02 probe: an HTML consumer reads back exactly the inserted strings (text and dynamic attributes,
	// pure ${} values and literal/${} mixtures, ordinary and raw-text hosts)
	if c02 == "" {
		c02 = escapeProbe(r, cfg)
	}
	if c15 == "" && c16 != "" {
		// C15: "with and without a shared template object per goroutine" every execution equals the one run alone
		c15 = "an execution on a reused template object differs from the same execution run alone: " + c16
	}
	out.count("soup")
	out.put(renderCase(cfg, ts.Files, name, runs), line, verdict("C16", c16), verdict("C05", c05), verdict("C12", c12), verdict("C02", c02), verdict("C08", c08), verdict("C15", c15), verdict("C07", c07))
}
