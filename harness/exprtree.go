package main

import (
	"fmt"
	"strings"

	"code.gopub.tech/tpl/exp/parser"
	"github.com/antlr4-go/antlr/v4"
)

// Canonical printing of the ANTLR parse tree in the shape of the model's AST (coq/Exp/Parse.v).

func pExprOpt(sb *strings.Builder, e parser.IExpressionContext) {
	if e == nil {
		sb.WriteString("_")
		return
	}
	pExpr(sb, e)
}

func tokPos(t antlr.Token) string { return fmt.Sprintf("%d %d", t.GetLine(), t.GetColumn()) }

func pExpr(sb *strings.Builder, e parser.IExpressionContext) {
	ctx, ok := e.(*parser.ExpressionContext)
	if !ok || ctx == nil {
		sb.WriteString("?")
		return
	}
	switch {
	case ctx.PrimaryExpr() != nil:
		pPrimary(sb, ctx.PrimaryExpr())
	case ctx.GetUnary_op() != nil:
		sb.WriteString("(un " + ctx.GetUnary_op().GetText() + " ")
		pExprOpt(sb, ctx.Expression(0))
		sb.WriteString(")")
	case ctx.GetMul_op() != nil, ctx.GetAdd_op() != nil, ctx.GetRel_op() != nil, ctx.LOGICAL_AND() != nil, ctx.LOGICAL_OR() != nil:
		var op string
		switch {
		case ctx.GetMul_op() != nil:
			op = ctx.GetMul_op().GetText()
		case ctx.GetAdd_op() != nil:
			op = ctx.GetAdd_op().GetText()
		case ctx.GetRel_op() != nil:
			op = ctx.GetRel_op().GetText()
		case ctx.LOGICAL_AND() != nil:
			op = "&&"
		default:
			op = "||"
		}
		sb.WriteString("(bin " + op + " ")
		pExprOpt(sb, ctx.Expression(0))
		sb.WriteString(" ")
		pExprOpt(sb, ctx.Expression(1))
		sb.WriteString(")")
	case ctx.Question() != nil:
		sb.WriteString("(cond ")
		pExprOpt(sb, ctx.Expression(0))
		sb.WriteString(" ")
		pExprOpt(sb, ctx.Expression(1))
		sb.WriteString(" ")
		pExprOpt(sb, ctx.Expression(2))
		sb.WriteString(")")
	default:
		sb.WriteString("?")
	}
}

func pPrimary(sb *strings.Builder, p parser.IPrimaryExprContext) {
	ctx, ok := p.(*parser.PrimaryExprContext)
	if !ok || ctx == nil {
		sb.WriteString("?")
		return
	}
	switch {
	case ctx.Operand() != nil:
		o := ctx.Operand().(*parser.OperandContext)
		switch {
		case o.Literal() != nil:
			l := o.Literal().(*parser.LiteralContext)
			k := "?"
			switch {
			case l.LiteralNil() != nil:
				k = "nil"
			case l.Integer() != nil:
				k = "int"
			case l.String_() != nil:
				k = "str"
			case l.LiteralFloat() != nil:
				k = "float"
			case l.LiteralImag() != nil:
				k = "imag"
			}
			sb.WriteString("(lit " + k + " ")
			pStr(sb, l.GetText())
			sb.WriteString(" " + tokPos(l.GetStart()) + ")")
		case o.OperandName() != nil:
			sb.WriteString("(name ")
			pStr(sb, o.GetText())
			sb.WriteString(" " + tokPos(o.GetStart()) + ")")
		case o.L_PAREN() != nil:
			sb.WriteString("(paren ")
			pExprOpt(sb, o.Expression())
			sb.WriteString(")")
		default:
			sb.WriteString("?")
		}
	case ctx.PrimaryExpr() != nil:
		switch {
		case ctx.Field() != nil:
			f := ctx.Field().(*parser.FieldContext)
			sb.WriteString("(field ")
			pPrimary(sb, ctx.PrimaryExpr())
			if f.SafeIndex() != nil {
				sb.WriteString(" safe ")
			} else {
				sb.WriteString(" dot ")
			}
			if f.IDENTIFIER() != nil {
				pStr(sb, f.IDENTIFIER().GetText())
			} else {
				sb.WriteString("?")
			}
			sb.WriteString(")")
		case ctx.Index() != nil:
			sb.WriteString("(index ")
			pPrimary(sb, ctx.PrimaryExpr())
			sb.WriteString(" ")
			pExprOpt(sb, ctx.Index().Expression())
			sb.WriteString(")")
		case ctx.Slice() != nil:
			s := ctx.Slice().(*parser.SliceContext)
			if len(s.AllCOLON()) == 1 {
				sb.WriteString("(slice ")
				pPrimary(sb, ctx.PrimaryExpr())
				sb.WriteString(" ")
				pExprOpt(sb, s.GetLo())
				sb.WriteString(" ")
				pExprOpt(sb, s.GetHi())
			} else {
				sb.WriteString("(slice3 ")
				pPrimary(sb, ctx.PrimaryExpr())
				sb.WriteString(" ")
				pExprOpt(sb, s.GetLo())
				sb.WriteString(" ")
				pExprOpt(sb, s.GetHi())
				sb.WriteString(" ")
				pExprOpt(sb, s.GetCap_())
			}
			sb.WriteString(")")
		case ctx.Arguments() != nil:
			a := ctx.Arguments().(*parser.ArgumentsContext)
			sb.WriteString("(call ")
			pPrimary(sb, ctx.PrimaryExpr())
			sb.WriteString(" (")
			if a.ExpressionList() != nil {
				for i, x := range a.ExpressionList().AllExpression() {
					if i > 0 {
						sb.WriteString(" ")
					}
					pExprOpt(sb, x)
				}
			}
			sb.WriteString(")")
			if a.ELLIPSIS() != nil {
				sb.WriteString(" ell")
			} else {
				sb.WriteString(" -")
			}
			if a.COMMA() != nil {
				sb.WriteString(" comma")
			} else {
				sb.WriteString(" -")
			}
			sb.WriteString(")")
		default:
			sb.WriteString("?")
		}
	default:
		sb.WriteString("?")
	}
}
