package main

import (
	"fmt"
	"math"
	"reflect"
	"strconv"
	"strings"
)

// Typed expression generator with an independent reference evaluation (Go semantics on
// int64 / float64 / string / bool), used by the parse / eval families.

type Ex struct {
	K    string // lit name un bin cond paren field index slice slice3 call
	Op   string
	A    *Ex
	B    *Ex
	C    *Ex
	Args []*Ex
	Text string // literal text / identifier / field name
	Val  any    // literal value (int64, float64, string, bool, nil)
	Ell  bool
	Cm   bool
}

var binLevel = map[string]int{"*": 6, "/": 6, "%": 6, "<<": 6, ">>": 6, "&": 6, "&^": 6,
	"+": 5, "-": 5, "|": 5, "^": 5, "==": 4, "!=": 4, "<": 4, "<=": 4, ">": 4, ">=": 4, "&&": 3, "||": 2}

func (e *Ex) level() int {
	switch e.K {
	case "un":
		return 7
	case "bin":
		return binLevel[e.Op]
	case "cond":
		return 1
	}
	return 8
}

type exGen struct {
	r          *Rng
	env        *Env
	rightTer   bool // produced a conditional in else-position without parentheses
	newlines   bool
	instr      bool // insert recording / failing calls at leaves
	noRightTer bool // always parenthesise a conditional in else-position (the left-associativity finding belongs to C09)
}

// Env: identifiers available to expressions and their Go values.
type Env struct {
	Names    []string
	Vals     map[string]any
	ErrClass string   // class of the first error met by RefEval ("" = generic)
	Log      []string // calls of the recording functions made by RefEval
	K        int64    // counter for recording-call ids
}

func (e *Env) fail(class string) (any, bool) {
	if e.ErrClass == "" {
		e.ErrClass = class
	}
	return nil, false
}

func (g *exGen) intLit(v int64) *Ex {
	if g.r.Chance(2) {
		// an integer literal that does not fit int64: an error when (and only when) it is evaluated, never a clipped value
		return &Ex{K: "lit", Op: "badint", Text: g.r.Pick([]string{"9223372036854775808", "18446744073709551616", "0x8000000000000000", "99999999999999999999", "0o1000000000000000000000", "0b1" + strings.Repeat("0", 63)})}
	}
	if v < 0 {
		// negative literals do not exist: unary minus on the magnitude (MinInt64 avoided)
		if v == math.MinInt64 {
			v = math.MinInt64 + 1
		}
		return &Ex{K: "un", Op: "-", A: g.intLit(-v)}
	}
	var text string
	switch g.r.Intn(8) {
	case 0:
		text = "0x" + strconv.FormatInt(v, 16)
	case 1:
		text = "0X" + strings.ToUpper(strconv.FormatInt(v, 16))
	case 2:
		text = "0b" + strconv.FormatInt(v, 2)
	case 3:
		text = "0o" + strconv.FormatInt(v, 8)
	case 4:
		if v == 0 {
			text = "0"
		} else {
			text = "0" + strconv.FormatInt(v, 8)
		}
	default:
		text = strconv.FormatInt(v, 10)
	}
	if g.r.Chance(15) && len(text) > 3 {
		// underscores between digits (after the prefix)
		p := 2 + g.r.Intn(len(text)-2)
		c := text[p-1]
		if (c >= '0' && c <= '9' || c >= 'a' && c <= 'f' || c >= 'A' && c <= 'F') && !(p == 1) {
			if !(text[0] == '0' && p == 2 && (text[1] == 'x' || text[1] == 'X' || text[1] == 'b' || text[1] == 'o')) {
				text = text[:p] + "_" + text[p:]
			} else {
				text = text[:p] + "_" + text[p:]
			}
		}
	}
	return &Ex{K: "lit", Op: "int", Text: text, Val: v}
}

var interestingInts = []int64{0, 1, 2, 3, 7, 8, 10, 63, 64, 65, 100, 255, 256, 1000, 65535, 1 << 31, 1<<32 - 1, 1 << 53, 1<<53 + 1, math.MaxInt64, math.MaxInt64 - 1, -1, -2, -7, -128, -1 << 31, math.MinInt64 + 1}

func (g *exGen) someInt() int64 {
	if g.r.Chance(60) {
		return interestingInts[g.r.Intn(len(interestingInts))]
	}
	if g.r.Chance(50) {
		return int64(g.r.Intn(2000)) - 1000
	}
	return int64(g.r.Next())
}

var floatTexts = []string{"0.0", "1.0", "1.5", "2.5", "0.1", "0.25", "3.14", "1e3", "1E3", "1e+3", "2.5e-3", ".5", "5.", "1_0.2_5", "0x1p-2", "0x1.8p1", "0X.8P0", "1e22", "1e-7", "123456789.125", "0.3", "1e308", "4.9e-324", "9007199254740993.0", "0x1p+10", "1.e2", "00.5", "1e0"}

func (g *exGen) floatLit() *Ex {
	if g.r.Chance(2) {
		// a float literal outside float64: an error when evaluated, never +Inf
		return &Ex{K: "lit", Op: "badfloat", Text: g.r.Pick([]string{"1e999", "1e400", "0x1p99999", "123456789e400"})}
	}
	t := floatTexts[g.r.Intn(len(floatTexts))]
	if g.r.Chance(20) {
		t = strconv.Itoa(g.r.Intn(1000)) + "." + strconv.Itoa(g.r.Intn(1000))
	}
	v, err := strconv.ParseFloat(t, 64)
	if err != nil {
		t, v = "1.5", 1.5
	}
	return &Ex{K: "lit", Op: "float", Text: t, Val: v}
}

var strVals = []string{"", "a", "ab", "hi", "x y", "é", "中", "<b>", "a\"b", "a'b", "a\\b", "\n", "\t", "{", "}", "${", "`", "\U0001F600", "0", "-1"}

func quoteDQ(s string) string {
	var sb strings.Builder
	sb.WriteByte('"')
	for _, r := range s {
		switch r {
		case '"':
			sb.WriteString(`\"`)
		case '\\':
			sb.WriteString(`\\`)
		case '\n':
			sb.WriteString(`\n`)
		case '\t':
			sb.WriteString(`\t`)
		case '\r':
			sb.WriteString(`\r`)
		default:
			if r < 0x20 || r == 0x7f {
				fmt.Fprintf(&sb, `\x%02x`, r)
			} else {
				sb.WriteRune(r)
			}
		}
	}
	sb.WriteByte('"')
	return sb.String()
}
func quoteSQ(s string) string {
	var sb strings.Builder
	sb.WriteByte('\'')
	for _, r := range s {
		switch r {
		case '\'':
			sb.WriteString(`\'`)
		case '\\':
			sb.WriteString(`\\`)
		case '\n':
			sb.WriteString(`\n`)
		case '\t':
			sb.WriteString(`\t`)
		case '\r':
			sb.WriteString(`\r`)
		default:
			if r < 0x20 || r == 0x7f {
				fmt.Fprintf(&sb, `\u%04x`, r)
			} else {
				sb.WriteRune(r)
			}
		}
	}
	sb.WriteByte('\'')
	return sb.String()
}

func (g *exGen) strLit(avoid string) *Ex {
	if avoid == "" && g.r.Chance(2) {
		// escapes the lexer accepts but Go's unquoting rejects (octal above 255, surrogate halves, beyond U+10FFFF):
		// an error when evaluated, never an empty or truncated string
		return &Ex{K: "lit", Op: "badstr", Text: g.r.Pick([]string{`"\400"`, `'\777'`, `"a\ud800"`, `'\udfff'`, `"\U00110000"`, `"\UFFFFFFFF"`})}
	}
	s := strVals[g.r.Intn(len(strVals))]
	var text string
	switch g.r.Intn(3) {
	case 0:
		if !strings.ContainsAny(s, "`\r") {
			text = "`" + s + "`"
		} else {
			text = quoteDQ(s)
		}
	case 1:
		text = quoteSQ(s)
	default:
		text = quoteDQ(s)
	}
	if avoid != "" && strings.Contains(text, avoid) {
		// cannot appear inside an attribute delimited by `avoid`
		if avoid == `"` {
			text = quoteSQ(strings.ReplaceAll(s, `"`, ""))
			s = strings.ReplaceAll(s, `"`, "")
		} else {
			text = quoteDQ(strings.ReplaceAll(s, `'`, ""))
			s = strings.ReplaceAll(s, `'`, "")
		}
	}
	return &Ex{K: "lit", Op: "str", Text: text, Val: s}
}

func (g *exGen) nameOf(kind string) *Ex {
	var cands []string
	for _, n := range g.env.Names {
		v := g.env.Vals[n]
		ok := false
		switch v.(type) {
		case int, int8, int16, int32, int64, uint, uint8, uint16, uint32, uint64:
			ok = kind == "i"
		case float32, float64:
			ok = kind == "f"
		case string:
			ok = kind == "s"
		case bool:
			ok = kind == "b"
		}
		if ok {
			cands = append(cands, n)
		}
	}
	if len(cands) == 0 {
		return nil
	}
	return &Ex{K: "name", Text: cands[g.r.Intn(len(cands))]}
}

func (g *exGen) paren(e *Ex) *Ex {
	if g.r.Chance(8) {
		return &Ex{K: "paren", A: e}
	}
	return e
}

// Gen builds an expression of the wanted kind: i(nt) f(loat) s(tring) b(ool) or ? (anything).
func (g *exGen) Gen(kind string, d int) *Ex {
	if kind == "?" {
		kind = g.r.Pick([]string{"i", "i", "f", "s", "b", "b"})
	}
	if g.r.Chance(4) { // ill-typed injection
		kind = g.r.Pick([]string{"i", "f", "s", "b"})
	}
	leaf := d <= 0 || g.r.Chance(25)
	if g.instr && leaf && g.r.Chance(35) {
		g.env.K++
		k := &Ex{K: "lit", Op: "int", Text: strconv.FormatInt(g.env.K, 10), Val: g.env.K}
		call := func(name string, args ...*Ex) *Ex { return &Ex{K: "call", A: &Ex{K: "name", Text: name}, Args: args} }
		if g.r.Chance(12) {
			switch g.r.Intn(6) {
			case 4:
				return call("two") // (int64, int64): the second result is not an error
			case 5:
				return call("none") // no result at all
			case 0:
				return call("fail")
			case 1:
				return call("boom")
			case 2:
				return &Ex{K: "name", Text: "zzz"}
			default:
				return call("failIf", &Ex{K: "name", Text: "true"})
			}
		}
		switch kind {
		case "i":
			return call("rec", k)
		case "b":
			return call("recb", k, &Ex{K: "name", Text: g.r.Pick([]string{"true", "false"})})
		case "s":
			return call("recs", k, g.strLit(""))
		}
	}
	switch kind {
	case "i":
		if leaf {
			if g.r.Chance(35) {
				if n := g.nameOf("i"); n != nil {
					return n
				}
			}
			return g.intLit(g.someInt())
		}
		switch c := g.r.Intn(100); {
		case c < 55:
			op := g.r.Pick([]string{"+", "-", "*", "/", "%", "<<", ">>", "&", "&^", "|", "^", "+", "-", "*"})
			b := g.Gen("i", d-1)
			if (op == "<<" || op == ">>") && g.r.Chance(80) {
				b = g.intLit(int64(g.r.Intn(70)))
			}
			return g.paren(&Ex{K: "bin", Op: op, A: g.Gen("i", d-1), B: b})
		case c < 70:
			return g.paren(&Ex{K: "un", Op: g.r.Pick([]string{"-", "+", "^"}), A: g.Gen("i", d-1)})
		case c < 85:
			return g.paren(&Ex{K: "cond", A: g.Gen("b", d-1), B: g.Gen("i", d-1), C: g.Gen("i", d-1)})
		default:
			return g.paren(&Ex{K: "bin", Op: g.r.Pick([]string{"+", "*"}), A: g.Gen("i", d-1), B: g.Gen("i", d-1)})
		}
	case "f":
		if g.r.Chance(3) {
			// the sign of zero: -x and +x are IEEE negation / identity, not 0 - x / 0 + x
			z := &Ex{K: "name", Text: g.r.Pick([]string{"z0", "nz"})}
			u := &Ex{K: "un", Op: g.r.Pick([]string{"-", "+", "-"}), A: z}
			if g.r.Bool() {
				return g.paren(&Ex{K: "bin", Op: "/", A: &Ex{K: "lit", Op: "float", Text: "1.0", Val: 1.0}, B: g.paren(u)})
			}
			return g.paren(u)
		}
		if leaf {
			if g.r.Chance(30) {
				if n := g.nameOf("f"); n != nil {
					return n
				}
			}
			return g.floatLit()
		}
		switch c := g.r.Intn(100); {
		case c < 60:
			op := g.r.Pick([]string{"+", "-", "*", "/"})
			a, b := g.Gen("f", d-1), g.Gen("f", d-1)
			if g.r.Chance(35) {
				if g.r.Bool() {
					a = g.Gen("i", d-1)
				} else {
					b = g.Gen("i", d-1)
				}
			}
			return g.paren(&Ex{K: "bin", Op: op, A: a, B: b})
		case c < 75:
			return g.paren(&Ex{K: "un", Op: g.r.Pick([]string{"-", "+"}), A: g.Gen("f", d-1)})
		default:
			return g.paren(&Ex{K: "cond", A: g.Gen("b", d-1), B: g.Gen("f", d-1), C: g.Gen("f", d-1)})
		}
	case "s":
		if leaf {
			if g.r.Chance(30) {
				if n := g.nameOf("s"); n != nil {
					return n
				}
			}
			return g.strLit("")
		}
		switch c := g.r.Intn(100); {
		case c < 60:
			a, b := g.Gen("s", d-1), g.Gen("s", d-1)
			if g.r.Chance(25) {
				b = g.Gen(g.r.Pick([]string{"i", "b", "f"}), d-1)
			}
			if g.r.Chance(20) { // a variable of some numeric Go kind, printed as it is held
				if n := g.nameOf(g.r.Pick([]string{"i", "i", "f"})); n != nil {
					b = n
				}
			}
			if g.r.Chance(30) {
				a, b = b, a
			}
			return g.paren(&Ex{K: "bin", Op: "+", A: a, B: b})
		default:
			return g.paren(&Ex{K: "cond", A: g.Gen("b", d-1), B: g.Gen("s", d-1), C: g.Gen("s", d-1)})
		}
	default: // bool
		if leaf {
			if g.r.Chance(50) {
				if n := g.nameOf("b"); n != nil {
					return n
				}
			}
			return &Ex{K: "name", Text: g.r.Pick([]string{"true", "false"})}
		}
		if g.r.Chance(4) {
			// the nil tests: isNil / notNil compare with the nil interface, isNull / notNull also see nil pointers, maps,
			// slices ... and fail on kinds that cannot be nil
			var cands []string
			for _, n := range []string{"np", "pt", "xs", "m", "emp", "nilv", "s", "i", "st", "p4"} {
				if _, ok := g.env.Vals[n]; ok {
					cands = append(cands, n)
				}
			}
			if len(cands) > 0 {
				fn := g.r.Pick([]string{"isNil", "notNil", "isNull", "notNull"})
				return &Ex{K: "call", A: &Ex{K: "name", Text: fn}, Args: []*Ex{{K: "name", Text: g.r.Pick(cands)}}}
			}
		}
		if g.r.Chance(6) {
			// an integer beyond 2^53 against the float it rounds to (or a neighbour): the integer operand is converted
			// to float64, so 9007199254740993 == 9007199254740992.0 holds
			ints := []int64{1<<53 + 1, 1<<53 + 1, 1<<53 + 3, -(1<<53 + 1), math.MaxInt64, math.MaxInt64 - 1, math.MinInt64 + 1, 1 << 53, 1<<60 + 1}
			flts := []string{"9007199254740992.0", "9007199254740994.0", "9007199254740996.0", "-9007199254740992.0", "9223372036854775807.0", "9.223372036854775808e18", "-9.223372036854775808e18", "1152921504606846976.0"}
			a := g.intLit(ints[g.r.Intn(len(ints))])
			t := flts[g.r.Intn(len(flts))]
			v, _ := strconv.ParseFloat(t, 64)
			var b *Ex = &Ex{K: "lit", Op: "float", Text: t, Val: v}
			if g.r.Chance(30) {
				b = &Ex{K: "bin", Op: "+", A: a, B: &Ex{K: "lit", Op: "float", Text: "0.0", Val: 0.0}}
			}
			if g.r.Bool() {
				a, b = b, a
			}
			return g.paren(&Ex{K: "bin", Op: g.r.Pick([]string{"==", "!=", "<", "<=", ">", ">=", "==", "!="}), A: a, B: b})
		}
		switch c := g.r.Intn(100); {
		case c < 40:
			k := g.r.Pick([]string{"i", "i", "f", "s"})
			a, b := g.Gen(k, d-1), g.Gen(k, d-1)
			if k != "s" && g.r.Chance(30) {
				b = g.Gen(g.r.Pick([]string{"i", "f"}), d-1)
			}
			return g.paren(&Ex{K: "bin", Op: g.r.Pick([]string{"==", "!=", "<", "<=", ">", ">="}), A: a, B: b})
		case c < 65:
			return g.paren(&Ex{K: "bin", Op: g.r.Pick([]string{"&&", "||"}), A: g.Gen("b", d-1), B: g.Gen("b", d-1)})
		case c < 80:
			return g.paren(&Ex{K: "un", Op: "!", A: g.Gen("b", d-1)})
		case c < 90:
			return g.paren(&Ex{K: "bin", Op: g.r.Pick([]string{"==", "!="}), A: g.Gen("b", d-1), B: g.Gen("b", d-1)})
		default:
			return g.paren(&Ex{K: "cond", A: g.Gen("b", d-1), B: g.Gen("b", d-1), C: g.Gen("b", d-1)})
		}
	}
}

func (g *exGen) sep() string {
	switch c := g.r.Intn(100); {
	case c < 70:
		return ""
	case c < 88:
		return " "
	case c < 92:
		return "\t"
	case c < 96:
		return " /* c */ "
	default:
		return "  "
	}
}

// sepAfterOp may also be a newline (legal after an operator / open bracket).
func (g *exGen) sepOp() string {
	if g.newlines && g.r.Chance(5) {
		return g.r.Pick([]string{"\n", " \n ", "// c\n", "/* a\nb */"})
	}
	return g.sep()
}

// Print with the parentheses Go's precedence table requires (all binary levels left-associative,
// unary above, ?: below and right-associative).
func (g *exGen) Print(e *Ex) string {
	wrap := func(c *Ex, need bool) string {
		s := g.Print(c)
		if need {
			return "(" + g.sep() + s + g.sep() + ")"
		}
		return s
	}
	switch e.K {
	case "lit":
		if e.Op == "nil" {
			return "nil"
		}
		return e.Text
	case "name":
		return e.Text
	case "paren":
		return "(" + g.sep() + g.Print(e.A) + g.sep() + ")"
	case "un":
		inner := wrap(e.A, e.A.level() < 7)
		// "- -x" / "+ +x" / "& &x" / "<- -x": keep operators apart
		sp := g.sep()
		if sp == "" && len(inner) > 0 && (inner[0] == e.Op[len(e.Op)-1] || (e.Op == "<" && inner[0] == '-') || (e.Op == "&" && inner[0] == '^')) {
			sp = " "
		}
		return e.Op + sp + inner
	case "bin":
		l := binLevel[e.Op]
		a := wrap(e.A, e.A.level() < l)
		b := wrap(e.B, e.B.level() <= l)
		s1, s2 := g.sep(), g.sepOp()
		// avoid gluing operator characters into a different token: a- -b, a+ +b, a& &b, a&^b vs a & ^b, a<-b
		if s2 == "" && len(b) > 0 && strings.ContainsRune("+-&^*<=|!/>", rune(b[0])) {
			s2 = " "
		}
		if s1 == "" && len(a) > 0 && strings.ContainsRune("+-&^*<=|!/>?.", rune(a[len(a)-1])) {
			s1 = " "
		}
		if e.Op == "/" && strings.HasPrefix(s2, "/") {
			s2 = " " + s2 // "//" would start a line comment
		}
		return a + s1 + e.Op + s2 + b
	case "cond":
		c := wrap(e.A, e.A.level() <= 1)
		m := g.Print(e.B)
		var r string
		if e.C.K == "cond" {
			if g.noRightTer || g.r.Chance(50) {
				r = "(" + g.Print(e.C) + ")"
			} else {
				r = g.Print(e.C) // right-associative reading: a ? b : (c ? d : e)
				g.rightTer = true
			}
		} else {
			r = g.Print(e.C)
		}
		q := "?"
		s2 := g.sepOp()
		if s2 == "" && len(m) > 0 && m[0] == '.' {
			s2 = " " // "?." is its own token
		}
		return c + g.sep() + q + s2 + m + g.sep() + ":" + g.sepOp() + r
	case "field":
		a := wrap(e.A, e.A.level() < 8)
		if e.Op == "safe" {
			return a + "?." + e.Text
		}
		if e.A.K == "lit" && (e.A.Op == "int") {
			return "(" + a + ")." + e.Text
		}
		return a + "." + e.Text
	case "index":
		return wrap(e.A, e.A.level() < 8) + "[" + g.sep() + g.Print(e.B) + g.sep() + "]"
	case "slice":
		s := wrap(e.A, e.A.level() < 8) + "["
		if e.B != nil {
			s += g.Print(e.B)
		}
		s += g.sep() + ":" + g.sep()
		if e.C != nil {
			s += g.Print(e.C)
		}
		return s + "]"
	case "slice3":
		s := wrap(e.A, e.A.level() < 8) + "["
		if e.B != nil {
			s += g.Print(e.B)
		}
		return s + ":" + g.Print(e.C) + ":" + g.Print(e.Args[0]) + "]"
	case "call":
		s := wrap(e.A, e.A.level() < 8) + "(" + g.sep()
		for i, a := range e.Args {
			if i > 0 {
				s += "," + g.sepOp()
			}
			s += g.Print(a)
		}
		if e.Ell {
			s += "..."
		}
		if e.Cm {
			s += ","
		}
		return s + g.sep() + ")"
	}
	return "?"
}

// ---------- reference evaluation (Go semantics, independent of tpl) ----------

type refErr struct{ why string }

func toI(v any) (int64, bool) {
	switch x := v.(type) {
	case int:
		return int64(x), true
	case int8:
		return int64(x), true
	case int16:
		return int64(x), true
	case int32:
		return int64(x), true
	case int64:
		return x, true
	case uint:
		return int64(x), true
	case uint8:
		return int64(x), true
	case uint16:
		return int64(x), true
	case uint32:
		return int64(x), true
	case uint64:
		return int64(x), true
	}
	return 0, false
}
func toF(v any) (float64, bool) {
	switch x := v.(type) {
	case float32:
		return float64(x), true
	case float64:
		return x, true
	}
	return 0, false
}

// RefEval returns (value, ok); ok=false means Go rejects the operation (an error is expected).
// Values are normalised to int64 / float64 / string / bool / nil.
func RefEval(e *Ex, env *Env) (any, bool) {
	switch e.K {
	case "lit":
		if e.Op == "badint" || e.Op == "badfloat" || e.Op == "badstr" {
			return nil, false
		}
		return e.Val, true
	case "name":
		switch e.Text {
		case "true":
			return true, true
		case "false":
			return false, true
		}
		v, ok := env.Vals[e.Text]
		if !ok {
			return env.fail("nosuch")
		}
		return v, true
	case "paren":
		return RefEval(e.A, env)
	case "call":
		var args []any
		for _, a := range e.Args {
			v, ok := RefEval(a, env)
			if !ok {
				return nil, false
			}
			args = append(args, v)
		}
		switch e.A.Text {
		case "isNil", "notNil", "isNull", "notNull":
			if len(args) != 1 {
				return env.fail("err")
			}
			a := args[0]
			if a == nil {
				// the call goes through reflect: an untyped nil cannot be passed as an argument (zero Value), so these
				// built-ins fail on a nil interface - observed behaviour of every function call, outside the properties
				return env.fail("err")
			}
			res, bad := false, false
			func() {
				defer func() {
					if recover() != nil {
						bad = true
					}
				}()
				switch e.A.Text {
				case "isNil":
					res = a == nil
				case "notNil":
					res = a != nil
				case "isNull":
					res = a == nil || reflect.ValueOf(a).IsNil()
				default:
					res = a != nil && !reflect.ValueOf(a).IsNil()
				}
			}()
			if bad {
				return env.fail("err")
			}
			return res, true
		case "one":
			return int64(1), true
		case "ident":
			return args[0], true
		case "fail":
			return env.fail("user1")
		case "boom":
			return env.fail("err")
		case "add":
			return args[0].(int64) + args[1].(int64), true
		case "rec":
			env.Log = append(env.Log, fmt.Sprintf("7:%d", args[0].(int64)))
			return args[0], true
		case "recb":
			env.Log = append(env.Log, fmt.Sprintf("8:%d", args[0].(int64)))
			return args[1], true
		case "recs":
			env.Log = append(env.Log, fmt.Sprintf("9:%d", args[0].(int64)))
			return args[1], true
		case "failIf":
			if args[0].(bool) {
				return env.fail("user2")
			}
			return "ok", true
		}
		return env.fail("err")
	case "un":
		a, ok := RefEval(e.A, env)
		if !ok {
			return nil, false
		}
		a = norm(a)
		switch e.Op {
		case "-":
			if i, ok := a.(int64); ok {
				return -i, true
			}
			if f, ok := a.(float64); ok {
				return -f, true
			}
		case "+":
			if i, ok := a.(int64); ok {
				return i, true
			}
			if f, ok := a.(float64); ok {
				return f, true
			}
		case "^":
			if i, ok := a.(int64); ok {
				return ^i, true
			}
		case "!":
			if b, ok := a.(bool); ok {
				return !b, true
			}
		}
		return nil, false
	case "cond":
		c, ok := RefEval(e.A, env)
		if !ok {
			return nil, false
		}
		b, isb := c.(bool)
		if !isb {
			return nil, false
		}
		if b {
			return RefEval(e.B, env)
		}
		return RefEval(e.C, env)
	case "bin":
		a, ok := RefEval(e.A, env)
		if !ok {
			return nil, false
		}
		if e.Op == "&&" || e.Op == "||" {
			ab, isb := a.(bool)
			if isb && ((e.Op == "&&" && !ab) || (e.Op == "||" && ab)) {
				return ab, true
			}
			b, ok := RefEval(e.B, env)
			if !ok {
				return nil, false
			}
			bb, isb2 := b.(bool)
			if !isb || !isb2 {
				return nil, false
			}
			if e.Op == "&&" {
				return ab && bb, true
			}
			return ab || bb, true
		}
		b, ok := RefEval(e.B, env)
		if !ok {
			return nil, false
		}
		if e.Op == "+" {
			// string + non-string concatenates what fmt prints for the operand AS IT IS HELD (float32(0.1) is "0.1",
			// a uint64 above MaxInt64 stays positive), not its int64 / float64 normalisation
			_, as := a.(string)
			_, bs := b.(string)
			if as != bs {
				return fmtV(a) + fmtV(b), true
			}
		}
		return refBin(e.Op, norm(a), norm(b))
	}
	return nil, false
}

func fmtV(v any) string { return fmt.Sprintf("%v", v) }

// norm: every integer kind as int64, every float kind as float64 (what the operators see)
func norm(v any) any {
	if i, ok := toI(v); ok {
		return i
	}
	if f, ok := toF(v); ok {
		return f
	}
	return v
}

func refBin(op string, a, b any) (any, bool) {
	ai, aisI := a.(int64)
	bi, bisI := b.(int64)
	af, aisF := a.(float64)
	bf, bisF := b.(float64)
	as, aisS := a.(string)
	bs, bisS := b.(string)
	num := (aisI || aisF) && (bisI || bisF)
	switch op {
	case "+":
		if aisS && bisS {
			return as + bs, true
		}
		if aisS || bisS {
			return fmtV(a) + fmtV(b), true
		}
		fallthrough
	case "-", "*", "/":
		if !num {
			return nil, false
		}
		if aisI && bisI {
			switch op {
			case "+":
				return ai + bi, true
			case "-":
				return ai - bi, true
			case "*":
				return ai * bi, true
			default:
				if bi == 0 {
					return nil, false
				}
				return ai / bi, true
			}
		}
		if aisI {
			af = float64(ai)
		}
		if bisI {
			bf = float64(bi)
		}
		switch op {
		case "+":
			return af + bf, true
		case "-":
			return af - bf, true
		case "*":
			return af * bf, true
		default:
			return af / bf, true
		}
	case "%", "<<", ">>", "&", "&^", "|", "^":
		if !aisI || !bisI {
			return nil, false
		}
		switch op {
		case "%":
			if bi == 0 {
				return nil, false
			}
			return ai % bi, true
		case "<<":
			if bi < 0 {
				return nil, false
			}
			if bi >= 64 {
				return int64(0), true
			}
			return ai << uint(bi), true
		case ">>":
			if bi < 0 {
				return nil, false
			}
			if bi >= 64 {
				if ai < 0 {
					return int64(-1), true
				}
				return int64(0), true
			}
			return ai >> uint(bi), true
		case "&":
			return ai & bi, true
		case "&^":
			return ai &^ bi, true
		case "|":
			return ai | bi, true
		default:
			return ai ^ bi, true
		}
	case "==", "!=":
		var eq bool
		switch {
		case num:
			if aisI && bisI {
				eq = ai == bi
			} else {
				if aisI {
					af = float64(ai)
				}
				if bisI {
					bf = float64(bi)
				}
				eq = af == bf
			}
		case aisS && bisS:
			eq = as == bs
		default:
			ab, ok1 := a.(bool)
			bb, ok2 := b.(bool)
			if ok1 && ok2 {
				eq = ab == bb
			} else if a == nil && b == nil {
				eq = true
			} else {
				eq = false // different kinds: unequal
			}
		}
		if op == "!=" {
			return !eq, true
		}
		return eq, true
	case "<", "<=", ">", ">=":
		var c int
		switch {
		case aisI && bisI:
			if ai < bi {
				c = -1
			} else if ai > bi {
				c = 1
			}
		case num:
			if aisI {
				af = float64(ai)
			}
			if bisI {
				bf = float64(bi)
			}
			if math.IsNaN(af) || math.IsNaN(bf) {
				return false, true
			}
			if af < bf {
				c = -1
			} else if af > bf {
				c = 1
			}
		case aisS && bisS:
			c = strings.Compare(as, bs)
		default:
			return nil, false
		}
		switch op {
		case "<":
			return c < 0, true
		case "<=":
			return c <= 0, true
		case ">":
			return c > 0, true
		default:
			return c >= 0, true
		}
	}
	return nil, false
}
