package main

import (
	"code.gopub.tech/tpl/exp"
	"context"
	"fmt"
	"strconv"
	"strings"
	"sync"
	"sync/atomic"
	"time"

	tpl "code.gopub.tech/tpl"
	"code.gopub.tech/tpl/html"
	"code.gopub.tech/tpl/types"
)

// race family (C15, C18): run under a binary built with -race. Prints one line per scenario:
// "OK <scenario> ..." or "FAIL <scenario> why"; the race detector itself reports data races on
// stderr and makes the process exit with status 66.

const raceTemplates = 12

func raceManager(r *Rng) (types.TemplateManager, []string, tmplCfg, [][2]string) {
	cfg := tmplCfg{ap: ":", tp: "t:", global: map[string]any{"g1": "G", "s2": "global-s2", "num": int64(99)}}
	var files [][2]string
	var names []string
	for i := 0; i < raceTemplates; i++ {
		g := &tmplGen{r: r, ap: cfg.ap, tp: cfg.tp}
		ts := g.genSet()
		name := fmt.Sprintf("t%d.html", i)
		src := printNodes(ts.MainTree)
		// fragments of this set go into the same file with unique names
		for f, tree := range ts.FragTree {
			src = strings.ReplaceAll(src, `"`+f+`"`, fmt.Sprintf(`"%s_%d"`, f, i))
			src = strings.ReplaceAll(src, `'`+f+`'`, fmt.Sprintf(`'%s_%d'`, f, i))
			body := printNodes(tree)
			for f2 := range ts.FragTree {
				body = strings.ReplaceAll(body, `"`+f2+`"`, fmt.Sprintf(`"%s_%d"`, f2, i))
				body = strings.ReplaceAll(body, `'`+f2+`'`, fmt.Sprintf(`'%s_%d'`, f2, i))
			}
			src += fmt.Sprintf(`<template :define="%s_%d">%s</template>`, f, i, body)
		}
		files = append(files, [2]string{name, src})
		names = append(names, name)
	}
	m, le := newManager(cfg, files)
	if le != "" {
		// drop the files that do not load (generated sets may contain load errors)
		var ok [][2]string
		names = nil
		for _, f := range files {
			if _, e := newManager(cfg, [][2]string{f}); e == "" {
				ok = append(ok, f)
				names = append(names, f[0])
			}
		}
		files = ok
		m, _ = newManager(cfg, files)
	}
	return m, names, cfg, files
}

func raceC15(seed uint64, rounds int) string {
	fails := 0
	execs := 0
	for round := 0; round < rounds; round++ {
		r := NewRng(seed, uint64(round))
		m, names, _, _ := raceManager(r)
		if m == nil || len(names) == 0 {
			continue
		}
		goroutines := []int{2, 3, 8, 16, 64}[round%5]
		// per goroutine: list of (template, data); expected = serial result on a FRESH manager-independent run
		type job struct {
			name string
			run  tmplRun
		}
		jobs := make([][]job, goroutines)
		for g := range jobs {
			k := 1 + r.Intn(4)
			for j := 0; j < k; j++ {
				name := names[r.Intn(len(names))]
				if round%2 == 0 {
					name = names[0] // everybody races on the first-ever execution of the same template
				}
				jobs[g] = append(jobs[g], job{name, tmplRun{data: genData(r), budget: -1}})
			}
		}
		results := make([][]runResult, goroutines)
		var wg sync.WaitGroup
		start := make(chan struct{})
		shared := round%3 == 0 // one template object per goroutine, reused across its jobs
		for g := 0; g < goroutines; g++ {
			wg.Add(1)
			go func(g int) {
				defer wg.Done()
				<-start
				objs := map[string]types.Template{}
				for _, jb := range jobs[g] {
					var t types.Template
					if shared {
						t = objs[jb.name]
					}
					if t == nil {
						t, _ = m.GetTemplate(jb.name)
						objs[jb.name] = t
					}
					results[g] = append(results[g], execOne(t, jb.run))
				}
			}(g)
		}
		close(start)
		wg.Wait()
		// serial reference on the same manager afterwards
		for g := 0; g < goroutines; g++ {
			for j, jb := range jobs[g] {
				t, _ := m.GetTemplate(jb.name)
				want := execOne(t, jb.run)
				execs++
				if want.line() != results[g][j].line() {
					fails++
					if fails <= 3 {
						fmt.Printf("FAIL C15 round %d goroutine %d job %d template %s: concurrent %s, alone %s\n", round, g, j, jb.name, results[g][j].line(), want.line())
					}
				}
			}
		}
	}
	// deep inclusion chains held open by all goroutines at the same time: the per-execution state (inclusion depth,
	// condition tables) must not be shared between executions in flight
	for _, sc := range [][2]int{{2, 100}, {8, 30}, {16, 12}, {64, 5}} {
		G, D := sc[0], sc[1]
		var sb strings.Builder
		sb.WriteString(`<div :insert="d1"></div>`)
		for k := 1; k <= D; k++ {
			if k < D {
				fmt.Fprintf(&sb, `<template :define="d%d"><i :if="${c}" :insert="d%d"></i><i :else>no</i></template>`, k, k+1)
			} else {
				fmt.Fprintf(&sb, `<template :define="d%d"><b :text="${park()}"></b></template>`, k)
			}
		}
		cfg := tmplCfg{ap: ":", tp: "t:", global: map[string]any{}}
		m, le := newManager(cfg, [][2]string{{"deep.html", sb.String()}})
		if le != "" {
			return "FAIL C15 deep-inclusion scenario does not load: " + le
		}
		var mu sync.Mutex
		arrived := 0
		all := make(chan struct{})
		park := func() string {
			mu.Lock()
			arrived++
			if arrived == G {
				close(all)
			}
			mu.Unlock()
			select {
			case <-all:
			case <-time.After(5 * time.Second):
			}
			return "p"
		}
		t0, _ := m.GetTemplate("deep.html")
		want := execOne(t0, tmplRun{data: map[string]any{"c": true, "park": func() string { return "p" }}, budget: -1})
		res := make([]runResult, G)
		var wg sync.WaitGroup
		for g := 0; g < G; g++ {
			wg.Add(1)
			go func(g int) {
				defer wg.Done()
				t, _ := m.GetTemplate("deep.html")
				res[g] = execOne(t, tmplRun{data: map[string]any{"c": true, "park": park}, budget: -1})
			}(g)
		}
		wg.Wait()
		for g := 0; g < G; g++ {
			execs++
			if res[g].line() != want.line() {
				fails++
				if fails <= 3 {
					fmt.Printf("FAIL C15 %d goroutines each %d inclusions deep at the same time: goroutine %d gives %.200s, alone %.200s\n", G, D, g, res[g].line(), want.line())
				}
			}
		}
	}
	// evaluator-heavy templates with DIFFERENT literals per template: every path of the expression evaluator that could
	// keep process-wide scratch state (literal rewriting in all three quoting styles with escapes, concatenation,
	// number formatting, conversions, method calls, slicing, comparisons) runs in many goroutines at once
	{
		const K, G, N = 8, 16, 150
		var files [][2]string
		for k := 0; k < K; k++ {
			body := fmt.Sprintf(`<p :text="${'T%[1]d it\'s q%[1]d \\ ' + s1}" :title='${"dq%[1]d\t\"x\" " + name}' :data-r="${`+"`raw%[1]d\\n`"+` + string(num + %[1]d)}">x</p>`+
				`<i :text="${p4.Next() + %[1]d}" :class="c%[1]d ${st.Name} ${st.Tags[%[2]d]}"></i>`+
				`<b :if="${num + %[1]d > 3 && 'k%[1]d\'' != name}" :text="${1.5 * %[1]d + 0.25}">y</b><b :else :text="${'else%[1]d\\'}"></b>`+
				`<u :range="i, x : xs" :text="${string(i) + '\'%[1]d\'' + string(x)}"></u>`, k, k%2)
			// range objects are compiled while the template is EXECUTED: one followed by a multi-line comment, and (every
			// other template, last, so that everything before it is rendered) one with trailing text, which fails the render
			body += fmt.Sprintf("<s :range=\"i, x : xs /* k%d \n more */\" :text=\"${string(i) + 'r%d'}\"></s>", k, k)
			if k%2 == 1 {
				body += fmt.Sprintf(`<s :range="i, x : xs extra%d + 1 ( ]"></s>`, k)
			}
			// a self-closed raw-text element at the top level: its close tag is a node of its own (built by another path
			// of the scanner than ordinary tags) and is executed by every goroutine
			body += fmt.Sprintf(`<script src="/s%d.js" /></script><title :text="${name}" /></title>`, k)
			// names of the manager's GLOBAL scope, which is one object shared by every execution: here a scope the caller
			// combined from two, read through both halves
			body += fmt.Sprintf(`<em :text="${ga + gb%d + gc + gd%d}"></em>`, k%3, k%2)
			files = append(files, [2]string{fmt.Sprintf("e%d.html", k), body})
		}
		cfg := tmplCfg{ap: ":", tp: "t:", global: map[string]any{},
			globalScope: exp.Combine(exp.NewScope(map[string]any{"ga": "A"}),
				exp.Combine(exp.NewScope(map[string]any{"gb0": "B0", "gb1": "B1", "gb2": "B2"}), exp.NewScope(map[string]any{"gc": "C", "gd0": "D0", "gd1": "D1"})))}
		m, le := newManager(cfg, files)
		if le != "" {
			return "FAIL C15 evaluator scenario does not load: " + le
		}
		r := NewRng(seed, 7777)
		datas := make([]map[string]any, G)
		for g := range datas {
			datas[g] = genData(r)
		}
		res := make([][]runResult, G)
		var wg sync.WaitGroup
		start := make(chan struct{})
		for g := 0; g < G; g++ {
			wg.Add(1)
			go func(g int) {
				defer wg.Done()
				<-start
				for j := 0; j < N; j++ {
					t, _ := m.GetTemplate(fmt.Sprintf("e%d.html", (g+j)%K))
					res[g] = append(res[g], execOne(t, tmplRun{data: datas[g], budget: -1}))
				}
			}(g)
		}
		close(start)
		wg.Wait()
		for g := 0; g < G; g++ {
			for j := 0; j < N; j++ {
				t, _ := m.GetTemplate(fmt.Sprintf("e%d.html", (g+j)%K))
				want := execOne(t, tmplRun{data: datas[g], budget: -1})
				execs++
				if want.line() != res[g][j].line() {
					fails++
					if fails <= 3 {
						fmt.Printf("FAIL C15 evaluator scenario goroutine %d execution %d template e%d.html: concurrent %.300s, alone %.300s\n", g, j, (g+j)%K, res[g][j].line(), want.line())
					}
				}
			}
		}
	}
	if fails > 0 {
		return fmt.Sprintf("FAIL C15 %d of %d concurrent executions differ from the serial result", fails, execs)
	}
	return fmt.Sprintf("OK C15 rounds=%d executions=%d", rounds, execs)
}

func raceC18(seed uint64, rounds int) string {
	fails := 0
	reqs := 0
	for round := 0; round < rounds; round++ {
		r := NewRng(seed, uint64(round))
		hot := round%2 == 1
		var mu sync.Mutex
		calls := 0
		builder := func(ctx context.Context) (types.TemplateManager, error) {
			mu.Lock()
			calls++
			c := calls
			mu.Unlock()
			if c%5 == 3 || (c == 1 && round%3 == 2) { // every third round the FIRST build fails: the renderer starts without a set
				return nil, errBuild
			}
			m := html.NewTplManager()
			if err := m.Add("t", strings.NewReader(fmt.Sprintf("<p>v%d</p>", c))); err != nil {
				return nil, err
			}
			return m, nil
		}
		rd, err := tpl.NewHTMLRender(builder, tpl.WithHotReload(hot))
		if rd == nil {
			continue
		}
		// a renderer whose first build failed is kept: the first successful Reload then races the requests
		// lastDone: the newest build whose Reload (or constructor) has RETURNED successfully; builds are numbered by
		// the builder's call count, so with the single reloading goroutine the numbers grow with real time.
		var lastDone atomic.Int64
		if err == nil {
			lastDone.Store(1)
		}
		callCount := func() int64 { mu.Lock(); defer mu.Unlock(); return int64(calls) }
		var wg sync.WaitGroup
		n := 4 + r.Intn(12)
		bad := make([]string, n)
		for g := 0; g < n; g++ {
			wg.Add(1)
			go func(g int) {
				defer wg.Done()
				ctx := context.Background()
				for k := 0; k < 20; k++ {
					if g == 0 {
						before := callCount()
						if rd.Reload(ctx) == nil && !hot {
							lastDone.Store(before + 1) // without hot reload this goroutine is the only caller of the builder
						}
						continue
					}
					if k%4 == 3 {
						rd.GetTemplate(ctx, "t")
					}
					lo, cb := lastDone.Load(), callCount()
					w := &respWriter{h: map[string][]string{}}
					e := rd.Instance(ctx, "t", nil).Render(w)
					out := w.sb.String()
					ca := callCount()
					if e != nil {
						if out != "" {
							bad[g] = "output written although the request failed"
						}
						if !hot && lo > 0 {
							bad[g] = fmt.Sprintf("request failed (%v) although build %d had been published before it started", e, lo)
						}
						continue
					}
					if !strings.HasPrefix(out, "<p>v") || !strings.HasSuffix(out, "</p>") {
						bad[g] = "torn output " + out
						continue
					}
					v, _ := strconv.ParseInt(out[4:len(out)-4], 10, 64)
					// linearizability (Proofs/ReloadConcProps.v): a request is served from a build that is at least as new
					// as every Reload that returned before the request started, and that was started before it ended;
					// with hot reload from a build made during the request
					if !hot && (v < lo || v > ca) {
						bad[g] = fmt.Sprintf("served from build %d; build %d was published before the request started, %d builds had been started when it ended", v, lo, ca)
					}
					if hot && (v <= cb || v > ca) {
						bad[g] = fmt.Sprintf("hot reload: served from build %d, not from a build made during the request (calls %d..%d)", v, cb+1, ca)
					}
				}
			}(g)
		}
		wg.Wait()
		reqs += (n - 1) * 20
		for _, b := range bad {
			if b != "" {
				fails++
				if fails <= 3 {
					fmt.Printf("FAIL C18 round %d: %s\n", round, b)
				}
			}
		}
	}
	if fails > 0 {
		return fmt.Sprintf("FAIL C18 %d requests misbehaved", fails)
	}
	return fmt.Sprintf("OK C18 rounds=%d requests=%d", rounds, reqs)
}
