package main

import (
	"bufio"
	"code.gopub.tech/tpl/exp"
	"errors"
	"fmt"
	"math"
	"os"
	"path/filepath"
	"reflect"
	"strconv"
	"strings"
	"unicode"

	"code.gopub.tech/tpl/html"
)

func must(err error) {
	if err != nil {
		fmt.Fprintln(os.Stderr, "harness:", err)
		os.Exit(2)
	}
}

type outFiles struct {
	cases, impl, orc *bufio.Writer
	fc, fi, fo       *os.File
	stats            map[string]int
	dir              string
}

func openOut(dir string) *outFiles {
	must(os.MkdirAll(dir, 0o755))
	fc, err := os.Create(filepath.Join(dir, "cases.txt"))
	must(err)
	fi, err := os.Create(filepath.Join(dir, "impl.txt"))
	must(err)
	fo, err := os.Create(filepath.Join(dir, "oracle.txt"))
	must(err)
	startWatchdog(dir)
	return &outFiles{bufio.NewWriterSize(fc, 1<<20), bufio.NewWriterSize(fi, 1<<20), bufio.NewWriterSize(fo, 1<<16), fc, fi, fo, map[string]int{}, dir}
}

// put writes one case: its input line, the implementation's canonical output, and the oracle
// verdicts ("C17=why;;C01=why", empty when every oracle passed).
func (o *outFiles) put(c, i string, verdicts ...string) {
	o.cases.WriteString(c)
	o.cases.WriteByte('\n')
	o.impl.WriteString(i)
	o.impl.WriteByte('\n')
	var vs []string
	for _, v := range verdicts {
		if v != "" {
			vs = append(vs, strings.ReplaceAll(strings.ReplaceAll(v, "\n", "\\n"), ";;", "; ;"))
		}
	}
	o.orc.WriteString(strings.Join(vs, ";;"))
	o.orc.WriteByte('\n')
}
func (o *outFiles) count(k string) { o.stats[k]++ }
func (o *outFiles) close() {
	o.cases.Flush()
	o.impl.Flush()
	o.orc.Flush()
	o.fc.Close()
	o.fi.Close()
	o.fo.Close()
	f, err := os.Create(filepath.Join(o.dir, "stats.txt"))
	must(err)
	for k, v := range o.stats {
		fmt.Fprintf(f, "%s %d\n", k, v)
	}
	f.Close()
}
func verdict(pid, why string) string {
	if why == "" {
		return ""
	}
	return pid + "=" + why
}

func dumpUnicode(path string) {
	f, err := os.Create(path)
	must(err)
	w := bufio.NewWriter(f)
	w.WriteString("space")
	for r := rune(0); r <= unicode.MaxRune; r++ {
		if unicode.IsSpace(r) {
			fmt.Fprintf(w, " %d", r)
		}
	}
	w.WriteString("\n")
	for r := rune(0); r <= unicode.MaxRune; r++ {
		if l := unicode.ToLower(r); l != r {
			fmt.Fprintf(w, "lower %d %d\n", r, l)
		}
	}
	for r := rune(0); r <= unicode.MaxRune; r++ {
		if l := unicode.ToUpper(r); l != r {
			fmt.Fprintf(w, "upper %d %d\n", r, l)
		}
	}
	// identifier classes of the expression lexer: \p{L} and \p{Nd}
	w.WriteString("letter")
	for r := rune(0); r <= unicode.MaxRune; r++ {
		if unicode.IsLetter(r) {
			fmt.Fprintf(w, " %d", r)
		}
	}
	w.WriteString("\ndigit")
	for r := rune(0); r <= unicode.MaxRune; r++ {
		if unicode.Is(unicode.Nd, r) {
			fmt.Fprintf(w, " %d", r)
		}
	}
	w.WriteString("\n")
	w.Flush()
	f.Close()
}

func scanErrClass(err error) string {
	msg := err.Error()
	switch {
	case strings.Contains(msg, "compile attr failed"):
		return "compile"
	case strings.Contains(msg, "scan attr failed"):
		return "dup"
	case strings.Contains(msg, "read comment failed"):
		return "comment"
	case errors.Is(err, html.ErrUnexpectedEOF):
		return "eof"
	}
	return "other:" + msg
}

var prefixes = []string{":", ":", ":", "v-", "@", "th:", "data-t-", "ui:", "wire:", "attr-"} // some share letters with directive names (a cutset-style trim would eat them)
var tagSets = [][]string{nil, nil, nil, {}, {"Script", "pre"}, {"p"}, {"title", "STYLE", "xmp"}}
var voidSets = [][]string{nil, nil, nil, {}, {"BR", "p"}, {"!doctype", "img", "x-y"}}

func defTags(t []string) []string {
	if t == nil {
		return html.GetDefaultTextTags()
	}
	return t
}
func defVoids(t []string) []string {
	if t == nil {
		return html.GetDefaultVoidElements()
	}
	return t
}

func implScan(prefix string, tags []string, src string) (out string, toks []*html.Token) {
	defer func() {
		if x := recover(); x != nil {
			out = fmt.Sprintf("PANIC %v", x)
			toks = nil
		}
	}()
	sc := html.NewHtmlScanner(strings.NewReader(src)).SetAttrPrefix(prefix)
	if tags != nil {
		sc.SetTextTags(tags)
		if len(tags) == 0 {
			// SetTextTags(nil) keeps the default; an empty non-nil slice clears it
			sc.SetTextTags([]string{})
		}
	}
	toks, err := sc.GetAllTokens()
	if err != nil {
		return "ERR " + scanErrClass(err), nil
	}
	var sb strings.Builder
	sb.WriteString("OK ")
	for _, t := range toks {
		pTok(&sb, t)
	}
	return sb.String(), toks
}

func implCode(line, col int, src string) (out string) {
	defer func() {
		if x := recover(); x != nil {
			out = fmt.Sprintf("PANIC %v", x)
		}
	}()
	toks, err := html.NewCodeScanner(html.Pos{Line: line, Column: col}, src).GetAllTokens()
	if err != nil {
		msg := err.Error()
		switch {
		case strings.Contains(msg, "invalid code"):
			return "ERR compile"
		case strings.Contains(msg, "expected quote") && !errors.Is(err, html.ErrUnexpectedEOF):
			return "ERR quote"
		case errors.Is(err, html.ErrUnexpectedEOF):
			return "ERR eof"
		}
		return "ERR other:" + msg
	}
	var sb strings.Builder
	sb.WriteString("OK ")
	for _, c := range toks {
		pCtok(&sb, c)
	}
	if why := oracleCodeTokens(html.Pos{Line: line, Column: col}, src, toks); why != "" {
		// trailing input after the closing quote is not tokenised: only a prefix is covered then
		return sb.String() + " #" + why
	}
	return sb.String()
}

func implTree(prefix string, tags, voids []string, src string) (out string) {
	defer func() {
		if x := recover(); x != nil {
			out = fmt.Sprintf("PANIC %v", x)
		}
	}()
	sc := html.NewHtmlScanner(strings.NewReader(src)).SetAttrPrefix(prefix)
	if tags != nil {
		sc.SetTextTags(tags)
	}
	toks, err := sc.GetAllTokens()
	if err != nil {
		return "ERR " + scanErrClass(err)
	}
	p := html.NewParser()
	p.VoidElements = defVoids(voids)
	tree, err := p.ParseTokens(toks)
	if err != nil {
		return "ERR parse:" + err.Error()
	}
	ids := map[*html.Token]int{}
	for i, t := range toks {
		ids[t] = i + 1
	}
	var sb strings.Builder
	sb.WriteString("OK ")
	pNode(&sb, tree, ids)
	return sb.String()
}

func panicOnly(res string) string {
	if strings.HasPrefix(res, "PANIC") {
		return res
	}
	return ""
}

func main() {
	if len(os.Args) < 2 {
		fmt.Fprintln(os.Stderr, "usage: harness <cmd> ...")
		os.Exit(2)
	}
	switch os.Args[1] {
	case "unicode":
		dumpUnicode(os.Args[2])
	case "scan", "tree": // <seed> <n> <outdir> [plain]
		seed, _ := strconv.ParseUint(os.Args[2], 10, 64)
		n, _ := strconv.Atoi(os.Args[3])
		out := openOut(os.Args[4])
		plain := len(os.Args) > 5 && os.Args[5] == "plain"
		for i := 0; i < n; i++ {
			r := NewRng(seed, uint64(i))
			prefix := r.Pick(prefixes)
			tags := tagSets[r.Intn(len(tagSets))]
			voids := voidSets[r.Intn(len(voidSets))]
			o := DocOpts{Prefix: prefix, Directives: !plain && r.Chance(50), Hidden: !plain && r.Chance(30), Malformed: r.Chance(20)}
			src := GenDoc(r, o)
			if o.Malformed {
				out.count("malformed")
			}
			if o.Directives {
				out.count("with-directives")
			}
			if os.Args[1] == "scan" {
				res, toks := implScan(prefix, tags, src)
				var c17, c01 string
				if strings.HasPrefix(res, "PANIC") {
					c17, c01 = res, res
				} else if toks != nil || strings.HasPrefix(res, "OK") {
					c17, c01 = oracleScan(src, toks)
				}
				// the MANAGER must scan with its own configuration: loading the same source through a manager configured
				// with this prefix and these raw-text names succeeds exactly when the scanner accepts it (a directive
				// value is rejected at load under every configured prefix)
				c10 := ""
				if !strings.HasPrefix(res, "PANIC") {
					func() {
						defer func() {
							if x := recover(); x != nil {
								c10 = fmt.Sprintf("manager.Add panicked: %v", x)
							}
						}()
						m := html.NewTplManager().SetAttrPrefix(prefix)
						if tags != nil {
							m.SetTextTags(tags)
						}
						err := m.Add("x.html", strings.NewReader(src))
						scanOK := strings.HasPrefix(res, "OK")
						if scanOK && err != nil && strings.Contains(err.Error(), "failed to read html tokens") {
							c10 = fmt.Sprintf("the scanner accepts the source with prefix %q but the manager's load rejects its tokens: %v", prefix, err)
						} else if !scanOK && err == nil {
							c10 = fmt.Sprintf("the scanner rejects the source with prefix %q (%s) but the manager loads it", prefix, res)
						}
					}()
				}
				out.put(fmt.Sprintf("scan %s %s %s", encStr(prefix), encStrs(defTags(tags)), encStr(src)),
					res, verdict("C17", c17), verdict("C01", c01), verdict("C10", c10), verdict("C08", panicOnly(res)))
			} else {
				out.put(fmt.Sprintf("tree %s %s %s %s", encStr(prefix), encStrs(defTags(tags)), encStrs(defVoids(voids)), encStr(src)),
					implTree(prefix, tags, voids, src))
			}
		}
		out.close()
	case "parse": // <seed> <n> <outdir>
		seed, _ := strconv.ParseUint(os.Args[2], 10, 64)
		n, _ := strconv.Atoi(os.Args[3])
		out := openOut(os.Args[4])
		for i := 0; i < n; i++ {
			r := NewRng(seed, uint64(i))
			src, tag := genParseCase(r)
			out.count(tag)
			res := implParse(src)
			c10 := ""
			if tag == "wellformed" || tag == "padded" {
				if !strings.HasPrefix(res, "OK") {
					c10 = "well-formed expression rejected: " + res
				}
			}
			if tag == "opencomment" && !strings.HasPrefix(res, "ERR") {
				c10 = "an expression with an unterminated /* comment is accepted: " + res
			}
			out.put("parse "+encStr(src), res, verdict("C10", c10), verdict("C08", panicOnly(res)))
		}
		out.close()
	case "eval": // <seed> <n> <outdir>
		seed, _ := strconv.ParseUint(os.Args[2], 10, 64)
		n, _ := strconv.Atoi(os.Args[3])
		out := openOut(os.Args[4])
		meth := encMethods()
		for i := 0; i < n; i++ {
			r := NewRng(seed, uint64(i))
			env := defaultEnv()
			dataEnv(env)
			var src, want, tag string
			var root any
			hasRoot := false
			switch c := r.Intn(100); {
			case c < 6: // the WHOLE data is a Go value that is not a map: its fields and methods are the top-level names (C06, C13)
				hasRoot = true
				root = []any{&T4{N: 3}, T4{N: 5}, &T1{Name: "Bob", Age: 41, Tags: []string{"x"}}, T1{Name: "Ann", Age: 30, Inner: &T2{X: 4}},
					(*T1)(nil), T3{T2{X: 6}, 7}, &T3{T2{X: 8}, 9}, &T2{X: 2}, map[string]any{"Name": "m", "len": int64(5)}, nil,
					[2]int{7, 8}, []any{int64(1), "a"}, []int{}, int64(5), "str", true, 3.5, map[string]any(nil), []int(nil)}[r.Intn(19)]
				name := r.Pick([]string{"N", "Next", "Self", "Name", "Age", "Tags", "Inner", "Hello", "PtrM", "GetX", "X", "Y", "hidden", "nosuch", "len", "true", "string", "M", "Load", "Try"})
				if root != nil && r.Chance(70) { // mostly a name the value's type knows: its fields, its methods and those of its pointer type
					var own []string
					rt := reflect.TypeOf(root)
					for k := 0; k < rt.NumMethod(); k++ {
						own = append(own, rt.Method(k).Name)
					}
					if rt.Kind() == reflect.Pointer {
						rt = rt.Elem()
					} else {
						for k := 0; k < reflect.PointerTo(rt).NumMethod(); k++ {
							own = append(own, reflect.PointerTo(rt).Method(k).Name)
						}
					}
					if rt.Kind() == reflect.Struct {
						for k := 0; k < rt.NumField(); k++ {
							if f := rt.Field(k); !f.Anonymous { // the encoding of values flattens embedded structs: their own name is not modelled
								own = append(own, f.Name)
							} else if f.Type.Kind() == reflect.Struct {
								for q := 0; q < f.Type.NumField(); q++ {
									own = append(own, f.Type.Field(q).Name)
								}
							}
						}
					}
					if len(own) > 0 {
						name = own[r.Intn(len(own))]
					}
				}
				src = name
				tag = "root"
				v, class := nativeField(root, name)
				isFunc := class == "" && v != nil && reflect.ValueOf(v).Kind() == reflect.Func
				switch r.Intn(4) {
				case 0:
					if isFunc && reflect.TypeOf(v).NumIn() == 0 {
						src = name + "()"
						func() {
							defer func() { // a value method called through a nil pointer panics in Go: the evaluator must answer with an error
								if recover() != nil {
									class = "err"
								}
							}()
							out := reflect.ValueOf(v).Call(nil)
							v = out[0].Interface()
							if len(out) == 2 && !out[1].IsNil() {
								class = errClass(out[1].Interface().(error))
							}
						}()
					}
				case 1:
					if name == "Inner" && class == "" && v != nil && !reflect.ValueOf(v).IsNil() {
						src = "Inner.X"
						v = v.(*T2).X
					} else if name == "Tags" && class == "" {
						src = "len(Tags)"
						v = reflect.ValueOf(v).Len() // len() answers a Go int
					}
				}
				switch {
				case class == "":
					want = "OK " + encResult(newValEnc(), v) + " LOG "
				case class == "nosuch" && name == "true":
					want = "OK " + encResult(newValEnc(), true) + " LOG "
				case class == "nosuch" && (name == "len" || name == "string"):
					want = "OK F LOG "
				case class == "nosuch":
					want = "ERR nosuch LOG "
				case src != name:
					want = "ERR " + class + " LOG "
				default:
					want = "" // an unexported field: the correspondence with the model decides
				}
			case (c == 6 || c == 8 || c == 9) && r.Chance(85): // a CHAIN of three scopes, the middle one any Go value: fall through only when ABSENT (C06)
				inner := map[string]any{}
				if r.Chance(30) {
					inner[r.Pick([]string{"N", "Name", "hidden", "x", "len"})] = "inner"
				}
				middle := []any{&T4{N: 3}, T1{Name: "Ann", Age: 30, Inner: &T2{X: 4}}, &T1{Name: "Bob"}, (*T1)(nil), T3{T2{X: 6}, 7}, []any{int64(1), "a"}, [2]int{7, 8},
					map[string]any{"Name": "m"}, nil, int64(5), "str", map[string]any(nil)}[r.Intn(12)]
				outer := map[string]any{"N": "outer", "Name": "outer", "hidden": "outer", "x": "outer", "Next": "outer", "0": "outer", "Age": "outer", "PtrM": "outer"}
				if r.Chance(30) {
					outer["len"] = "outer"
				}
				name := r.Pick([]string{"N", "Name", "hidden", "x", "len", "Next", "Age", "PtrM", "nosuch", "true", "Tags", "X"})
				src, tag = name, "chain"
				// native expectation, scope by scope
				want = ""
				if v, ok := inner[name]; ok {
					want = "OK " + encResult(newValEnc(), v) + " LOG "
				} else {
					v, class := nativeField(middle, name)
					switch {
					case class == "":
						want = "OK " + encResult(newValEnc(), v) + " LOG "
					case class == "err":
						want = "ERR err LOG " // the lookup FAILED in the middle scope: no fall-through to the outer one
					default:
						if o, ok := outer[name]; ok {
							want = "OK " + encResult(newValEnc(), o) + " LOG "
						} else if name == "true" {
							want = "OK " + encResult(newValEnc(), true) + " LOG "
						} else if name == "len" {
							want = "OK F LOG "
						} else {
							want = "ERR nosuch LOG "
						}
					}
				}
				res := ""
				func() {
					defer func() {
						if x := recover(); x != nil {
							res = fmt.Sprintf("PANIC %v", x)
						}
					}()
					tree, err := exp.ParseCode(src)
					if err != nil {
						res = "ERR parse"
						return
					}
					v, err := exp.Evaluate(exp.NewPos(1, 1), tree, exp.Combine(exp.Combine(exp.NewScope(inner), exp.NewScope(middle)), exp.NewScope(outer)))
					if err != nil {
						res = "ERR " + errClass(err) + " LOG "
					} else {
						res = "OK " + encResult(newValEnc(), v) + " LOG "
					}
				}()
				why := ""
				if res != want {
					why = fmt.Sprintf("chain of scopes, name %q: implementation %s, expected %s", name, res, want)
				}
				out.count(tag)
				ve := newValEnc()
				out.put(fmt.Sprintf("evalc %s %s %s %s %s", meth, ve.enc(inner), ve.enc(middle), ve.enc(outer), encStr(src)), res,
					verdict("C06", why), verdict("C08", panicOnly(res)))
				continue
			case c < 8: // call forms the generators above do not write: variadic calls, results that are not (value[, error])
				misc := [][2]string{
					{"cat(st.Tags...)", "OK s97.98 LOG "}, {"cat('x', st.Tags...)", "OK s120.97.98 LOG "}, {"cat(emp...)", "OK s LOG "},
					{"cat(s...)", "ERR err LOG "}, {"cat(ns...)", "ERR err LOG "}, {"cat(i...)", "ERR err LOG "}, {"cat(nilv...)", "ERR err LOG "},
					{"two()", "ERR err LOG "}, {"none()", "ERR err LOG "}, {"two() + 1", "ERR err LOG "}, {"cat(two())", "ERR err LOG "},
					{"one(1)", "ERR err LOG "}, {"add(1)", "ERR err LOG "}, {"add(1, 's')", "ERR err LOG "}, {"cat('a', 1)", "ERR err LOG "},
					{"string(s)", "OK s104.105 LOG "}, {"cat(string(s), s)", "OK s104.105.104.105 LOG "}, {"s()", "ERR err LOG "}, {"st.Name()", "ERR err LOG "},
					{"*np", "ERR err LOG "}, {"(*np).Name", "ERR err LOG "}, {"*np == nil", "ERR err LOG "}, {"(*pt).Name", "OK s66.111.98 LOG "}, {"*nilv", "ERR err LOG "},
					{"ident(fail)()", "ERR user1 LOG "}, {"ident(one)()", "OK i4:1 LOG "}, {"(one)()", "OK i4:1 LOG "},
				}
				k := r.Intn(len(misc))
				src, want, tag = misc[k][0], misc[k][1], "misc"
			case c < 45: // operators (C09, C11)
				g := &exGen{r: r, env: env, newlines: r.Chance(20)}
				e := g.Gen("?", 1+r.Intn(6))
				src = g.Print(e)
				tag = "ops"
				if g.rightTer {
					tag = "ops-right-ternary"
				}
				v, ok := RefEval(e, env)
				want = refLine(v, ok, env)
			case c < 70: // failure propagation and short circuit (C12)
				g := &exGen{r: r, env: env, instr: true, noRightTer: true}
				e := g.Gen("?", 1+r.Intn(5))
				src = g.Print(e)
				tag = "instr"
				if g.rightTer {
					tag = "instr-right-ternary"
				}
				v, ok := RefEval(e, env)
				want = refLine(v, ok, env)
			default: // access paths (C13)
				pg := &pathGen{r: r, env: env}
				t, v, class := pg.genPath()
				src = t
				tag = "path"
				if class == "" {
					want = "OK " + encResult(newValEnc(), v) + " LOG "
				} else if class == "parse" {
					want = "ERR parse"
				} else {
					want = "ERR " + class + " LOG "
				}
			}
			out.count(tag)
			res := ""
			if hasRoot {
				res = implEvalRoot(src, root)
			} else {
				res = implEval(src, env)
			}
			why := ""
			if res != want && !(hasRoot && want == "") {
				// NaN results and -0 are compared by bits after canonicalisation; anything else is a failure
				why = fmt.Sprintf("expression %q: implementation %s, reference %s", src, res, want)
			}
			var c09, c11, c12, c13 string
			switch {
			case strings.HasPrefix(tag, "ops"):
				c09 = why
				if tag == "ops-right-ternary" && why != "" {
					c09 = "KF-ternary-right-assoc " + why
				}
				if strings.ContainsAny(src, "<>=!") && tag != "ops-right-ternary" {
					c11 = c09
				}
			case strings.HasPrefix(tag, "instr"):
				c12 = why
				if tag == "instr-right-ternary" && why != "" {
					c12 = "KF-ternary-right-assoc " + why
				}
			case tag == "misc":
				c12 = why
			default:
				c13 = why
			}
			if hasRoot {
				out.put(fmt.Sprintf("eval %s %s %s", meth, newValEnc().enc(root), encStr(src)), res,
					verdict("C06", why), verdict("C13", why), verdict("C08", panicOnly(res)))
				continue
			}
			out.put(fmt.Sprintf("eval %s %s %s", meth, encEnv(env), encStr(src)), res,
				verdict("C09", c09), verdict("C11", c11), verdict("C12", c12), verdict("C13", c13), verdict("C08", panicOnly(res)))
		}
		out.close()
	case "rel": // <seed> <n> <outdir>
		seed, _ := strconv.ParseUint(os.Args[2], 10, 64)
		n, _ := strconv.Atoi(os.Args[3])
		out := openOut(os.Args[4])
		meth := encMethods()
		for i := 0; i < n; i++ {
			r := NewRng(seed, uint64(i))
			src, env, c11 := genRelCase(r)
			res := implEval(src, env)
			out.count(strings.Fields(src)[1])
			out.put(fmt.Sprintf("eval %s %s %s", meth, encEnv(env), encStr(src)), res, verdict("C11", c11), verdict("C08", panicOnly(res)))
		}
		out.close()
	case "fmtfloat": // <seed> <n> <outdir>: a float64 of any bit pattern concatenated to a string (fmt %v of floats)
		seed, _ := strconv.ParseUint(os.Args[2], 10, 64)
		n, _ := strconv.Atoi(os.Args[3])
		out := openOut(os.Args[4])
		meth := encMethods()
		special := []float64{0, math.Copysign(0, -1), 1, -1, 0.1, 0.5, 1e5, 1e6, 123456, 1234567, 1e20, 1e21, 1e22, 1e23, 1e-4, 1e-5, 0.00012345, 5e-324, 2.2250738585072014e-308, 2.225073858507201e-308,
			math.MaxFloat64, math.Inf(1), math.Inf(-1), math.NaN(), 9007199254740992, 9007199254740993, 4503599627370496, 0.3, 2.0 / 3, 1e15, 123456789.125, 100, 99999.5, 999999.5, 9.5e22, 8.41e21, 2e-323, 1.5e-323}
		for i := 0; i < n; i++ {
			r := NewRng(seed, uint64(i))
			var x float64
			switch c := r.Intn(100); {
			case c < 20:
				x = special[r.Intn(len(special))]
			case c < 50: // any bit pattern
				x = math.Float64frombits(r.Next())
			case c < 65: // powers of two and their neighbours (asymmetric rounding interval)
				b := uint64(r.Intn(2047)) << 52
				x = math.Float64frombits(b + uint64(r.Intn(3)) - 1 + 1)
				if r.Bool() {
					x = math.Float64frombits(b)
				}
			case c < 85: // short decimals
				x, _ = strconv.ParseFloat(fmt.Sprintf("%d.%de%d", r.Intn(100), r.Intn(1000), r.Intn(60)-30), 64)
			default: // integers as floats
				x = float64(int64(r.Next()) >> uint(r.Intn(63)))
			}
			if r.Chance(20) {
				x = -x
			}
			env := &Env{Vals: map[string]any{}}
			env.Names = append(env.Names, "x")
			env.Vals["x"] = x
			src := r.Pick([]string{"'' + x", "x + ''", "'v=' + x", "x + 'u'"})
			res := implEval(src, env)
			fx := fmt.Sprintf("%v", x) // the reference: Go's own formatting of the value as it is held
			want := "OK s" + encRunes(map[string]string{"'' + x": fx, "x + ''": fx, "'v=' + x": "v=" + fx, "x + 'u'": fx + "u"}[src]) + " LOG "
			c09 := ""
			if res != want {
				c09 = fmt.Sprintf("%s with x = %v (bits %#x): %s, expected %s", src, x, math.Float64bits(x), res, want)
			}
			out.count(strings.Split(res, " ")[0])
			out.put(fmt.Sprintf("eval %s %s %s", meth, encEnv(env), encStr(src)), res, verdict("C09", c09), verdict("C08", panicOnly(res)))
		}
		out.close()
	case "strlit": // <seed> <n> <outdir>: exhaustive strings of length <= 3 first, random beyond
		seed, _ := strconv.ParseUint(os.Args[2], 10, 64)
		n, _ := strconv.Atoi(os.Args[3])
		out := openOut(os.Args[4])
		meth := encMethods()
		env := defaultEnv()
		encE := encEnv(env)
		idx := 0
		for i := 0; i < n; i++ {
			r := NewRng(seed, uint64(i))
			var s string
			if e, ok := litString(idx / 3); ok {
				s = e
				out.count("exhaustive")
			} else {
				s = ""
				k := 4 + r.Intn(12)
				pool := append([]rune{}, litAlphabet...)
				pool = append(pool, 'b', 'x', '0', '7', 'u', 'n', 0x1F600, 0x7f, 0x85, 0x2028, 7, 8, 11, 12, '/', '*', ';', '<', '>', '&', 0xFFFD, 0xFEFF, 0x10FFFF, 0xE000, 0xD7FF, 0x80, 0xA0, 0x7FF, 0x800, 0xFFFF)
				for j := 0; j < k; j++ {
					s += string(pool[r.Intn(len(pool))])
				}
				out.count("random")
			}
			var lit string
			style := idx % 3
			idx++
			switch style {
			case 0:
				lit = quoteWith(r, s, '"')
			case 1:
				lit = quoteWith(r, s, '\'')
			default:
				l, ok := quoteRaw(s)
				if !ok {
					lit = quoteWith(r, s, '"')
				} else {
					lit = l
				}
			}
			src := lit
			want := "OK s" + encRunes(s) + " LOG "
			if r.Chance(20) {
				src = lit + " + ''"
			} else if r.Chance(10) {
				src = "len(" + lit + ")"
				want = fmt.Sprintf("OK i0:%d LOG ", len(s))
			}
			res := implEval(src, env)
			c14 := ""
			if res != want {
				c14 = fmt.Sprintf("literal %s of string %q: %s, expected %s", src, s, res, want)
			}
			out.put(fmt.Sprintf("eval %s %s %s", meth, encE, encStr(src)), res, verdict("C14", c14), verdict("C08", panicOnly(res)))
		}
		out.close()
	case "reload": // <seed> <n> <outdir>: histories in enumeration order starting at seed*n (exhaustive when n covers them all)
		seed, _ := strconv.ParseUint(os.Args[2], 10, 64)
		n, _ := strconv.Atoi(os.Args[3])
		out := openOut(os.Args[4])
		total := 4 * (1 + 5 + 25 + 125 + 625 + 3125 + 15625 + 78125)
		for i := 0; i < n; i++ {
			markCase(uint64(i))
			idx := i
			if n < total { // sample: short histories first, then random long ones
				if i >= 4*(1+5+25+125+625) {
					r := NewRng(seed, uint64(i))
					idx = 4*(1+5+25+125+625) + r.Intn(total-4*(1+5+25+125+625))
				}
			}
			hot, first, ops, ok := reloadHistory(idx)
			if !ok {
				break
			}
			noteInput(fmt.Sprintf("reload hot=%v first-build-ok=%v ops=%s", hot, first, ops))
			line, c18 := runReloadHistory(hot, first, ops)
			out.count(fmt.Sprintf("len%d", len(ops)))
			h, f := 0, 0
			if hot {
				h = 1
			}
			if first {
				f = 1
			}
			if ops == "" {
				ops = "."
			}
			out.put(fmt.Sprintf("reload %d %d %s", h, f, ops), line, verdict("C18", c18), verdict("C08", panicOnly(line)))
		}
		out.close()
	case "reloadconc": // <seed> <n> <outdir>
		seed, _ := strconv.ParseUint(os.Args[2], 10, 64)
		n, _ := strconv.Atoi(os.Args[3])
		out := openOut(os.Args[4])
		stuck := 0
		for i := 0; i < n; i++ {
			r := NewRng(seed, uint64(i))
			first, threads, sched := genReloadConc(r)
			sb := []byte{}
			for _, x := range sched {
				sb = append(sb, "0123456789abcdefghijklmnopqrstuvwxyz"[x])
			}
			ss := string(sb)
			if ss == "" {
				ss = "."
			}
			noteInput(fmt.Sprintf("reloadconc first-build-ok=%v threads=%s schedule=%s", first, threads, ss))
			line, c18 := runReloadConc(first, threads, sched)
			if line == "STUCK" {
				// every stuck case costs its waiting time: after three of them the stream ends (the verdicts are reported)
				if stuck++; stuck > 3 {
					break
				}
			}
			out.count(fmt.Sprintf("threads%d", len(threads)))
			overlap := false // a request or a store falls inside another Reload's build
			open_ := map[int]bool{}
			for _, x := range sched {
				if threads[x] == '+' || threads[x] == '-' {
					if open_[x] {
						delete(open_, x)
					} else {
						open_[x] = true
					}
					if len(open_) > 1 || (len(open_) == 1 && !open_[x]) {
						overlap = true
					}
				} else if len(open_) > 0 {
					overlap = true
				}
			}
			if overlap {
				out.count("overlapping")
			}
			f := 0
			if first {
				f = 1
			}
			out.put(fmt.Sprintf("reloadconc %d %s %s", f, threads, ss), line, verdict("C18", c18), verdict("C08", panicOnly(line)))
		}
		out.close()
	case "race": // <C15|C18> <seed> <rounds>  (binary built with -race)
		seed, _ := strconv.ParseUint(os.Args[3], 10, 64)
		rounds, _ := strconv.Atoi(os.Args[4])
		var res string
		if os.Args[2] == "C15" {
			res = raceC15(seed, rounds)
		} else {
			res = raceC18(seed, rounds)
		}
		fmt.Println(res)
		if strings.HasPrefix(res, "FAIL") {
			os.Exit(1)
		}
	case "xtpl": // <seed> <n> <outdir>   (XTPL_BIN = binary built from the working tree)
		seed, _ := strconv.ParseUint(os.Args[2], 10, 64)
		n, _ := strconv.Atoi(os.Args[3])
		out := openOut(os.Args[4])
		for i := 0; i < n; i++ {
			runXtplCase(NewRng(seed, uint64(i)), out, os.Args[4], i)
		}
		out.close()
	case "fs": // <seed> <n> <outdir>
		seed, _ := strconv.ParseUint(os.Args[2], 10, 64)
		n, _ := strconv.Atoi(os.Args[3])
		out := openOut(os.Args[4])
		for i := 0; i < n; i++ {
			genFsCase(NewRng(seed, uint64(i)), out)
		}
		out.close()
	case "fuzz": // <seed> <n> <outdir>
		seed, _ := strconv.ParseUint(os.Args[2], 10, 64)
		n, _ := strconv.Atoi(os.Args[3])
		runFuzz(seed, n, os.Args[4])
	case "tokseq": // <seed> <n> <outdir>
		seed, _ := strconv.ParseUint(os.Args[2], 10, 64)
		n, _ := strconv.Atoi(os.Args[3])
		out := openOut(os.Args[4])
		for i := 0; i < n; i++ {
			r := NewRng(seed, uint64(i))
			prefix := r.Pick(prefixes)
			src, want := genTokSeq(r, prefix)
			res, toks := implScan(prefix, nil, src)
			c17 := ""
			if !strings.HasPrefix(res, "OK") {
				c17 = fmt.Sprintf("a written token sequence was rejected (%s): %q", res, src)
			} else {
				c17 = checkTokSeq(toks, want)
				if c17 == "" {
					c17, _ = oracleScan(src, toks)
				}
				if c17 != "" {
					c17 += fmt.Sprintf(" [source %q]", src)
				}
			}
			out.put(fmt.Sprintf("scan %s %s %s", encStr(prefix), encStrs(defTags(nil)), encStr(src)), res, verdict("C17", c17), verdict("C08", panicOnly(res)))
		}
		out.close()
	case "strtmpl": // <seed> <n> <outdir>
		seed, _ := strconv.ParseUint(os.Args[2], 10, 64)
		n, _ := strconv.Atoi(os.Args[3])
		out := openOut(os.Args[4])
		for i := 0; i < n; i++ {
			genStrTmplCase(NewRng(seed, uint64(i)), out, i)
		}
		out.close()
	case "plain": // <seed> <n> <outdir>
		seed, _ := strconv.ParseUint(os.Args[2], 10, 64)
		n, _ := strconv.Atoi(os.Args[3])
		out := openOut(os.Args[4])
		for i := 0; i < n; i++ {
			genPlainCase(NewRng(seed, uint64(i)), out)
		}
		out.close()
	case "tmpl": // <seed> <n> <outdir>
		seed, _ := strconv.ParseUint(os.Args[2], 10, 64)
		n, _ := strconv.Atoi(os.Args[3])
		out := openOut(os.Args[4])
		for i := 0; i < n; i++ {
			genTmplCase(NewRng(seed, uint64(i)), out)
		}
		out.close()
	case "ref": // <seed> <n> <outdir>: structured templates with natively computed expectations
		seed, _ := strconv.ParseUint(os.Args[2], 10, 64)
		n, _ := strconv.Atoi(os.Args[3])
		out := openOut(os.Args[4])
		for i := 0; i < n; i++ {
			genRefCase(NewRng(seed, uint64(i)), out)
		}
		out.close()
	case "code": // <seed> <n> <outdir>
		seed, _ := strconv.ParseUint(os.Args[2], 10, 64)
		n, _ := strconv.Atoi(os.Args[3])
		out := openOut(os.Args[4])
		for i := 0; i < n; i++ {
			r := NewRng(seed, uint64(i))
			g := &docGen{r: r, o: DocOpts{Prefix: ":"}}
			q := r.Pick([]string{`"`, `'`})
			src := g.directiveValue(q)
			if r.Chance(25) {
				src = mutate(r, src)
				out.count("mutated")
			}
			line, col := 1+r.Intn(5), 1+r.Intn(40)
			res := implCode(line, col, src)
			c17 := ""
			if k := strings.Index(res, " #"); k >= 0 {
				c17 = res[k+2:]
				res = res[:k]
			}
			out.put(fmt.Sprintf("code %d %d %s", line, col, encStr(src)), res, verdict("C17", c17), verdict("C08", panicOnly(res)))
		}
		out.close()
	default:
		fmt.Fprintln(os.Stderr, "unknown command", os.Args[1])
		os.Exit(2)
	}
}
