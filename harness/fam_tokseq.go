package main

import (
	"fmt"
	"strings"
	"unicode"

	"code.gopub.tech/tpl/html"
)

// tokseq family (C17): a generated sequence of intended markup tokens is printed and scanned; the
// scan must recover the sequence (kinds, tag names, attribute names and values in order, text /
// comment / CDATA contents, literal and code segments of directive values).

type wantAttr struct {
	name  string
	value *string
	segs  []string // for directive values: "L:<lit>" / "C:<code>"
}
type wantTok struct {
	kind  html.TokenKind
	text  string // text / comment / cdata value, or tag name
	attrs []wantAttr
}

func genTokSeq(r *Rng, prefix string) (string, []wantTok) {
	var sb strings.Builder
	var want []wantTok
	g := &docGen{r: r, o: DocOpts{Prefix: prefix}}
	n := 1 + r.Intn(8)
	lastText := false
	rawPending := ""
	for i := 0; i < n; i++ {
		c := r.Intn(100)
		if rawPending != "" {
			// content and close tag of a raw-text element
			name := rawPending
			rawPending = ""
			content := g.rawContent(name)
			for try := 0; try < 10; try++ {
				// the content must not itself contain the close tag (white space inside it is allowed)
				squeezed := strings.ToLower(strings.Join(strings.FieldsFunc(content+"</"+name+">", unicode.IsSpace), ""))
				if strings.Index(squeezed, "</"+name+">") == len(squeezed)-len("</"+name+">") {
					break
				}
				content = g.rawContent(name)
				if try == 9 {
					content = "x"
				}
			}
			if content != "" {
				want = append(want, wantTok{kind: html.TokenKindText, text: content})
			}
			sb.WriteString(content)
			cl := "</" + name + r.Pick([]string{"", " ", "\n"}) + ">"
			sb.WriteString(cl)
			want = append(want, wantTok{kind: html.TokenKindTag, text: "/" + name})
			lastText = false
			continue
		}
		switch {
		case c < 25 && !lastText:
			t := g.runes(textRunes, 1, 10)
			sb.WriteString(t)
			want = append(want, wantTok{kind: html.TokenKindText, text: t})
			lastText = true
		case c < 35:
			body := strings.TrimLeft(strings.ReplaceAll(g.runes(textRunes, 0, 8), "--", "-"), ">-")
			if strings.HasSuffix(body, "-") || strings.HasSuffix(body, "<!") {
				body += "."
			}
			sb.WriteString("<!--" + body + "-->")
			want = append(want, wantTok{kind: html.TokenKindComment, text: "<!--" + body + "-->"})
			lastText = false
		case c < 42:
			body := strings.ReplaceAll(g.runes(textRunes, 0, 8), "]]>", "]] >") + r.Pick([]string{"", "a>b", "]", "]]"})
			body = strings.ReplaceAll(body, "]]>", "]] >")
			sb.WriteString("<![CDATA[" + body + "]]>")
			want = append(want, wantTok{kind: html.TokenKindCDATA, text: "<![CDATA[" + body + "]]>"})
			lastText = false
		case c < 50:
			name := r.Pick([]string{"div", "p", "span", "ul"})
			sb.WriteString("</" + name + r.Pick([]string{"", " ", "\t"}) + ">")
			want = append(want, wantTok{kind: html.TokenKindTag, text: "/" + name})
			lastText = false
		default:
			name := r.Pick([]string{"div", "p", "a", "br", "img", "x-y", "H1", "!DOCTYPE", "script", "title"})
			w := wantTok{kind: html.TokenKindTag, text: name}
			sb.WriteString("<" + name)
			k := r.Intn(6)
			used := map[string]bool{}
			for j := 0; j < k; j++ {
				an := r.Pick([]string{"id", "class", "href", "data-x", "a", "b", "c1", "é", "x:y"})
				directive := r.Chance(30)
				if directive {
					an = prefix + r.Pick([]string{"text", "if", "title", "with", "x"})
				} else if strings.HasPrefix(an, prefix) {
					an = "q" + an
				}
				if used[an] {
					continue
				}
				used[an] = true
				sb.WriteString(g.ws(1) + an)
				wa := wantAttr{name: an}
				form := r.Intn(5)
				if directive && form < 1 {
					form = 3
				}
				eq := r.Pick([]string{"=", "=", " =", "= ", " = ", "=\n"})
				switch {
				case form == 0: // no value
				case form == 1 && !directive: // unquoted
					v := g.runes([]rune("abcXYZ019&;/-!][é.,:(){}"), 1, 5)
					sb.WriteString(eq + v)
					wa.value = &v
				default:
					q := r.Pick([]string{`"`, `'`})
					var inner string
					if directive {
						parts := 1 + r.Intn(3)
						for p := 0; p < parts; p++ {
							if r.Bool() {
								lit := strings.ReplaceAll(strings.ReplaceAll(g.runes([]rune("abc $}:=,;.<>中\t\n"), 1, 4), "${", "$ {"), q, "")
								if lit == "" {
									lit = "x"
								}
								if strings.HasSuffix(inner, "$") && strings.HasPrefix(lit, "{") {
									lit = " " + lit
								}
								if len(wa.segs) > 0 && strings.HasPrefix(wa.segs[len(wa.segs)-1], "L:") {
									wa.segs[len(wa.segs)-1] += lit
								} else {
									wa.segs = append(wa.segs, "L:"+lit)
								}
								inner += lit
							} else {
								e := r.Pick(exprPool)
								if strings.Contains(e, q) {
									e = "a"
								}
								wa.segs = append(wa.segs, "C:"+e)
								inner += "${" + e + "}"
							}
						}
					} else {
						inner = strings.ReplaceAll(g.runes(textRunes, 0, 8), q, "")
						if r.Chance(20) {
							inner += "\n  " + strings.ReplaceAll(g.runes(textRunes, 0, 4), q, "")
						}
					}
					v := q + inner + q
					sb.WriteString(eq + v)
					wa.value = &v
				}
				w.attrs = append(w.attrs, wa)
			}
			if r.Chance(30) {
				sb.WriteString(g.ws(1))
			}
			sb.WriteString(">")
			want = append(want, w)
			lastText = false
			if name == "script" || name == "title" {
				rawPending = name
			}
		}
	}
	if rawPending != "" {
		// the close tag in the spelling of the writer's choice: the scanned name is the written one
		cn := r.Pick([]string{rawPending, strings.ToUpper(rawPending), strings.ToUpper(rawPending[:1]) + rawPending[1:]})
		sb.WriteString("x</" + cn + r.Pick([]string{"", "", " ", "\n"}) + ">")
		want = append(want, wantTok{kind: html.TokenKindText, text: "x"}, wantTok{kind: html.TokenKindTag, text: "/" + cn})
	}
	return sb.String(), want
}

func checkTokSeq(toks []*html.Token, want []wantTok) string {
	// a raw-text element with empty content yields an empty text token: accept both
	var got []*html.Token
	for _, t := range toks {
		got = append(got, t)
	}
	if len(got) != len(want) {
		return fmt.Sprintf("scanned %d tokens, %d were written", len(got), len(want))
	}
	for i, w := range want {
		t := got[i]
		if t.Kind != w.kind {
			return fmt.Sprintf("token %d: kind %v, written %v", i, t.Kind, w.kind)
		}
		if t.Kind != html.TokenKindTag {
			if t.Value != w.text {
				return fmt.Sprintf("token %d: content %q, written %q", i, t.Value, w.text)
			}
			continue
		}
		if t.Tag == nil || t.Tag.Name != w.text {
			return fmt.Sprintf("token %d: tag name differs from %q", i, w.text)
		}
		if len(t.Tag.Attrs) != len(w.attrs) {
			return fmt.Sprintf("token %d <%s>: %d attributes scanned, %d written", i, w.text, len(t.Tag.Attrs), len(w.attrs))
		}
		for j, wa := range w.attrs {
			a := t.Tag.Attrs[j]
			if a.Name != wa.name {
				return fmt.Sprintf("token %d attribute %d: name %q, written %q", i, j, a.Name, wa.name)
			}
			if (a.Value == nil) != (wa.value == nil) && !(wa.value == nil && strings.HasSuffix(wa.name, "else")) {
				return fmt.Sprintf("token %d attribute %q: value presence differs", i, wa.name)
			}
			if a.Value != nil && wa.value != nil && *a.Value != *wa.value {
				return fmt.Sprintf("token %d attribute %q: value %q, written %q", i, wa.name, *a.Value, *wa.value)
			}
			if wa.segs != nil {
				var segs []string
				for _, c := range a.ValueTokens {
					switch c.Kind {
					case html.Literal:
						segs = append(segs, "L:"+c.Value)
					case html.CodeValue:
						segs = append(segs, "C:"+c.Value)
					}
				}
				if strings.Join(segs, "\x00") != strings.Join(wa.segs, "\x00") {
					return fmt.Sprintf("token %d attribute %q: segments %q, written %q", i, wa.name, segs, wa.segs)
				}
			}
		}
	}
	return ""
}
