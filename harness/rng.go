package main

// splitmix64: every random choice of a case derives from (seed, case index).
type Rng struct{ s uint64 }

func NewRng(seed uint64, idx uint64) *Rng {
	r := &Rng{s: seed*0x9E3779B97F4A7C15 + idx*0xBF58476D1CE4E5B9 + 0x94D049BB133111EB}
	r.Next()
	return r
}
func (r *Rng) Next() uint64 {
	r.s += 0x9E3779B97F4A7C15
	z := r.s
	z = (z ^ (z >> 30)) * 0xBF58476D1CE4E5B9
	z = (z ^ (z >> 27)) * 0x94D049BB133111EB
	return z ^ (z >> 31)
}
func (r *Rng) Intn(n int) int {
	if n <= 0 {
		return 0
	}
	return int(r.Next() % uint64(n))
}
func (r *Rng) Bool() bool        { return r.Next()&1 == 1 }
func (r *Rng) Chance(p int) bool { return r.Intn(100) < p } // p percent
func (r *Rng) Pick(xs []string) string {
	return xs[r.Intn(len(xs))]
}
