package main

import (
	"fmt"
	"os"
	"path/filepath"
	"runtime"
	"strconv"
	"sync/atomic"
	"time"
)

// watchdog: every case starts with NewRng(seed, index); if one case runs longer than VERIF_CASE_TIMEOUT seconds
// (default 30) the harness writes <outdir>/hang.txt (index, seconds, the goroutine stacks) and exits with status 3,
// so that a non-terminating implementation is reported with the case that triggers it instead of stalling the check.
var wdIndex, wdStart atomic.Int64
var wdDir atomic.Value
var wdProg *os.File // <outdir>/progress.txt: index of the case being run (read by the check when the process dies)

func startWatchdog(dir string) {
	wdDir.Store(dir)
	wdIndex.Store(-1)
	wdProg, _ = os.Create(filepath.Join(dir, "progress.txt"))
	limit := int64(30)
	if v, err := strconv.Atoi(os.Getenv("VERIF_CASE_TIMEOUT")); err == nil && v > 0 {
		limit = int64(v)
	}
	go func() {
		for {
			time.Sleep(500 * time.Millisecond)
			i, t0 := wdIndex.Load(), wdStart.Load()
			if i < 0 || t0 == 0 {
				continue
			}
			if el := time.Now().Unix() - t0; el > limit && wdIndex.Load() == i {
				buf := make([]byte, 1<<16)
				buf = buf[:runtime.Stack(buf, true)]
				os.WriteFile(filepath.Join(dir, "hang.txt"), []byte(fmt.Sprintf("index=%d seconds=%d\n%s", i, el, buf)), 0o644)
				os.Exit(3)
			}
		}
	}()
}

// splitmix64: every random choice of a case derives from (seed, case index).
type Rng struct{ s uint64 }

func NewRng(seed uint64, idx uint64) *Rng {
	r := &Rng{s: seed*0x9E3779B97F4A7C15 + idx*0xBF58476D1CE4E5B9 + 0x94D049BB133111EB}
	r.Next()
	if wdDir.Load() != nil {
		wdIndex.Store(int64(idx))
		wdStart.Store(time.Now().Unix())
		if wdProg != nil {
			wdProg.WriteAt([]byte(fmt.Sprintf("%-12d", idx)), 0)
		}
	}
	return r
}

// markCase marks the start of case idx for the watchdog in families that enumerate instead of drawing from NewRng
func markCase(idx uint64) {
	if wdDir.Load() != nil {
		wdIndex.Store(int64(idx))
		wdStart.Store(time.Now().Unix())
		if wdProg != nil {
			wdProg.WriteAt([]byte(fmt.Sprintf("%-12d", idx)), 0)
		}
	}
}

// auxRng is a generator that does not mark the start of a case
func auxRng(seed uint64, idx uint64) *Rng {
	r := &Rng{s: seed*0x9E3779B97F4A7C15 + idx*0xBF58476D1CE4E5B9 + 0x94D049BB133111EB}
	r.Next()
	return r
}
func (r *Rng) Next() uint64 {
	r.s += 0x9E3779B97F4A7C15
	z := r.s
	z = (z ^ (z >> 30)) * 0xBF58476D1CE4E5B9
	z = (z ^ (z >> 27)) * 0x94D049BB133111EB
	return z ^ (z >> 31)
}
func (r *Rng) Intn(n int) int {
	if n <= 0 {
		return 0
	}
	return int(r.Next() % uint64(n))
}
func (r *Rng) Bool() bool        { return r.Next()&1 == 1 }
func (r *Rng) Chance(p int) bool { return r.Intn(100) < p } // p percent
func (r *Rng) Pick(xs []string) string {
	return xs[r.Intn(len(xs))]
}

// noteInput records the input about to be given to the implementation (<outdir>/current.txt), so that a crash of the
// whole process (stack exhaustion, fatal runtime error) can be reported together with the input that caused it.
func noteInput(s string) {
	if d, ok := wdDir.Load().(string); ok {
		os.WriteFile(filepath.Join(d, "current.txt"), []byte(s), 0o644)
	}
}
