package main

import (
	"fmt"
	"strings"

	"code.gopub.tech/tpl/html"
)

// Direct property oracles on the implementation's scanner output (independent of the Coq model).

func adv(p html.Pos, r rune) html.Pos {
	switch r {
	case '\n':
		return html.Pos{Line: p.Line + 1, Column: 1}
	case '\t':
		return html.Pos{Line: p.Line, Column: p.Column + 4}
	}
	return html.Pos{Line: p.Line, Column: p.Column + 1}
}
func posAfter(p html.Pos, s string) html.Pos {
	for _, r := range s {
		p = adv(p, r)
	}
	return p
}

// spanText returns the text of `value` (which starts at `start`) lying between positions a and b.
func spanText(start html.Pos, value string, a, b html.Pos) (string, bool) {
	p := start
	ia, ib := -1, -1
	rs := []rune(value)
	for i := 0; i <= len(rs); i++ {
		if p == a && ia < 0 {
			ia = i
		}
		if p == b && ia >= 0 && ib < 0 && i >= ia {
			ib = i
		}
		if i < len(rs) {
			p = adv(p, rs[i])
		}
	}
	if ia < 0 || ib < 0 {
		return "", false
	}
	return string(rs[ia:ib]), true
}

func oracleCodeTokens(start html.Pos, value string, toks []*html.CodeToken) string {
	var sb strings.Builder
	p := start
	for i, c := range toks {
		if c.Start != p {
			return fmt.Sprintf("code token %d starts at %v, expected %v", i, c.Start, p)
		}
		e := posAfter(p, c.Value)
		if c.End != e {
			return fmt.Sprintf("code token %d %q ends at %v, expected %v", i, c.Value, c.End, e)
		}
		p = e
		sb.WriteString(c.Value)
	}
	if sb.String() != value {
		// the scanner stops after the closing quote; input after it (impossible for values cut out
		// by the HTML scanner) is not tokenised
		closedEarly := len(toks) >= 2 && toks[len(toks)-1].Kind == html.BegEnd && strings.HasPrefix(value, sb.String())
		if !closedEarly {
			return fmt.Sprintf("code token values concatenate to %q, not to the attribute value %q", sb.String(), value)
		}
	}
	return ""
}

// oracleScan checks C17's position clauses and C01's concatenation clause on a successful scan.
func oracleScan(src string, toks []*html.Token) (c17 string, c01 string) {
	var sb strings.Builder
	p := html.Pos{Line: 1, Column: 1}
	for i, t := range toks {
		sb.WriteString(t.Value)
		if c17 == "" {
			if t.Start != p {
				c17 = fmt.Sprintf("token %d %q starts at %v, expected %v (previous token end)", i, t.Value, t.Start, p)
			} else if e := posAfter(p, t.Value); t.End != e {
				c17 = fmt.Sprintf("token %d %q ends at %v, expected %v", i, t.Value, t.End, e)
			}
		}
		p = posAfter(p, t.Value)
		if c17 == "" && t.Kind == html.TokenKindTag && t.Tag != nil {
			seen := map[string]bool{}
			for _, a := range t.Tag.Attrs {
				// duplicate attributes (the same name as written) are rejected with an error, never kept twice
				if seen[a.Name] && c17 == "" {
					c17 = fmt.Sprintf("token %d %q was accepted with the attribute %q twice", i, t.Value, a.Name)
				}
				seen[a.Name] = true
			}
			for _, a := range t.Tag.Attrs {
				if a.Name != "" {
					if s, ok := spanText(t.Start, t.Value, a.NameStart, a.NameEnd); !ok || s != a.Name {
						c17 = fmt.Sprintf("attribute %q of token %d: source between %v and %v is %q", a.Name, i, a.NameStart, a.NameEnd, s)
					}
				}
				if a.Value != nil && a.ValueStart.Line != 0 {
					if s, ok := spanText(t.Start, t.Value, a.ValueStart, a.ValueEnd); !ok || s != *a.Value {
						c17 = fmt.Sprintf("value %q of attribute %q: source between %v and %v is %q", *a.Value, a.Name, a.ValueStart, a.ValueEnd, s)
					}
					if len(a.ValueTokens) > 0 && c17 == "" {
						if why := oracleCodeTokens(a.ValueStart, *a.Value, a.ValueTokens); why != "" {
							c17 = fmt.Sprintf("attribute %q: %s", a.Name, why)
						}
					}
				}
			}
		}
	}
	if sb.String() != src {
		c01 = "token values do not concatenate to the source"
		if c17 == "" {
			c17 = c01
		}
	}
	return
}
