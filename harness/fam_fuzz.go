package main

import (
	"encoding/hex"
	"errors"
	"fmt"
	"math"
	"strings"
	"time"

	"code.gopub.tech/tpl/exp"
	"code.gopub.tech/tpl/html"
)

// fuzz family (C08): every public entry point on random bytes, mutated templates / expressions and
// hostile data, each under recover(); fatal errors (stack exhaustion) kill the process, which the
// caller detects through the exit status and the progress file.

type stringerPanics struct{}

func (stringerPanics) String() string { panic("String() panics") }

type uncomparable struct {
	F []int
	M map[string]int
}

func hostileData(r *Rng) any {
	d := map[string]any{
		"nilv": nil, "i": int(3), "i8": int8(-1), "u64": uint64(math.MaxUint64), "f": math.NaN(), "inf": math.Inf(1),
		"s": "str", "e": "", "t": true, "xs": []any{1, "a", nil, 2.5}, "ns": []int{1, 2}, "arr": [3]int{1, 2, 3},
		"m": map[string]any{"k": "v", "n": nil}, "mi": map[int]string{1: "a"}, "st": T1{Name: "N"}, "pt": &T1{Name: "P"},
		"np": (*T1)(nil), "t3": T3{}, "unc": uncomparable{F: []int{1}}, "sp": stringerPanics{}, "bytes": []byte("ab"),
		"boom": func() int { panic("boom") }, "fail": func() (int, error) { return 0, errors.New("failed") },
		"f1": func(a int) int { return a }, "fv": func(a ...any) int { return len(a) }, "f0": func() {}, "f3": func() (int, int, int) { return 1, 2, 3 },
		"fe": func() error { return errors.New("x") }, "c": complex(1, 2), "name": "n", "s1": "<x>", "c1": true, "c2": false,
		"tnil": (*time.Time)(nil), "dur": time.Duration(5), "fname": "f1", "num": int64(2), "word": "wörd", "emp": []any{}, "m1": map[string]any{"k": "v"}, "r1": "<b>",
		"ident": func(a any) any { return a }, "one": func() int64 { return 1 },
		"rec": func(k int64) int64 { return k }, "recb": func(k int64, b bool) bool { return b }, "recs": func(k int64, s string) string { return s },
	}
	if r.Chance(20) { // any Go value can be the data root
		roots := []any{[2]int{7, 8}, [0]string{}, &[2]int{1, 2}, []int(nil), map[string]any(nil), map[int]string{1: "a"}, "root string", 3.5, true,
			func() int { return 1 }, (*[2]int)(nil), []byte("ab"), make(chan int), uncomparable{F: []int{1}}, stringerPanics{}, struct{}{}, &d, time.Duration(3), complex(1, 1), new(any), uintptr(7)}
		return roots[r.Intn(len(roots))]
	}
	switch r.Intn(8) {
	case 0:
		return nil
	case 1:
		return T1{Name: "root", Tags: []string{"a"}}
	case 2:
		return &T1{Name: "root"}
	case 3:
		return []any{1, 2}
	case 4:
		return 42
	case 5:
		return (*T1)(nil)
	}
	return d
}

var hostileExprPool = []string{"boom()", "fail()", "f1(1)", "f1('a')", "fv(xs...)", "fv(1, nil)", "f0()", "f3()", "fe()", "c + 1", "-c", "sp", "'a' + sp", "tnil", "string(sp)", "string(tnil)", "print(sp)", "unc == unc", "xs == xs", "m == m",
	"boom == boom", "st == st", "pt == pt", "np.Name", "np.Hello()", "np.PtrM()", "*np", "*pt", "&pt", "<-xs", "xs[5]", "xs[-9]", "xs[1:0]", "xs[0:9]", "arr[0:1]", "ns[1:2:1]", "mi[1]", "mi.a",
	"m.k.x.y", "nilv.a", "nilv()", "s()", "1/0", "1%0", "1<<-1", "1>>-1", "-9223372036854775807-1", "9223372036854775807+1", "9223372036854775808", "1e999", "0x", "len(nilv)", "len(1)", "cap(s)",
	"int('a')", "int8(300)", "uint(-1)", "float64('x')", "string(xs)", "bytes(1)", "runes(nilv)", "duration('x')", "isNull(1)", "isNull(np)", "notNull(xs)", "print(sp)", "printf('%d', 'x')", "printf(1)",
	"f ? 1 : 2", "nilv ? 1 : 2", "t ? boom() : 1", "f == f", "f < f", "inf - inf", "u64 + 1", "u64 == -1", "i8 << 70", "st.hidden", "t3.X", "t3.GetX()", "st.Twice(1)", "st.Twice()", "bytes('é')[0]", "xs[1.5]", "xs['0']", "m[nilv]", "m[xs]"}

func fuzzOne(r *Rng) (kind string, input []byte, verdict string) {
	defer func() {
		if x := recover(); x != nil {
			verdict = fmt.Sprintf("PANIC %v", x)
		}
	}()
	rbytes := func(max int) []byte {
		n := r.Intn(max + 1)
		b := make([]byte, n)
		alphabet := []byte("<>=\"'/!-[] \t\n:${}`\\abc019.,;()+*?&|^%~#@")
		for i := range b {
			if r.Chance(70) {
				b[i] = alphabet[r.Intn(len(alphabet))]
			} else {
				b[i] = byte(r.Next())
			}
		}
		return b
	}
	switch c := r.Intn(100); {
	case c < 15: // random bytes as a template
		input, kind = rbytes(256), "bytes-template"
		noteInput("fuzz " + hex.EncodeToString(input))
		m := html.NewTplManager()
		if err := m.Add("f", strings.NewReader(string(input))); err == nil {
			if t, e := m.GetTemplate("f"); e == nil {
				t.Execute(&strings.Builder{}, hostileData(r))
			}
		}
	case c < 25: // random bytes to the scanners
		input, kind = rbytes(256), "bytes-scanner"
		noteInput("fuzz " + hex.EncodeToString(input))
		html.NewHtmlScanner(strings.NewReader(string(input))).GetAllTokens()
		html.NewCodeScanner(html.Pos{Line: 1, Column: 1}, string(input)).GetAllTokens()
	case c < 40: // random bytes as an expression
		input, kind = rbytes(64), "bytes-expr"
		noteInput("fuzz " + hex.EncodeToString(input))
		if tree, err := exp.ParseCode(string(input)); err == nil {
			exp.Evaluate(exp.NewPos(1, 1), tree, exp.NewScope(hostileData(r)))
		}
	case c < 65: // hostile expressions against hostile data
		g := &exGen{r: r, env: defaultEnv(), instr: true, noRightTer: true}
		src := r.Pick(hostileExprPool)
		if r.Chance(50) {
			src = g.Print(g.Gen("?", 1+r.Intn(3))) + r.Pick([]string{" + ", " == ", " && ", " < ", " ? 1 : ", ""}) + r.Pick(hostileExprPool)
		}
		if r.Chance(20) {
			src = mutate(r, src)
		}
		input, kind = []byte(src), "hostile-expr"
		noteInput("fuzz " + hex.EncodeToString(input))
		if tree, err := exp.ParseCode(src); err == nil {
			exp.Evaluate(exp.NewPos(1, 1), tree, exp.NewScope(hostileData(r)))
			exp.Evaluate(exp.NewPos(1, 1), tree, exp.Combine(exp.NewScope(nil), exp.NewScope(hostileData(r))))
		}
	default: // generated / mutated template sets executed with hostile data
		cfg := tmplCfg{ap: ":", tp: "t:", global: map[string]any{"g1": "G"}}
		g := &tmplGen{r: r, ap: ":", tp: "t:"}
		ts := g.genSet()
		g.layout(ts)
		if r.Chance(40) {
			i := r.Intn(len(ts.Files))
			ts.Files[i][1] = mutate(r, ts.Files[i][1])
		}
		if r.Chance(15) {
			ts.Files[0][1] += strings.Repeat("<div>", 200+r.Intn(800)) + r.Pick([]string{"", "</p>", "x"})
		}
		if r.Chance(35) {
			// hostile values at every kind of insertion point: text, raw, dynamic attribute, condition, with, fragment name
			v := r.Pick([]string{"sp", "tnil", "unc", "c", "boom", "f0", "mi", "np", "dur", "xs", "m", "fe()", "ident(sp)", "ident(tnil)"})
			ts.Files[0][1] += r.Pick([]string{`<i :text="${` + v + `}"></i>`, `<i :raw="${` + v + `}"></i>`, `<i :title="a${` + v + `}b"></i>`, `<i :if="${` + v + `}"></i>`,
				`<i :with="w := ${` + v + `}" :text="${w}"></i>`, `<i :insert="${` + v + `}"></i>`, `<i :range="_, q : xs" :text="${` + v + `}${q}"></i>`, `<i :text="${'s' + ` + v + `}"></i>`})
		}
		if r.Chance(10) {
			ts.Files[0][1] += `<i :text="${` + r.Pick(hostileExprPool) + `}"></i><p :range="i, x : ` + r.Pick([]string{"mi", "unc", "sp", "boom()", "st", "np", "c", "bytes"}) + `" :text="${x}"></p>`
		}
		var sb strings.Builder
		for _, f := range ts.Files {
			sb.WriteString(f[0] + "\x00" + f[1] + "\x01")
		}
		input, kind = []byte(sb.String()), "template-set"
		noteInput("fuzz " + hex.EncodeToString(input))
		m, le := newManager(cfg, ts.Files)
		if strings.HasPrefix(le, "PANIC") {
			return kind, input, le
		}
		if m != nil {
			for _, name := range []string{"main.html", "f1", "lib.html"} {
				if t, e := m.GetTemplate(name); e == nil {
					w := &failWriter{budget: -1}
					if r.Chance(20) {
						w.budget = r.Intn(6)
					}
					t.Execute(w, hostileData(r))
				}
			}
		}
	}
	return kind, input, ""
}

func runFuzz(seed uint64, n int, dir string) {
	out := openOut(dir)
	for i := 0; i < n; i++ {
		r := NewRng(seed, uint64(i))
		kind, input, v := fuzzOne(r)
		out.count(kind)
		res := "OK " + kind
		if v != "" {
			res = v
		}
		out.put("fuzz "+hex.EncodeToString(input), res, verdict("C08", v))
	}
	out.close()
}
