package main

import (
	"fmt"
	"math"
	"strings"
)

// rel family: ordered pairs over every numeric kind at boundary and random values (C11)

func randIntOfKind(r *Rng, k int) any {
	pick := func(lo, hi int64) int64 {
		switch r.Intn(6) {
		case 0:
			return lo
		case 1:
			return hi
		case 2:
			return 0
		case 3:
			if lo < 0 {
				return -1
			}
			return 1
		default:
			span := uint64(hi - lo)
			if span == 0 {
				return lo
			}
			return lo + int64(r.Next()%span)
		}
	}
	small := r.Chance(50) // small values make equal pairs likely
	sm := func(lo, hi int64) int64 {
		v := int64(r.Intn(7)) - 3
		if v < lo {
			v = lo
		}
		if v > hi {
			v = hi
		}
		return v
	}
	switch k {
	case 0:
		if small {
			return int(sm(math.MinInt64, math.MaxInt64))
		}
		return int(pick(math.MinInt64, math.MaxInt64))
	case 1:
		if small {
			return int8(sm(-128, 127))
		}
		return int8(pick(-128, 127))
	case 2:
		if small {
			return int16(sm(-32768, 32767))
		}
		return int16(pick(-32768, 32767))
	case 3:
		if small {
			return int32(sm(math.MinInt32, math.MaxInt32))
		}
		return int32(pick(math.MinInt32, math.MaxInt32))
	case 4:
		if small {
			return int64(sm(math.MinInt64, math.MaxInt64))
		}
		return pick(math.MinInt64, math.MaxInt64)
	case 5:
		if small {
			return uint(sm(0, 3))
		}
		return uint(pick(0, math.MaxInt64))
	case 6:
		if small {
			return uint8(sm(0, 3))
		}
		return uint8(pick(0, 255))
	case 7:
		if small {
			return uint16(sm(0, 3))
		}
		return uint16(pick(0, 65535))
	case 8:
		if small {
			return uint32(sm(0, 3))
		}
		return uint32(pick(0, math.MaxUint32))
	case 9:
		if small {
			return uint64(sm(0, 3))
		}
		return uint64(pick(0, math.MaxInt64)) // representable in int64 (property range)
	case 10:
		fs := []float32{0, 1, -1, 2.5, -0.25, 3, 1e10, float32(math.MaxInt32), 16777216, 16777217, 0.1, 3.14, 0.001, -0.7}
		return fs[r.Intn(len(fs))]
	default:
		fs := []float64{0, 1, -1, 2, 3, -3, 2.5, -0.25, 1e300, -1e300, 9007199254740992, 9007199254740993, math.MaxInt64, math.MinInt64, 0.1, 1 << 31, 255, 127, -128, 65535, math.Copysign(0, -1), 4.9e-324}
		return fs[r.Intn(len(fs))]
	}
}

func relOperand(r *Rng, env *Env, name string) string {
	switch c := r.Intn(100); {
	case c < 70:
		v := randIntOfKind(r, r.Intn(12))
		env.Names = append(env.Names, name)
		env.Vals[name] = v
		return name
	case c < 80:
		return fmt.Sprintf("%d", r.Intn(7)-3)
	case c < 86:
		return r.Pick([]string{"0.0", "1.0", "2.5", "-1.0", "3.0", "1e2", "0x1p1"})
	case c < 91:
		return r.Pick([]string{"len(xs)", "len(s)", "len(m)", "len(emp)", "cap(big)", "len(ns)"})
	case c < 96:
		return r.Pick([]string{"int8(i)", "uint8(u8)", "int64(i16)", "float64(i)", "int(f)", "uint16(3)", "int32(j)"})
	default:
		return r.Pick([]string{"1+2", "i-7", "6/2", "2*1.5", "-(-3)", "7%4"})
	}
}

func genRelCase(r *Rng) (src string, env *Env, c11 string) {
	env = defaultEnv()
	dataEnv(env)
	var a, b string
	switch c := r.Intn(100); {
	case c < 85:
		a, b = relOperand(r, env, "p"), relOperand(r, env, "q")
	case c < 92: // strings / bools / nil for the == / != duality
		pool := []string{"s", "e", "'hi'", `"a"`, "''", "t", "n", "true", "false", "nil", "m.nul", "'b'", "`hi`"}
		a, b = r.Pick(pool), r.Pick(pool)
	default: // mixed kinds
		pool := []string{"s", "t", "nil", "1", "1.5", "i", "'1'", "np", "pt", "f32"}
		a, b = r.Pick(pool), r.Pick(pool)
	}
	ops := []string{"==", "!=", "<", "<=", ">", ">="}
	carrier := false
	if r.Chance(12) {
		// the same number carried by two Go types: a conversion built-in that is exact for this value must compare
		// equal to its argument (equality never depends on which Go type carries the number)
		k := r.Intn(12)
		v := randIntOfKind(r, k)
		env.Names = append(env.Names, "p")
		env.Vals["p"] = v
		var convs []string
		switch x := v.(type) {
		case float32:
			convs = []string{"float64", "float32"}
		case float64:
			convs = []string{"float64"}
			if float64(float32(x)) == x {
				convs = append(convs, "float32")
			}
		default:
			i, _ := toI(v)
			convs = []string{"int64", "int"}
			if i >= -(1<<53) && i <= 1<<53 {
				convs = append(convs, "float64")
			}
			if i >= -(1<<24) && i <= 1<<24 {
				convs = append(convs, "float32")
			}
			if i >= 0 {
				convs = append(convs, "uint64", "uint")
			}
			if i >= -128 && i <= 127 {
				convs = append(convs, "int8")
			}
			if i >= 0 && i <= 65535 {
				convs = append(convs, "uint16")
			}
			if i >= math.MinInt32 && i <= math.MaxInt32 {
				convs = append(convs, "int32")
			}
		}
		a, b = r.Pick(convs)+"(p)", "p"
		if r.Chance(30) {
			// the upper half of every unsigned kind and the edges of every signed kind, converted by the TIGHTEST built-in
			// that holds the value (a conversion registered with the wrong width or signedness shows only there)
			edge := [][2]any{{int64(200), "uint8"}, {int64(255), "uint8"}, {int64(128), "uint8"}, {int64(40000), "uint16"}, {int64(65535), "uint16"}, {int64(32768), "uint16"},
				{int64(3000000000), "uint32"}, {int64(4294967295), "uint32"}, {int64(2147483648), "uint32"}, {uint64(1<<63 - 1), "uint64"}, {int64(1 << 62), "uint"},
				{int64(-128), "int8"}, {int64(127), "int8"}, {int64(-32768), "int16"}, {int64(32767), "int16"}, {int64(-2147483648), "int32"}, {int64(2147483647), "int32"},
				{uint16(50000), "uint16"}, {uint8(250), "uint8"}, {uint32(4000000000), "uint32"}, {int32(40000), "uint16"}, {uint16(200), "uint8"}}
			e := edge[r.Intn(len(edge))]
			env.Vals["p"] = e[0]
			a, b = e[1].(string)+"(p)", "p"
		}
		if r.Bool() {
			a, b = b, a
		}
		carrier = true
	}
	src = a + " " + ops[r.Intn(6)] + " " + b
	// direct oracle: the six operators on this pair must be mutually consistent
	res := map[string]string{}
	for _, op := range ops {
		res[op] = implEval(a+" "+op+" "+b, env)
	}
	val := func(op string) (bool, bool) {
		s := res[op]
		if strings.HasPrefix(s, "OK t") {
			return true, true
		}
		if strings.HasPrefix(s, "OK f") {
			return false, true
		}
		return false, false
	}
	if carrier {
		want := map[string]string{"==": "OK t", "!=": "OK f", "<": "OK f", "<=": "OK t", ">": "OK f", ">=": "OK t"}
		for _, op := range ops {
			if !strings.HasPrefix(res[op], want[op]) {
				return src, env, fmt.Sprintf("p = %T(%v): %s %s %s gives %s (the conversion is exact for this value: want %s)", env.Vals["p"], env.Vals["p"], a, op, b, res[op], want[op])
			}
		}
	}
	eq, okEq := val("==")
	ne, okNe := val("!=")
	if okEq != okNe {
		c11 = fmt.Sprintf("%s: == gives %s but != gives %s", src, res["=="], res["!="])
	} else if okEq && eq == ne {
		c11 = fmt.Sprintf("pair (%s, %s): == is %v and != is %v", a, b, eq, ne)
	}
	lt, okLt := val("<")
	gt, okGt := val(">")
	le, okLe := val("<=")
	ge, okGe := val(">=")
	if c11 == "" && okLt && okGt && okLe && okGe && okEq {
		nan := false
		for _, x := range []string{a, b} {
			if v, ok := env.Vals[x]; ok {
				if f, ok := v.(float64); ok && math.IsNaN(f) {
					nan = true
				}
			}
		}
		n := 0
		for _, x := range []bool{lt, eq, gt} {
			if x {
				n++
			}
		}
		if !nan && n != 1 {
			c11 = fmt.Sprintf("pair (%s=%v, %s=%v): < is %v, == is %v, > is %v (exactly one must hold)", a, env.Vals[a], b, env.Vals[b], lt, eq, gt)
		} else if !nan && (le != (lt || eq) || ge != (gt || eq)) {
			c11 = fmt.Sprintf("pair (%s=%v, %s=%v): <= is %v, >= is %v but < is %v, == is %v, > is %v", a, env.Vals[a], b, env.Vals[b], le, ge, lt, eq, gt)
		}
	}
	return
}

// ---- strlit family (C14) ----

var litAlphabet = []rune{'"', '\'', '\\', '{', '}', '$', '\n', '\t', 'a', 0x01, 0xe9, 0x4e2d, '`', ' '}

func litString(idx int) (string, bool) {
	// enumerate all strings of length 0..3 over litAlphabet
	n := len(litAlphabet)
	total := 1 + n + n*n + n*n*n
	if idx >= total {
		return "", false
	}
	if idx == 0 {
		return "", true
	}
	idx--
	for l := 1; l <= 3; l++ {
		c := 1
		for i := 0; i < l; i++ {
			c *= n
		}
		if idx < c {
			rs := make([]rune, l)
			for i := l - 1; i >= 0; i-- {
				rs[i] = litAlphabet[idx%n]
				idx /= n
			}
			return string(rs), true
		}
		idx -= c
	}
	return "", false
}

func quoteRaw(s string) (string, bool) {
	if strings.ContainsAny(s, "`\r") {
		return "", false
	}
	return "`" + s + "`", true
}

// alternative escape spellings for a rune inside "..." / '...'
// quoteAvoid: a character that must not occur raw in the literal text (the delimiter of the attribute the literal is
// embedded in); it is spelled \xNN
var quoteAvoid rune

func quoteWith(r *Rng, s string, q rune) string {
	var sb strings.Builder
	sb.WriteRune(q)
	for _, c := range s {
		switch {
		case c == quoteAvoid && c != 0 && c != q:
			fmt.Fprintf(&sb, `\x%02x`, c)
		case c == q:
			sb.WriteString(`\` + string(q))
		case c == '"' && q == '\'' && r.Chance(50):
			sb.WriteString(`\"`) // the other quote may be written escaped as well
		case c == '\\':
			sb.WriteString(`\\`)
		case c == '\n':
			sb.WriteString(`\n`)
		case c == '\r':
			sb.WriteString(`\r`)
		case (c == 7 || c == 8 || c == 11 || c == 12) && r.Chance(50):
			sb.WriteString(map[rune]string{7: `\a`, 8: `\b`, 11: `\v`, 12: `\f`}[c])
		case c < 0x20 || c == 0x7f:
			switch r.Intn(3) {
			case 0:
				fmt.Fprintf(&sb, `\x%02x`, c)
			case 1:
				fmt.Fprintf(&sb, `\%03o`, c)
			default:
				fmt.Fprintf(&sb, `\u%04x`, c)
			}
		case c == '\t':
			sb.WriteString(`\t`)
		default:
			if c > 0x7f && r.Chance(30) {
				if c > 0xffff {
					fmt.Fprintf(&sb, `\U%08x`, c)
				} else {
					fmt.Fprintf(&sb, `\u%04x`, c)
				}
			} else if c < 0x7f && c > 0x20 && r.Chance(5) {
				fmt.Fprintf(&sb, `\x%02x`, c)
			} else {
				sb.WriteRune(c)
			}
		}
	}
	sb.WriteRune(q)
	return sb.String()
}
