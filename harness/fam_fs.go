package main

import (
	"errors"
	"fmt"
	"io"
	"io/fs"
	"path"
	"regexp"
	"sort"
	"strings"
	"testing/fstest"

	"code.gopub.tech/tpl/html"
)

// fs family (C19): generated directory trees, every matcher kind, sub-directories, injected faults,
// on an instrumented fs.FS that records which files are opened and closed.

var errFS = errors.New("injected fs error")

type traceFS struct {
	inner  fstest.MapFS
	fault  map[string]int // full path -> 1 open fault, 2 read fault
	events []string
}

type traceFile struct {
	fs.File
	t    *traceFS
	name string
	bad  bool
	dir  bool
}

func (t *traceFS) Open(name string) (fs.File, error) {
	f, err := t.inner.Open(name)
	if err != nil {
		return nil, err
	}
	st, _ := f.Stat()
	if st != nil && st.IsDir() {
		if t.fault[name] == 3 { // an unreadable directory
			f.Close()
			return nil, &fs.PathError{Op: "open", Path: name, Err: errFS}
		}
		return f, nil
	}
	if t.fault[name] == 1 {
		f.Close()
		t.events = append(t.events, "openfail:"+name)
		return nil, &fs.PathError{Op: "open", Path: name, Err: errFS}
	}
	t.events = append(t.events, "open:"+name)
	return &traceFile{File: f, t: t, name: name, bad: t.fault[name] == 2}, nil
}
func (f *traceFile) Read(p []byte) (int, error) {
	if f.bad {
		return 0, errFS
	}
	return f.File.Read(p)
}
func (f *traceFile) Close() error {
	f.t.events = append(f.t.events, "close:"+f.name)
	return f.File.Close()
}

var _ io.Reader = (*traceFile)(nil)

var fsNames = []string{"a.html", "b.html", "index.html", "z.htm", "notes.txt", "a.html.bak", "x.tpl.html", "é.html", "A.html", "0.html", "frag.html", "layout.html", ".hidden.html", "..x.html", "a..html"}
var fsDirs = []string{"views", "views/partials", "admin", "views/a", "a", "z", "views/partials/deep", ".partials", "views/.d", "..d"} // names starting with dots are ordinary names

func genFsCase(r *Rng, out *outFiles) {
	files := map[string]string{}
	frags := map[string][]string{} // file -> fragment names it defines (at any depth)
	modes := map[string]fs.FileMode{}
	n := 1 + r.Intn(9)
	fragNames := []string{"frag.html", "views/frag.html", "f1", "box", "a.html"}
	for i := 0; i < n; i++ {
		dir := ""
		if r.Chance(60) {
			dir = r.Pick(fsDirs) + "/"
		}
		name := dir + r.Pick(fsNames)
		var content string
		delete(frags, name) // the same path may be generated twice: the later content wins
		switch c := r.Intn(100); {
		case c < 50:
			content = "<p>" + name + "</p>"
		case c < 60:
			fn := r.Pick(fragNames)
			content = fmt.Sprintf(`<div :define="%s">x</div><p>t</p>`, fn)
			frags[name] = []string{fn}
		case c < 75: // a definition nested in another definition (and one nested in an ordinary element)
			a, b, c2 := r.Pick(fragNames), r.Pick([]string{"in1", "in2", "box"}), r.Pick([]string{"deep", "f1"})
			content = fmt.Sprintf(`<div :define="%s">x<i :define="%s">y</i></div><ul><li><b :define="%s">z</b></li></ul>`, a, b, c2)
			frags[name] = []string{a, b, c2}
		case c < 80: // a raw-text element closed in another letter case, with a definition AFTER it
			fn := r.Pick(fragNames)
			rt := r.Pick([]string{"title", "script", "style", "textarea"})
			cs := func(x string) string {
				switch r.Intn(3) {
				case 0:
					return strings.ToUpper(x)
				case 1:
					return strings.ToUpper(x[:1]) + x[1:]
				}
				return x
			}
			content = fmt.Sprintf(`<%s>a<b</%s><div :define="%s">x</div>`, cs(rt), cs(rt), fn)
			frags[name] = []string{fn}
		case c < 85:
			content = `<p :text="${name}">` + "\n</p>"
		default:
			content = r.Pick([]string{"<p", "<!-->", `<p a="1" a="2">`, `<p :text="${">`, ""})
		}
		files[name] = content
		// an entry need not be a regular file to be a template: symlinked files (ConfigMap mounts, deploy links) and
		// other non-directory entries are visited, matched, opened and closed like any file
		modes[name] = 0
		if r.Chance(15) {
			modes[name] = []fs.FileMode{fs.ModeSymlink, fs.ModeIrregular, fs.ModeNamedPipe}[r.Intn(3)]
		}
	}
	mapfs := fstest.MapFS{}
	for k, v := range files {
		mapfs[k] = &fstest.MapFile{Data: []byte(v), Mode: modes[k]}
	}
	sub := ""
	if r.Chance(40) {
		sub = r.Pick([]string{"views", "views/partials", "admin"})
		if _, err := fs.Stat(mapfs, sub); err != nil {
			sub = ""
		}
	}
	kind := r.Intn(3)
	var matcher func(string) bool
	suffix := r.Pick([]string{".html", ".html", ".tpl.html", ".htm", ""})
	re := regexp.MustCompile(r.Pick([]string{`.*\.html$`, `^a`, `partials/`, `^[^/]*\.html$`, `\.html`}))
	switch kind {
	case 0:
		matcher = func(p string) bool { return strings.HasSuffix(p, suffix) }
	case 1:
		matcher = re.MatchString
	default:
		matcher = func(p string) bool { return strings.Contains(p, "a") && !strings.HasSuffix(p, ".txt") }
	}
	tfs := &traceFS{inner: mapfs, fault: map[string]int{}}
	names := make([]string, 0, len(files))
	for k := range files {
		names = append(names, k)
	}
	sort.Strings(names)
	if r.Chance(35) {
		tfs.fault[names[r.Intn(len(names))]] = 1 + r.Intn(2)
	}
	m := html.NewTplManager()
	if sub != "" {
		m.SetSubFS(sub)
	}
	var err error
	func() {
		defer func() {
			if x := recover(); x != nil {
				err = fmt.Errorf("PANIC %v", x)
			}
		}()
		switch kind {
		case 0:
			err = m.ParseWithSuffix(tfs, suffix)
		case 1:
			err = m.ParseWithRegexp(tfs, re)
		default:
			err = m.Parse(tfs, matcher)
		}
	}()
	// canonical result
	rel := func(full string) (string, bool) {
		if sub == "" {
			return full, true
		}
		if strings.HasPrefix(full, sub+"/") {
			return strings.TrimPrefix(full, sub+"/"), true
		}
		return "", false
	}
	var evs []string
	for _, e := range tfs.events {
		i := strings.Index(e, ":")
		p, _ := rel(e[i+1:])
		evs = append(evs, e[:i]+":"+encStr(p))
	}
	var line string
	if err != nil {
		class := "load"
		switch {
		case strings.HasPrefix(err.Error(), "PANIC"):
			class = err.Error()
		case errors.Is(err, errFS):
			class = "fs"
		case errors.Is(err, html.ErrDuplicatedTplName):
			class = "dup"
		}
		line = "ERR " + class
	} else {
		var tn []string
		for k := range m.Templates() {
			tn = append(tn, encStr(k))
		}
		sort.Strings(tn)
		line = "OK " + strings.Join(tn, " ")
	}
	line += " EV " + strings.Join(evs, " ")
	// direct oracles
	c19 := ""
	opened, closed := map[string]int{}, map[string]int{}
	for _, e := range tfs.events {
		i := strings.Index(e, ":")
		switch e[:i] {
		case "open":
			opened[e[i+1:]]++
		case "close":
			closed[e[i+1:]]++
		}
		if p, ok := rel(e[i+1:]); !ok || !matcher(p) {
			c19 = "a file that does not match was opened: " + e[i+1:]
		}
	}
	for p, k := range opened {
		if closed[p] != k {
			c19 = fmt.Sprintf("file %s opened %d time(s) but closed %d time(s)", p, k, closed[p])
		}
	}
	if err == nil {
		for _, full := range names {
			if p, ok := rel(full); ok && matcher(p) {
				if _, e2 := m.GetTemplate(p); e2 != nil {
					c19 = "matching file not registered under its relative path: " + p
				}
				if _, isFile := m.Files()[p]; !isFile {
					c19 = "matching file " + p + " is missing from Files()"
				}
				for _, fn := range frags[full] {
					if _, e2 := m.GetTemplate(fn); e2 != nil {
						c19 = fmt.Sprintf("fragment %q defined in the registered file %s is not registered", fn, p)
					}
				}
			}
		}
		for f := range m.Files() {
			found := false
			for _, full := range names {
				if p, ok := rel(full); ok && p == f && matcher(p) {
					found = true
				}
			}
			if !found {
				c19 = "a file was registered that does not match or does not exist: " + f
			}
		}
		defRe := regexp.MustCompile(`:define="([^"]*)"`)
		for f := range m.Files() {
			full := f
			if sub != "" {
				full = sub + "/" + f
			}
			for _, mm := range defRe.FindAllStringSubmatch(files[full], -1) {
				if _, isFile := m.Files()[mm[1]]; isFile {
					c19 = fmt.Sprintf("file %q and the fragment %q defined in %q share a name, but no duplicate-name error was returned", mm[1], mm[1], f)
				}
			}
		}
		for _, nn := range []string{"no/such/name", "100%.html", "50%off", "%v", "a%sb", "%!d(string=x)", ""} {
			if _, e2 := m.GetTemplate(nn); !errors.Is(e2, html.ErrTplNotFound) {
				c19 = fmt.Sprintf("lookup of the unregistered name %q did not fail with ErrTplNotFound: %v", nn, e2)
			}
		}
		if len(m.Files()) > 0 {
			for f := range m.Files() {
				if e2 := m.Add(f, strings.NewReader("x")); !errors.Is(e2, html.ErrDuplicatedTplName) {
					c19 = "second registration of " + f + " did not fail with ErrDuplicatedTplName"
				}
				break
			}
		}
		for p, kf := range tfs.fault {
			if rp, ok := rel(p); ok && matcher(rp) && kf > 0 {
				c19 = "an injected file-system error on a matching file was not returned"
			}
		}
	}
	// case line for the model: files with fault and match flags (the matcher is an oracle)
	var fe []string
	for _, full := range names {
		mt := 0
		if p, ok := rel(full); ok && matcher(p) {
			mt = 1
		}
		fe = append(fe, fmt.Sprintf("%s~%s~%d~%d", encStr(full), encStr(files[full]), tfs.fault[full], mt))
	}
	out.count(fmt.Sprintf("matcher%d", kind))
	if sub != "" {
		out.count("subdir")
	}
	if len(tfs.fault) > 0 {
		out.count("fault")
	}
	// errors of the WALK itself (not of a file): a configured sub-directory that does not exist, a directory that cannot
	// be read.  They must be returned, never swallowed (a second manager on the same tree; outside the model)
	if c19 == "" && r.Chance(25) {
		out.count("walk-error-probe")
		probe := func(what string, sub2 string, faultDir string, wantIs error) {
			t2 := &traceFS{inner: mapfs, fault: map[string]int{}}
			m2 := html.NewTplManager()
			if sub2 != "" {
				m2.SetSubFS(sub2)
			}
			if faultDir != "" {
				t2.fault[faultDir] = 3
			}
			var e2 error
			func() {
				defer func() {
					if x := recover(); x != nil {
						e2 = fmt.Errorf("PANIC %v", x)
					}
				}()
				e2 = m2.Parse(t2, func(string) bool { return false }) // no file matches: the only possible error is the walk's
			}()
			switch {
			case e2 == nil:
				c19 = what + ": Parse returned nil (the error of the walk was swallowed)"
			case strings.HasPrefix(e2.Error(), "PANIC"):
				c19 = what + ": " + e2.Error()
			case !errors.Is(e2, wantIs):
				c19 = fmt.Sprintf("%s: the returned error does not wrap the file system's error: %v", what, e2)
			}
		}
		probe("sub-directory 'nosuchdir' does not exist", "nosuchdir", "", fs.ErrNotExist)
		var dirs []string
		seen := map[string]bool{}
		for _, full := range names {
			for d := path.Dir(full); d != "."; d = path.Dir(d) {
				if !seen[d] {
					seen[d] = true
					dirs = append(dirs, d)
				}
			}
		}
		sort.Strings(dirs)
		if len(dirs) > 0 && c19 == "" {
			d := dirs[r.Intn(len(dirs))]
			probe("directory "+d+" cannot be read", "", d, errFS)
		}
	}
	// "files are resolved by name across the whole manager" (C07): the name of a file is its relative path
	c07 := ""
	if strings.Contains(c19, "not registered under its relative path") || strings.Contains(c19, "is not registered") || strings.Contains(c19, "is missing from Files()") {
		c07 = c19
	}
	out.put(fmt.Sprintf("fs %s %s", encStr(sub), strings.Join(fe, "|")), line, verdict("C19", c19), verdict("C07", c07), verdict("C08", panicOnly(strings.TrimPrefix(line, "ERR "))))
}
