package main

import (
	"errors"
	"fmt"
	"reflect"
	"strconv"
	"strings"

	"code.gopub.tech/tpl/exp"
)

// data graph for member / index / slice access (C13)
func dataEnv(env *Env) {
	add := func(n string, v any) { env.Names = append(env.Names, n); env.Vals[n] = v }
	add("xs", []any{int64(1), "two", 3.5, nil, []any{int64(7), int64(8)}, map[string]any{"k": int64(9)}})
	add("ns", []int{10, 20, 30})
	add("arr", [3]int{1, 2, 3})
	add("emp", []any{})
	add("m", map[string]any{"a": int64(1), "b": "bee", "nul": nil, "sub": map[string]any{"x": int64(5)}, "list": []any{int64(1), int64(2)}, "t2": T2{X: 3}})
	add("st", T1{Name: "Ann", Age: 30, hidden: 1, Inner: &T2{X: 4, M: map[string]any{"q": int64(1)}}, Tags: []string{"a", "b"}})
	add("pt", &T1{Name: "Bob", Age: 41, Tags: []string{"x"}})
	add("np", (*T1)(nil))
	add("t3", T3{T2{X: 6}, 7})
	add("p4", &T4{N: 1})
	add("q4", &T4{N: 10})
	add("v4", T4{N: 5}) // a value: the pointer-receiver methods are not in its method set
	add("t2b", T2{X: 77})
	add("nilv", nil)
	big := make([]any, 2, 5)
	big[0], big[1] = int64(100), int64(200)
	add("big", big)
}

// native walk: one access step on a Go value (the reference for C13)
func nativeField(v any, name string) (any, string) {
	if v == nil {
		return nil, "nosuch"
	}
	rv := reflect.ValueOf(v)
	if m := rv.MethodByName(name); m.IsValid() {
		return m.Interface(), ""
	}
	if rv.Kind() == reflect.Pointer {
		if rv.IsNil() {
			return nil, "nosuch"
		}
		rv = rv.Elem()
	}
	switch rv.Kind() {
	case reflect.Struct:
		sf, ok := rv.Type().FieldByName(name)
		if !ok {
			return nil, "nosuch"
		}
		if !sf.IsExported() {
			return nil, "err"
		}
		return rv.FieldByIndex(sf.Index).Interface(), ""
	case reflect.Map:
		if rv.Type().Key().Kind() != reflect.String {
			return nil, "err"
		}
		e := rv.MapIndex(reflect.ValueOf(name))
		if !e.IsValid() {
			return nil, "nosuch"
		}
		return e.Interface(), ""
	case reflect.Slice, reflect.Array:
		i, err := strconv.ParseInt(name, 10, 64)
		if err != nil {
			return nil, "err"
		}
		if i < 0 {
			i += int64(rv.Len())
		}
		if i < 0 || i >= int64(rv.Len()) {
			return nil, "err"
		}
		return rv.Index(int(i)).Interface(), ""
	}
	return nil, "nosuch"
}

type pathGen struct {
	r   *Rng
	env *Env
}

// genPath builds an access path, tracking the native value: returns text, expected value, expected error class.
func (g *pathGen) genPath() (string, any, string) {
	bases := []string{"xs", "ns", "arr", "emp", "m", "st", "pt", "np", "t3", "big", "s", "i", "p4", "q4", "v4", "t2b", "p4", "q4"}
	base := g.r.Pick(bases)
	text := base
	cur := g.env.Vals[base]
	class := ""
	steps := 1 + g.r.Intn(4)
	for k := 0; k < steps && class == ""; k++ {
		var rv reflect.Value
		if cur != nil {
			rv = reflect.ValueOf(cur)
			if rv.Kind() == reflect.Pointer && !rv.IsNil() {
				rv = rv.Elem()
			}
		}
		valid := g.r.Chance(75)
		kind := reflect.Invalid
		if rv.IsValid() {
			kind = rv.Kind()
		}
		switch kind {
		case reflect.Map:
			keys := rv.MapKeys()
			name := "zz"
			if valid && len(keys) > 0 {
				name = keys[g.r.Intn(len(keys))].String()
			}
			switch g.r.Intn(3) {
			case 0:
				text += "." + name
			case 1:
				text += `["` + name + `"]`
			default:
				text += `['` + name + `']`
			}
			cur, class = nativeField(cur, name)
		case reflect.Slice, reflect.Array:
			n := rv.Len()
			if g.r.Chance(4) { // a bound (or index) that is not an integer: always an error, never a value
				bad := g.r.Pick([]string{"1.5", "'1'", "nilv", "t", "s", "1.0", "xs"})
				text += g.r.Pick([]string{"[" + bad + ":]", "[:" + bad + "]", "[0:" + bad + "]", "[" + bad + ":1:2]", "[0:" + bad + ":2]", "[0:1:" + bad + "]"})
				cur, class = nil, "err"
				break
			}
			if g.r.Chance(30) { // slicing
				lo, hi := g.r.Intn(n+1), g.r.Intn(n+2)
				if !valid {
					lo, hi = g.r.Intn(n+3)-1, g.r.Intn(n+4)-1
				}
				form := g.r.Intn(4)
				var los, his string
				l2, h2 := 0, n
				if form&1 == 0 {
					los, l2 = strconv.Itoa(lo), lo
				}
				if form&2 == 0 {
					his, h2 = strconv.Itoa(hi), hi
				}
				three := g.r.Chance(15)
				mx := rv.Cap()
				if kind == reflect.Array {
					mx = n
				}
				if three {
					his, h2 = strconv.Itoa(hi), hi
					mx = hi + g.r.Intn(3)
					text += "[" + los + ":" + his + ":" + strconv.Itoa(mx) + "]"
				} else {
					text += "[" + los + ":" + his + "]"
				}
				capv := n
				if kind == reflect.Slice {
					capv = rv.Cap()
				}
				if kind == reflect.Array || l2 < 0 || l2 > h2 || h2 > mx || mx > capv {
					cur, class = nil, "err"
				} else if three {
					cur = rv.Slice3(l2, h2, mx).Interface()
				} else {
					cur = rv.Slice(l2, h2).Interface()
				}
			} else {
				idx := 0
				if n > 0 {
					idx = g.r.Intn(2*n) - n
				}
				if !valid {
					idx = g.r.Pick2(n+g.r.Intn(2), -n-1-g.r.Intn(2))
				}
				if g.r.Chance(15) && idx == 7 {
					text += "[i]"
				} else if g.r.Chance(10) {
					text += "." + strconv.Itoa(idx) // not an identifier: syntax error expected at parse
					return text, nil, "parse"
				} else {
					text += "[" + strconv.Itoa(idx) + "]"
				}
				cur, class = nativeField(cur, strconv.Itoa(idx))
			}
		case reflect.Struct:
			var names []string
			for _, f := range reflect.VisibleFields(rv.Type()) {
				if !f.Anonymous {
					names = append(names, f.Name)
				}
			}
			name := g.r.Pick([]string{"Zzz", "name", "x"})
			if valid {
				name = names[g.r.Intn(len(names))]
			}
			if g.r.Chance(20) { // method
				name = g.r.Pick([]string{"Hello", "PtrM", "GetX", "Twice", "Nope", "Next", "Self", "Next", "Self", "Load", "Try", "Try"})
				orig := reflect.ValueOf(cur)
				m := orig.MethodByName(name)
				if !m.IsValid() {
					text += "." + name + "()"
					if _, c := nativeField(cur, name); c != "" {
						cur, class = nil, c
					} else {
						cur, class = nil, "err" // a field, not a function
					}
					break
				}
				if name == "Twice" {
					text += `.Twice("ab")`
					cur = "abab"
				} else {
					text += "." + name + "()"
					out := m.Call(nil)
					cur = out[0].Interface()
					if len(out) == 2 && !out[1].IsNil() { // (value, error) with a non-nil error: the call fails with that cause
						cur, class = nil, errClass(out[1].Interface().(error))
					}
				}
				break
			}
			if g.r.Chance(30) {
				text += `["` + name + `"]`
			} else if g.r.Chance(10) {
				text += "?." + name
			} else {
				text += "." + name
			}
			cur, class = nativeField(cur, name)
		default: // nil, nil pointer, scalars
			name := g.r.Pick([]string{"Name", "x", "Hello", "PtrM"})
			if g.r.Chance(20) {
				// slicing anything but an array or slice (strings included) is an error, never a value
				text += g.r.Pick([]string{"[0:1]", "[:1]", "[0:]", "[:]", "[0:1:1]"})
				cur, class = nil, "err"
				break
			}
			if g.r.Chance(30) {
				text += "[0]"
				name = "0"
			} else {
				text += "." + name
			}
			cur, class = nativeField(cur, name)
		}
	}
	return text, cur, class
}

func (r *Rng) Pick2(a, b int) int {
	if r.Bool() {
		return a
	}
	return b
}

func errClass(err error) string {
	switch {
	case errors.Is(err, sentinels[1]):
		return "user1"
	case errors.Is(err, sentinels[2]):
		return "user2"
	case errors.Is(err, sentinels[3]):
		return "user3"
	case errors.Is(err, exp.ErrNoSuchValue):
		return "nosuch"
	}
	return "err"
}

func encResult(ve *valEnc, v any) string {
	if v != nil && reflect.ValueOf(v).Kind() == reflect.Func {
		return "F"
	}
	return ve.enc(v)
}

// implEval parses and evaluates src against env (+ user functions); returns the canonical line.
func implEval(src string, env *Env) (out string) {
	l := &CallLog{}
	defer func() {
		if x := recover(); x != nil {
			out = fmt.Sprintf("PANIC %v", x)
		}
	}()
	data := map[string]any{}
	for k, v := range env.Vals {
		data[k] = v
	}
	for k, v := range userFuncs(l) {
		data[k] = v
	}
	tree, err := exp.ParseCode(src)
	if err != nil {
		return "ERR parse"
	}
	v, err := exp.Evaluate(exp.NewPos(1, 1), tree, exp.NewScope(data))
	lg := " LOG " + strings.Join(l.entries, ",")
	if err != nil {
		return "ERR " + errClass(err) + lg
	}
	return "OK " + encResult(newValEnc(), v) + lg
}

// implEvalRoot evaluates src with root (any Go value) as the whole data
func implEvalRoot(src string, root any) (out string) {
	defer func() {
		if x := recover(); x != nil {
			out = fmt.Sprintf("PANIC %v", x)
		}
	}()
	tree, err := exp.ParseCode(src)
	if err != nil {
		return "ERR parse"
	}
	v, err := exp.Evaluate(exp.NewPos(1, 1), tree, exp.NewScope(root))
	if err != nil {
		return "ERR " + errClass(err) + " LOG "
	}
	return "OK " + encResult(newValEnc(), v) + " LOG "
}

func encEnv(env *Env) string {
	ve := newValEnc()
	var parts []string
	for _, n := range env.Names {
		parts = append(parts, encRunes(n)+"="+ve.enc(env.Vals[n]))
	}
	for n, id := range userFuncIDs {
		_ = n
		_ = id
	}
	names := make([]string, 0, len(userFuncIDs))
	for n := range userFuncIDs {
		names = append(names, n)
	}
	sortStrings(names)
	for _, n := range names {
		parts = append(parts, fmt.Sprintf("%s=F%d()", encRunes(n), userFuncIDs[n]))
	}
	return "M(" + strings.Join(parts, ";") + ")"
}

func refLine(v any, ok bool, env *Env) string {
	lg := " LOG " + strings.Join(env.Log, ",")
	if !ok {
		c := env.ErrClass
		if c == "" {
			c = "err"
		}
		return "ERR " + c + lg
	}
	return "OK " + encResult(newValEnc(), v) + lg
}
