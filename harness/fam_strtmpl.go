package main

import (
	"fmt"
	stdhtml "html"
	"strings"
)

// strtmpl family (C14): string literals embedded in ${} blocks of :text / dynamic attributes
// delimited by either quote.

func genStrTmplCase(r *Rng, out *outFiles, idx int) {
	var s string
	if e, ok := litString(idx / 3); ok {
		s = e
		out.count("exhaustive")
	} else {
		k := 4 + r.Intn(8)
		pool := append([]rune{}, litAlphabet...)
		pool = append(pool, 'b', 'x', '0', 0x1F600, '<', '>', '&', ';', 0xFFFD, 0xFEFF, 0x10FFFF, 0xE000, 0xD7FF, 0x80, 0xA0, 0x7FF, 0x800, 0xFFFF) // U+FFFD written raw is an ordinary character
		for j := 0; j < k; j++ {
			s += string(pool[r.Intn(len(pool))])
		}
		if r.Chance(20) { // text that LOOKS like a character reference is ordinary text inside a literal
			at := r.Intn(len([]rune(s)) + 1)
			rs := []rune(s)
			s = string(rs[:at]) + r.Pick([]string{"&amp;", "&lt;", "&gt;", "&#65;", "&#x41;", "&eacute;", "&amp", "&lt", "&nbsp;", "&#39;x", "&amp;amp;"}) + string(rs[at:])
		}
		out.count("random")
	}
	var lit string
	switch idx % 3 {
	case 0:
		lit = quoteWith(r, s, '"')
	case 1:
		lit = quoteWith(r, s, '\'')
	default:
		l, ok := quoteRaw(s)
		if !ok {
			l = quoteWith(r, s, '\'')
		}
		lit = l
	}
	// an attribute delimiter that does not occur raw in the literal
	delim := ""
	for _, d := range []string{`"`, `'`} {
		if !strings.Contains(lit, d) {
			delim = d
		}
	}
	if delim == "" {
		// both quote characters occur raw: re-spell the literal so that one of them is escaped away
		if idx%2 == 0 {
			quoteAvoid = '\''
			lit = quoteWith(r, s, '"')
			quoteAvoid = 0
			delim = `'`
		} else {
			quoteAvoid = '"'
			lit = quoteWith(r, s, '\'')
			quoteAvoid = 0
			delim = `"`
		}
		if strings.Contains(lit, delim) {
			return
		}
	}
	cfg := tmplCfg{ap: ":", tp: "t:", global: map[string]any{}}
	host := r.Pick([]string{"p", "p", "title", "div"})
	var src, want string
	esc := stdhtml.EscapeString(s)
	switch r.Intn(3) {
	case 0:
		src = "<" + host + " :text=" + delim + "${" + lit + "}" + delim + "></" + host + ">"
		want = "<" + host + ">" + esc + "</" + host + ">"
	case 1: // the literal's value IS the attribute value: nothing may be trimmed at its edges
		src = "<" + host + " :title=" + delim + "${" + lit + "}" + delim + "></" + host + ">"
		want = "<" + host + ` title="` + esc + `"></` + host + ">"
	default:
		src = "<" + host + " :title=" + delim + "a${" + lit + "}b" + delim + "></" + host + ">"
		want = "<" + host + ` title="a` + esc + `b"></` + host + ">"
	}
	files := [][2]string{{"s.html", src}}
	runs := []tmplRun{{data: map[string]any{}, budget: -1}}
	line, rs := implRender(cfg, files, "s.html", runs)
	c14 := ""
	if rs == nil {
		c14 = fmt.Sprintf("template %q with the literal of %q does not load: %s", src, s, line)
	} else if rs[0].class != "" || rs[0].out != want {
		c14 = fmt.Sprintf("template %q: rendered %q (%s), expected %q", src, rs[0].out, rs[0].class, want)
	}
	out.put(renderCase(cfg, files, "s.html", runs), line, verdict("C14", c14), verdict("C08", panicOnly(line)))
}
