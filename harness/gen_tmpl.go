package main

import (
	"fmt"
	"strconv"
	"strings"
)

// Template generator: a "soup" of elements carrying random directive subsets (checked against the
// model and by metamorphic oracles) and "probe" templates whose expected output is known by
// construction (direct property oracles).

type TAttr struct {
	Name  string
	Value *string // raw value including quotes, nil = no value
	Ctl   bool    // control directive (with/cond/range/remove/text/raw/insert/replace/define)
}
type TNode struct {
	Kind     string // text elem comment cdata
	Text     string
	Name     string
	Attrs    []TAttr
	Children []*TNode
	Void     bool
	Self     bool
	Tight    bool // self-closing written without a blank before the slash: <name/>, <name a=b/>
	CloseAs  string
}

func sp(s string) *string { return &s }

type tmplGen struct {
	r       *Rng
	ap, tp  string
	k       int64
	frags   []string
	strVars []string // in-scope names holding strings/ints that may be printed
	depth   int
	n       int
}

func (g *tmplGen) q(s string) string { // quote an attribute value with a delimiter it does not contain
	if !strings.Contains(s, `"`) && (g.r.Chance(70) || strings.Contains(s, `'`)) {
		return `"` + s + `"`
	}
	if !strings.Contains(s, `'`) {
		return `'` + s + `'`
	}
	return `"` + strings.ReplaceAll(s, `"`, "") + `"`
}

func (g *tmplGen) nextK() int64 { g.k++; return g.k }

// par writes the WHOLE expression of a block in parentheses now and then: ${(a + b)} is the expression a + b
func (g *tmplGen) par(e string) string {
	switch c := g.r.Intn(100); {
	case c < 8:
		return "(" + e + ")"
	case c < 11:
		return "( " + e + " )"
	case c < 13:
		return "((" + e + "))"
	}
	return e
}

func (g *tmplGen) printable() string {
	return g.par(g.printable0())
}

func (g *tmplGen) printable0() string {
	if len(g.strVars) > 0 && g.r.Chance(75) {
		return g.strVars[g.r.Intn(len(g.strVars))]
	}
	if g.r.Chance(3) {
		return g.r.Pick([]string{"zz", "fail()", "xs[9]", "boom()", "st.hidden", "nilv.x"})
	}
	return g.r.Pick([]string{"s1", "s2", "g1", "num", "name", "st.Name", "m1.k", "one()", "recs(" + strconv.FormatInt(g.nextK(), 10) + ", s1)", "len(xs)", "1+2", "'lit'", "nilv", "s1", "s2", "st.Tags[0]", "1.5", "num / 2.0", "0.1 + 0.2", "1e21", "100000.0 * 10", "-0.0", "num * 1e-7", "p4.Next()", "q4.Next()", "q4.Self()", "p4.Self()", "true", "false", "true", "p4.Try()", "q4.Try()", "p4.Try()", "st.Load()", "t3.X", "t3.X", "t3.GetX()", "t3.Y", "t3.X + t3.Y"})
}

func (g *tmplGen) mixture() string {
	if g.r.Chance(4) {
		return "" // an empty directive value: the empty string, not its quotes
	}
	var sb strings.Builder
	parts := 1 + g.r.Intn(3)
	for i := 0; i < parts; i++ {
		if g.r.Chance(40) {
			sb.WriteString(g.r.Pick([]string{"a", "x y", "-", "é", "1 < 2", "&", "$", "{", "}", " ", ":", "中", "%", "100%", "%d", "%s%%", "%!v", "%[1]s"}))
		} else {
			sb.WriteString("${" + g.printable() + "}")
		}
	}
	return sb.String()
}

func (g *tmplGen) condValue() string {
	k := g.nextK()
	switch g.r.Intn(12) {
	case 0:
		return "true"
	case 1:
		return g.r.Pick([]string{"false", "yes", "", "True", " true"})
	case 2:
		return "${" + g.par("c"+strconv.Itoa(1+g.r.Intn(4))) + "}"
	case 3:
		return "${" + g.par("num > 1 && c1") + "}"
	case 4:
		if g.r.Chance(20) {
			return "${zz}"
		}
		return "${" + g.par("!c2") + "}"
	default:
		return "${" + g.par(fmt.Sprintf("recb(%d, c%d)", k, 1+g.r.Intn(4))) + "}"
	}
}

var rangeHeaders = []string{": xs", " :xs", "xs", "i : xs", "i, x : xs", ", x : xs", "_, x : xs", "i, x : ident(xs)", "i, x : ns", "k, v : m1", "i, b : word", "i,x:xs", " i , x : xs ", "i, x : emp", "i, x : st.Tags", "i, i : xs", "i, x : xs", "i, x : xs"}
var badRangeHeaders = []string{"x : num", "i, x : zz", "x : xs[1:]", "i, x : nilv", "i, x : fail()", ""}

func (g *tmplGen) staticAttr(used map[string]bool) TAttr {
	n := g.r.Pick([]string{"id", "class", "title", "href", "data-a", "x", "lang", "viewBox", "onClick", "viewBox"})
	for used[n] {
		n += "z"
	}
	used[n] = true
	switch g.r.Intn(4) {
	case 0:
		return TAttr{Name: n}
	case 1:
		return TAttr{Name: n, Value: sp(g.r.Pick([]string{"a", "b1", "x-y"}))}
	default:
		return TAttr{Name: n, Value: sp(g.q(g.r.Pick([]string{"v", "a b", "", "q&amp;r", "1<2"})))}
	}
}

func shuffle(r *Rng, as []TAttr) {
	for i := len(as) - 1; i > 0; i-- {
		j := r.Intn(i + 1)
		as[i], as[j] = as[j], as[i]
	}
}

// elem builds one element with a random directive subset. cond="" | "if" | "else-if"... is forced by chains.
func (g *tmplGen) elem(cond string) *TNode {
	g.n++
	e := &TNode{Kind: "elem"}
	switch c := g.r.Intn(100); {
	case c < 70:
		e.Name = g.r.Pick([]string{"div", "p", "span", "li", "ul", "b", "DIV"})
	case c < 78:
		e.Name = g.r.Pick([]string{"br", "img", "input", "IMG", "Input", "BR"}) // void whatever the spelling
		e.Void = true
	case c < 86:
		e.Name = g.r.Pick([]string{"p", "span", "i"})
		e.Self = true
	case c < 94:
		e.Name = g.tp + "block"
		if g.r.Chance(20) {
			e.Name = strings.ToUpper(e.Name)
		}
		if g.r.Chance(25) { // a self-closing block element: <t:block/>, <t:block :insert="f" />
			e.Self = true
		}
	default:
		e.Name = g.r.Pick([]string{"title", "textarea", "script"})
	}
	raw := e.Name == "title" || e.Name == "textarea" || e.Name == "script"
	used := map[string]bool{}
	var attrs []TAttr
	saved := len(g.strVars)
	if g.r.Chance(20) {
		v := g.r.Pick([]string{"v1", "v2", "s1", "num", "v1", "v2", "true", "false", "len"}) // built-in names can be shadowed too
		val := v + " := ${" + g.printable() + "}"
		if g.r.Chance(25) {
			val += g.r.Pick([]string{"; ", ";", " ; "}) + "w := ${'W'}"
		}
		if g.r.Chance(5) {
			val = g.r.Pick([]string{"v1 = ${1}", "${1}", "v1 := ${1} v2 := ${2}", "v1 :=", "",
				"v1 := ${1}; ; w := ${2}", "${1} ${2}", "v1 := ${1} ${2}", " ; v1 := ${1}", "v1 := ${1};", "v1:=${1};v1:=${2}", ":= ${1}", "v1 := ${1};:= ${2}",
				"v1 := ${1}${2}", "v1 := x${1}", "v1 := ${1} ; w", "  v1  :=  ${ 1 }  ;  w:=${v1+1}"})
		}
		attrs = append(attrs, TAttr{Name: g.ap + "with", Value: sp(g.q(val)), Ctl: true})
		g.strVars = append(g.strVars, v)
	}
	if cond != "" {
		if cond == "else" && g.r.Chance(60) {
			attrs = append(attrs, TAttr{Name: g.ap + "else", Ctl: true})
		} else if g.r.Chance(1) {
			attrs = append(attrs, TAttr{Name: g.ap + cond, Ctl: true}) // no value: error expected
		} else {
			attrs = append(attrs, TAttr{Name: g.ap + cond, Value: sp(g.q(g.condValue())), Ctl: true})
		}
	}
	if g.r.Chance(20) {
		h := g.r.Pick(rangeHeaders)
		if g.r.Chance(6) {
			h = g.r.Pick(badRangeHeaders)
		}
		attrs = append(attrs, TAttr{Name: g.ap + "range", Value: sp(g.q(h)), Ctl: true})
		if strings.Contains(h, "x") {
			g.strVars = append(g.strVars, "x")
		}
		if strings.Contains(h, "i") {
			g.strVars = append(g.strVars, "i")
		}
	}
	if g.r.Chance(15) {
		mode := g.r.Pick([]string{"all", "body", "tag", "all-but-first", "all-but-first", "none", "ALL"})
		attrs = append(attrs, TAttr{Name: g.ap + "remove", Value: sp(g.q(mode)), Ctl: true})
	}
	if g.r.Chance(40) {
		switch g.r.Intn(6) {
		case 0, 1, 2:
			attrs = append(attrs, TAttr{Name: g.ap + "text", Value: sp(g.q(g.mixture())), Ctl: true})
		case 3:
			attrs = append(attrs, TAttr{Name: g.ap + "raw", Value: sp(g.q("${" + g.r.Pick([]string{"r1", "'<b>'", "s1"}) + "}")), Ctl: true})
		default:
			if len(g.frags) > 0 && !raw {
				name := g.frags[g.r.Intn(len(g.frags))]
				if g.r.Chance(20) {
					name = "${fname}"
				}
				hasRange := false
				for _, a := range attrs {
					if a.Name == g.ap+"range" {
						hasRange = true
					}
				}
				if !hasRange && g.r.Chance(10) { // a computed name that differs from item to item
					attrs = append(attrs, TAttr{Name: g.ap + "range", Value: sp(g.q("_, fx : fnames")), Ctl: true})
					name = "${fx}"
				}
				if g.r.Chance(5) {
					name = "nosuch"
				}
				attrs = append(attrs, TAttr{Name: g.ap + g.r.Pick([]string{"insert", "replace"}), Value: sp(g.q(name)), Ctl: true})
			}
		}
	}
	nd := 0
	if g.r.Chance(30) {
		nd = 1 + g.r.Intn(2)
	}
	for i := 0; i < nd; i++ {
		n := g.r.Pick([]string{"title", "class", "href", "data-a", "value", "viewBox", "onClick", "checked", "disabled", "selected", "open", "hidden", "Checked"}) // boolean attributes of HTML are ordinary names here
		if g.r.Chance(8) {
			// directive names are case-sensitive: these are ordinary dynamic attributes
			n = g.r.Pick([]string{"Text", "TEXT", "Raw", "If", "Range", "Remove", "With", "Insert"})
		}
		if used[g.ap+n] {
			continue
		}
		used[g.ap+n] = true
		attrs = append(attrs, TAttr{Name: g.ap + n, Value: sp(g.q(g.mixture()))})
	}
	ns := g.r.Intn(3)
	for i := 0; i < ns; i++ {
		attrs = append(attrs, g.staticAttr(used))
	}
	shuffle(g.r, attrs)
	e.Attrs = attrs
	if e.Self && len(attrs) == 0 && g.r.Chance(60) {
		e.Tight = true // only without attributes: otherwise the slash would become part of the last attribute
	}
	if !e.Void && !e.Self && !raw && g.depth < 4 {
		g.depth++
		e.Children = g.siblings(g.r.Intn(4))
		g.depth--
	} else if raw && g.r.Chance(50) {
		e.Children = []*TNode{{Kind: "text", Text: g.r.Pick([]string{"a<b", "x", "1 < 2 && c"})}}
	}
	g.strVars = g.strVars[:saved]
	return e
}

func (g *tmplGen) textNode() *TNode {
	return &TNode{Kind: "text", Text: g.r.Pick([]string{"\n  ", " ", "\n", "t", "hello ", " x ", "&amp;", "a > b", "\n\t", "${s1}", "é中"})}
}

func (g *tmplGen) siblings(n int) []*TNode {
	var out []*TNode
	for i := 0; i < n && g.n < 40; i++ {
		switch c := g.r.Intn(100); {
		case c < 30:
			out = append(out, g.textNode())
		case c < 36:
			out = append(out, &TNode{Kind: "comment", Text: g.r.Pick([]string{" c ", "x", " /* hidden */ ", "/**/", " /* a */ b ", "/* ${s1} */", "- /* n */ -", "! /* n */", " /* n */ >", "\n/* multi\nline */\n"})})
		case c < 39:
			out = append(out, &TNode{Kind: "cdata", Text: "a>b"})
		case c < 60: // a conditional chain
			k := 1 + g.r.Intn(4)
			out = append(out, g.elem("if"))
			for j := 1; j < k; j++ {
				if g.r.Chance(50) {
					out = append(out, &TNode{Kind: "text", Text: g.r.Pick([]string{"\n", " ", "\n  ", "mid"})})
				}
				if g.r.Chance(10) {
					out = append(out, &TNode{Kind: "comment", Text: " between "})
				}
				out = append(out, g.elem(g.r.Pick([]string{"else-if", "elseif", "elif"})))
			}
			if g.r.Chance(60) {
				if g.r.Chance(40) {
					out = append(out, &TNode{Kind: "text", Text: "\n"})
				}
				out = append(out, g.elem("else"))
			}
		case c < 61: // orphan else / chain broken by an element
			if g.r.Bool() {
				out = append(out, g.elem(""))
			}
			out = append(out, g.elem(g.r.Pick([]string{"else", "elif"})))
		default:
			out = append(out, g.elem(""))
			if g.r.Chance(40) {
				out = append(out, &TNode{Kind: "text", Text: g.r.Pick([]string{"\n", "\n  ", " ", "\r\n", "\r", "\r\n  "})})
			}
		}
	}
	return out
}

func printAttrs(as []TAttr) string {
	var sb strings.Builder
	for _, a := range as {
		sb.WriteString(" " + a.Name)
		if a.Value != nil {
			sb.WriteString("=" + *a.Value)
		}
	}
	return sb.String()
}

func printNodes(ns []*TNode) string {
	var sb strings.Builder
	for _, n := range ns {
		switch n.Kind {
		case "text":
			sb.WriteString(n.Text)
		case "comment":
			sb.WriteString("<!--" + n.Text + "-->")
		case "cdata":
			sb.WriteString("<![CDATA[" + n.Text + "]]>")
		default:
			if n.Self && n.Tight {
				sb.WriteString("<" + n.Name + printAttrs(n.Attrs) + "/>")
			} else if n.Self {
				sb.WriteString("<" + n.Name + printAttrs(n.Attrs) + " />")
			} else if n.Void {
				sb.WriteString("<" + n.Name + printAttrs(n.Attrs) + ">")
			} else {
				sb.WriteString("<" + n.Name + printAttrs(n.Attrs) + ">" + printNodes(n.Children) + "</" + n.Name + ">")
			}
		}
	}
	return sb.String()
}

// reorder control attributes of every element (dynamic and static attributes keep their relative order)
func reorderCtl(r *Rng, ns []*TNode) {
	for _, n := range ns {
		if n.Kind != "elem" {
			continue
		}
		var ctl []TAttr
		var pos []int
		for i, a := range n.Attrs {
			if a.Ctl {
				ctl = append(ctl, a)
				pos = append(pos, i)
			}
		}
		shuffle(r, ctl)
		// also move them to random positions among the others
		var rest []TAttr
		for _, a := range n.Attrs {
			if !a.Ctl {
				rest = append(rest, a)
			}
		}
		out := make([]TAttr, 0, len(n.Attrs))
		ri := 0
		for _, c := range ctl {
			k := 0
			if len(rest)-ri > 0 {
				k = r.Intn(len(rest) - ri + 1)
			}
			out = append(out, rest[ri:ri+k]...)
			ri += k
			out = append(out, c)
		}
		out = append(out, rest[ri:]...)
		n.Attrs = out
		reorderCtl(r, n.Children)
	}
}

// TmplSet: files (name -> source), the template to render
type TmplSet struct {
	Files    [][2]string
	Main     string
	MainTree []*TNode
	FragTree map[string][]*TNode
	FragFile map[string]string
}

func (g *tmplGen) genSet() *TmplSet {
	ts := &TmplSet{Main: "main.html", FragTree: map[string][]*TNode{}, FragFile: map[string]string{}}
	nf := g.r.Intn(4)
	for i := 0; i < nf; i++ {
		g.frags = append(g.frags, "f"+strconv.Itoa(i+1))
	}
	// fragment bodies (may call earlier-numbered fragments only: acyclic)
	all := g.frags
	for i, f := range all {
		g.frags = all[:i]
		if g.r.Chance(6) {
			g.frags = all[:i+1] // the fragment may include itself: must end with an error, not a crash
		}
		g.depth = 2
		g.n = 20
		ts.FragTree[f] = g.siblings(1 + g.r.Intn(3))
	}
	g.frags = all
	g.depth, g.n = 0, 0
	ts.MainTree = g.siblings(2 + g.r.Intn(4))
	if g.r.Chance(15) {
		// a recursive fragment (nested menus, trees): it re-inserts itself from inside one branch of its own chain,
		// with the recursion depth carried by a with-binding; every level is a fresh execution of the fragment
		q := func(s string) *string { return sp(g.q(s)) }
		call := &TNode{Kind: "elem", Name: "span", Attrs: []TAttr{{Name: g.ap + "with", Value: q("dep := ${dep - 1}"), Ctl: true},
			{Name: g.ap + g.r.Pick([]string{"insert", "replace"}), Value: q("rec"), Ctl: true}}}
		shuffle(g.r, call.Attrs)
		var body []*TNode
		if g.r.Bool() {
			down := &TNode{Kind: "elem", Name: "p", Attrs: []TAttr{{Name: g.ap + "if", Value: q("${dep > 0}"), Ctl: true}},
				Children: []*TNode{{Kind: "text", Text: "["}, call, {Kind: "text", Text: "]"}}}
			stop := &TNode{Kind: "elem", Name: "p", Attrs: []TAttr{{Name: g.ap + "else", Ctl: true}}, Children: []*TNode{{Kind: "text", Text: "."}}}
			body = []*TNode{down, stop}
		} else {
			stop := &TNode{Kind: "elem", Name: "p", Attrs: []TAttr{{Name: g.ap + "if", Value: q("${dep <= 0}"), Ctl: true}}, Children: []*TNode{{Kind: "text", Text: "."}}}
			mid := &TNode{Kind: "elem", Name: "p", Attrs: []TAttr{{Name: g.ap + "elif", Value: q("${dep > 100}"), Ctl: true}}, Children: []*TNode{{Kind: "text", Text: "far"}}}
			down := &TNode{Kind: "elem", Name: "p", Attrs: []TAttr{{Name: g.ap + "else", Ctl: true}},
				Children: []*TNode{{Kind: "text", Text: "["}, call, {Kind: "text", Text: "]"}}}
			body = []*TNode{stop, {Kind: "text", Text: "\n"}, mid, down}
		}
		ts.FragTree["rec"] = body
		site := &TNode{Kind: "elem", Name: "div", Attrs: []TAttr{{Name: g.ap + "with", Value: q("dep := ${" + g.r.Pick([]string{"num", "len(xs)", "2", "0"}) + "}"), Ctl: true},
			{Name: g.ap + "insert", Value: q("rec"), Ctl: true}}}
		if g.r.Chance(30) {
			site.Attrs = []TAttr{{Name: g.ap + "range", Value: q("_, dep : ns"), Ctl: true}, {Name: g.ap + "replace", Value: q("rec"), Ctl: true}}
		}
		shuffle(g.r, site.Attrs)
		ts.MainTree = append(ts.MainTree, site)
	}
	return ts
}

func (g *tmplGen) layout(ts *TmplSet) {
	// fragments live in the main file (before or after use) or in other files
	ts.Files = nil
	mainSrc := printNodes(ts.MainTree)
	other := map[string]string{}
	var names []string
	for f := range ts.FragTree {
		names = append(names, f)
	}
	sortStrings(names)
	// placement of every definition: in main (before / after use), in another file, or NESTED in the body of an
	// earlier-named definition (a definition is registered wherever it is written and never rendered in place)
	place := map[string]int{}
	nestedIn := map[string][]string{}
	for i, f := range names {
		p := g.r.Intn(5)
		if p == 4 {
			if i == 0 {
				p = g.r.Intn(4)
			} else {
				host := names[g.r.Intn(i)]
				nestedIn[host] = append(nestedIn[host], f)
			}
		}
		place[f] = p
	}
	var defOf func(f string) string
	defOf = func(f string) string {
		inner := ""
		for _, c := range nestedIn[f] {
			inner += defOf(c)
		}
		return "<template " + g.ap + "define=" + g.q(f) + ">" + g.r.Pick([]string{"", "\n", "\n  "}) + printNodes(ts.FragTree[f]) + inner + g.r.Pick([]string{"", "\n", " "}) + "</template>"
	}
	for _, f := range names {
		if place[f] == 4 {
			continue
		}
		def := defOf(f)
		switch place[f] {
		case 0:
			mainSrc = def + mainSrc
		case 1:
			mainSrc = mainSrc + def
		case 2:
			other["lib.html"] += def + "\n"
		default:
			other["dir/lib2.html"] += "<div>" + def + "</div>"
		}
	}
	if g.r.Chance(10) {
		// twin fragments: two FILES of one manager carry a different range expression at the same line and column
		// (anything keyed by a source position must also be keyed by the file)
		coll := g.r.Pick([]string{"ns", "st.Tags", "word"})
		mainSrc = "<template " + g.ap + `define="pm"><i ` + g.ap + `range="_, q : xs" ` + g.ap + `text="${q}"></i></template>` + mainSrc +
			"<b " + g.ap + `insert="pm"></b><b ` + g.ap + `insert="pc"></b>`
		other["lib.html"] = "<template " + g.ap + `define="pc"><i ` + g.ap + `range="_, q : ` + coll + `" ` + g.ap + `text="${q}"></i></template>` + other["lib.html"]
	}
	if g.r.Chance(4) {
		// a definition named like ANOTHER file of the set: the names clash whichever of the two is loaded first
		if len(other) > 0 && g.r.Chance(50) {
			mainSrc += "<template " + g.ap + `define="lib.html">x</template>`
			other["lib.html"] += ""
		} else {
			other["lib.html"] += "<template " + g.ap + `define="main.html"><i>y</i></template>`
		}
	}
	ts.Files = append(ts.Files, [2]string{"main.html", mainSrc})
	var on []string
	for n := range other {
		on = append(on, n)
	}
	sortStrings(on)
	for _, n := range on {
		ts.Files = append(ts.Files, [2]string{n, other[n]})
	}
	// load order
	for i := len(ts.Files) - 1; i > 0; i-- {
		j := g.r.Intn(i + 1)
		ts.Files[i], ts.Files[j] = ts.Files[j], ts.Files[i]
	}
}
