package main

import (
	"fmt"
	"os"
	"os/exec"
	"path/filepath"
	"sort"
	"strconv"
	"strings"
)

// xtpl family (C20): generated template sets with keyword calls; the POT written by the xtpl binary
// (built from /repo's working tree by ./check) is compared with the expectation known by construction,
// with the strings the evaluator passes to the keyword functions at run time, and with the model.

type potEntry struct {
	ctxt, id, plural string
	refs             []string
}

func (e potEntry) line() string {
	r := append([]string{}, e.refs...)
	sort.Strings(r)
	return fmt.Sprintf("(%s|%s|%s|%s)", encStr(e.ctxt), encStr(e.id), encStr(e.plural), strings.Join(r, ","))
}

func potUnquote(s string) string {
	s = strings.TrimSpace(s)
	if len(s) >= 2 && s[0] == '"' {
		if u, err := strconv.Unquote(s); err == nil {
			return u
		}
	}
	return s
}

// parsePot: entries of a POT file; header = the entry with msgid "" (returned separately)
func parsePot(text string) (entries []potEntry, header string, hasHeader bool) {
	blocks := strings.Split(strings.ReplaceAll(text, "\r\n", "\n"), "\n\n")
	for _, b := range blocks {
		var e potEntry
		cur := ""
		seen := false
		msgstr := ""
		for _, l := range strings.Split(b, "\n") {
			switch {
			case strings.HasPrefix(l, "#: "):
				e.refs = append(e.refs, strings.TrimSpace(l[3:]))
			case strings.HasPrefix(l, "#"):
			case strings.HasPrefix(l, "msgctxt "):
				e.ctxt, cur, seen = potUnquote(l[8:]), "ctxt", true
			case strings.HasPrefix(l, "msgid_plural "):
				e.plural, cur = potUnquote(l[13:]), "plural"
			case strings.HasPrefix(l, "msgid "):
				e.id, cur, seen = potUnquote(l[6:]), "id", true
			case strings.HasPrefix(l, "msgstr"):
				cur = "str"
				if i := strings.Index(l, " "); i >= 0 {
					msgstr += potUnquote(l[i+1:])
				}
			case strings.HasPrefix(l, `"`):
				switch cur {
				case "ctxt":
					e.ctxt += potUnquote(l)
				case "id":
					e.id += potUnquote(l)
				case "plural":
					e.plural += potUnquote(l)
				case "str":
					msgstr += potUnquote(l)
				}
			}
		}
		if !seen {
			continue
		}
		if e.id == "" && e.ctxt == "" {
			header, hasHeader = msgstr, true
			continue
		}
		entries = append(entries, e)
	}
	return
}

type xCall struct {
	text    string // the call expression
	expect  *potEntry
	litOffs int     // offset of the msgid literal inside text (for the reference position)
	more    []xCall // what OTHER keywords of the same name extract from this call (text unused)
}

var xStrings = []string{"hello", "it's", `say "hi"`, `back\slash`, "a b", "é中", "{brace}", "$", "x", "Save", "%d file", "%d files", "semi;colon", "q?", "Dear user,\rwelcome", "tab\there", "nl\nx"}

func xLit(r *Rng, s string, attrDelim string) string {
	// a literal for s that does not contain the attribute delimiter
	var cands []string
	dq := quoteDQ(s)
	sq := quoteSQ(s)
	if !strings.Contains(dq[1:len(dq)-1], attrDelim) && attrDelim != `"` {
		cands = append(cands, dq)
	}
	if !strings.Contains(sq[1:len(sq)-1], attrDelim) && attrDelim != `'` {
		cands = append(cands, sq)
	}
	if !strings.ContainsAny(s, "`\n\t") && !strings.Contains(s, attrDelim) {
		// a raw string may contain a carriage return (CRLF-saved templates): the evaluator drops it
		cands = append(cands, "`"+s+"`")
	}
	if len(cands) == 0 {
		return "`x`"
	}
	return cands[r.Intn(len(cands))]
}

type xKw struct {
	name         string
	ctx, id, id2 int
}

func genXCall(r *Rng, kws []xKw, delim string, depth int) xCall {
	kw := kws[r.Intn(len(kws))]
	callee := kw.name
	switch r.Intn(6) {
	case 0:
		callee = "t." + kw.name
	case 1:
		callee = "(" + kw.name + ")"
	case 2:
		callee = "m.x." + kw.name
	}
	n := kw.id
	if kw.ctx > n {
		n = kw.ctx
	}
	if kw.id2 > n {
		n = kw.id2
	}
	nargs := n + r.Intn(2)
	mode := r.Intn(100) // <70 extractable, 70-80 too few args, 80-90 non-literal msgid, 90-100 empty / parenthesised literal
	if mode >= 70 && mode < 80 && n > 1 {
		nargs = n - 1
	}
	vals := make([]string, nargs)
	args := make([]string, nargs)
	lit := make([]bool, nargs)
	for i := range args {
		s := xStrings[r.Intn(len(xStrings))]
		vals[i], args[i], lit[i] = s, xLit(r, s, delim), true
		if args[i] == "`x`" {
			vals[i] = "x"
		}
		if strings.HasPrefix(args[i], "`") {
			vals[i] = strings.ReplaceAll(vals[i], "\r", "")
		}
	}
	extract := nargs >= n
	if mode >= 80 && mode < 90 && kw.id-1 < nargs {
		args[kw.id-1] = r.Pick([]string{"name", "`a` + `b`", "(`par`)", "s1", "f(`x`)"})
		lit[kw.id-1] = false
		extract = false
	}
	if mode >= 90 && mode < 95 && kw.id-1 < nargs {
		args[kw.id-1], vals[kw.id-1] = `''`, ""
		if delim == `'` {
			args[kw.id-1] = `""`
		}
		extract = false
	}
	if mode >= 95 && kw.id-1 < nargs {
		// a literal the lexer accepts but that cannot be decoded (octal above 255, surrogate half, beyond U+10FFFF): the
		// evaluator fails on it at run time, so no string is ever passed: nothing is extracted, the header stays
		bad := []string{`'\400'`, `'\ud800'`, `'\U00110000'`, `'a\777'`}
		if delim == `'` {
			bad = []string{`"\400"`, `"\ud800"`, `"\U00110000"`, `"a\777"`}
		}
		args[kw.id-1] = r.Pick(bad)
		lit[kw.id-1] = false
		extract = false
	}
	if depth > 0 && r.Chance(15) && nargs > n { // a nested keyword call as an extra argument
		inner := genXCall(r, kws, delim, depth-1)
		_ = inner // nested calls are generated separately to keep the expectation simple
	}
	pre := callee + "("
	text := pre
	off := -1
	argOffs := make([]int, nargs)
	for i, a := range args {
		if i > 0 {
			text += ", "
		}
		argOffs[i] = len([]rune(text))
		if i == kw.id-1 {
			off = len([]rune(text))
		}
		text += a
	}
	text += ")"
	c := xCall{text: text, litOffs: off}
	for _, k2 := range kws {
		if k2.name != kw.name || k2 == kw {
			continue
		}
		n2 := k2.id
		if k2.ctx > n2 {
			n2 = k2.ctx
		}
		if k2.id2 > n2 {
			n2 = k2.id2
		}
		if nargs >= n2 && lit[k2.id-1] && vals[k2.id-1] != "" {
			e := &potEntry{id: vals[k2.id-1]}
			if k2.ctx > 0 && lit[k2.ctx-1] {
				e.ctxt = vals[k2.ctx-1]
			}
			if k2.id2 > 0 && lit[k2.id2-1] {
				e.plural = vals[k2.id2-1]
			}
			c.more = append(c.more, xCall{expect: e, litOffs: argOffs[k2.id-1]})
		}
	}
	if extract && kw.id-1 < nargs && lit[kw.id-1] && vals[kw.id-1] != "" {
		e := &potEntry{id: vals[kw.id-1]}
		if kw.ctx > 0 && lit[kw.ctx-1] {
			e.ctxt = vals[kw.ctx-1]
		}
		if kw.id2 > 0 && lit[kw.id2-1] {
			e.plural = vals[kw.id2-1]
		}
		c.expect = e
	}
	return c
}

func runXtplCase(r *Rng, out *outFiles, work string, idx int) {
	xbin := os.Getenv("XTPL_BIN")
	custom := r.Chance(30)
	kws := []xKw{{"T", 0, 1, 0}, {"N", 0, 1, 2}, {"X", 1, 2, 0}, {"XN", 1, 2, 3}, {"__", 0, 1, 0}, {"_n", 0, 1, 2}, {"_x", 1, 2, 0}, {"_xn", 1, 2, 3}}
	kwSpec := ""
	if custom {
		kws = []xKw{{"tr", 0, 1, 0}, {"trn", 0, 1, 2}, {"pgettext", 1, 2, 0}, {"second", 0, 2, 0}}
		kwSpec = "tr;trn:1,2;pgettext:1c,2;second:2"
	} else if r.Chance(20) { // one function name listed twice: every specification of the name applies to every call
		custom = true
		kws = []xKw{{"dup", 1, 2, 0}, {"dup", 0, 1, 0}, {"tr", 0, 1, 0}}
		kwSpec = "dup:1c,2;dup:1;tr"
	} else if r.Chance(25) { // the context position written AFTER the msgid / plural positions
		custom = true
		kws = []xKw{{"ctr", 2, 1, 0}, {"nctr", 3, 1, 2}, {"tr", 0, 1, 0}, {"rev", 0, 2, 1}}
		kwSpec = "ctr:2c,1;nctr:3c,1,2;tr;rev:2,1"
	}
	ap := r.Pick([]string{":", ":", "v-", "th:", "ui:", "wire:"})
	nfiles := 1 + r.Intn(3)
	dir := filepath.Join(work, fmt.Sprintf("x%d", idx))
	os.RemoveAll(dir)
	must(os.MkdirAll(filepath.Join(dir, "sub"), 0o755))
	defer os.RemoveAll(dir)
	expect := map[string]*potEntry{}
	plurals := map[string]string{}
	var files [][2]string
	for f := 0; f < nfiles; f++ {
		name := fmt.Sprintf("f%d.html", f)
		if f == 2 {
			name = "sub/deep.html"
		}
		var sb strings.Builder
		lines := 1 + r.Intn(5)
		for ln := 0; ln < lines; ln++ {
			delim := r.Pick([]string{`"`, `'`})
			lead := r.Pick([]string{"", " ", "  ", "<b>x</b>", "text "})
			attr := r.Pick([]string{"text", "title", "if", "with", "class"})
			var val strings.Builder
			parts := 1 + r.Intn(3)
			type placed struct {
				c   xCall
				off int
			}
			var ps []placed
			if attr == "with" {
				val.WriteString("v := ")
				parts = 1
			}
			for p := 0; p < parts; p++ {
				if attr != "with" && attr != "if" && r.Chance(40) {
					val.WriteString(r.Pick([]string{"lit ", "- ", "a:", ""}))
				}
				c := genXCall(r, kws, delim, 1)
				for try := 0; try < 20 && c.expect != nil; try++ {
					// one plural per (context, msgid): which of two different plurals survives depends on
					// the (random) order in which Go iterates the manager's file map
					key := c.expect.ctxt + "\x04" + c.expect.id
					if pl, ok := plurals[key]; ok && pl != c.expect.plural {
						c = genXCall(r, kws, delim, 1)
						continue
					}
					plurals[key] = c.expect.plural
					break
				}
				if c.expect != nil {
					if pl, ok := plurals[c.expect.ctxt+"\x04"+c.expect.id]; ok && pl != c.expect.plural {
						c = xCall{text: "name"}
					}
				}
				wrap := r.Intn(4)
				prefix := "${"
				switch wrap {
				case 1:
					prefix = "${ "
				case 2:
					prefix = "${ident("
				}
				val.WriteString(prefix)
				ps = append(ps, placed{c, len([]rune(val.String()))})
				val.WriteString(c.text)
				if wrap == 2 {
					val.WriteString(")")
				}
				val.WriteString("}")
			}
			tail := ""
			if r.Chance(25) { // the line sits inside a fragment definition: the file's tree contains it ONCE
				lead += fmt.Sprintf(`<i %sdefine="fr%d_%d">`, ap, f, ln)
				tail = "</i>"
			}
			// the element may be written in every form the scanner accepts: open + close tag, self-closing, void
			el, closer := "p", ">z</p>"
			switch r.Intn(6) {
			case 0:
				el, closer = "input", " />"
			case 1:
				el, closer = "img", "/>"
			case 2:
				el, closer = "br", ">"
			case 3:
				el, closer = "p", " />"
			}
			open := lead + "<" + el + " " + ap + attr + "=" + delim
			lineText := open + val.String() + delim + closer + tail
			for _, p0 := range ps {
				all := []struct {
					c   xCall
					off int
				}{{p0.c, p0.off}}
				for _, m := range p0.c.more {
					all = append(all, struct {
						c   xCall
						off int
					}{m, p0.off})
				}
				for _, p := range all {
					if p.c.expect != nil {
						col := len([]rune(open)) + p.off + p.c.litOffs + 1
						ref := fmt.Sprintf("%s:%d:%d", name, ln+1, col)
						key := p.c.expect.ctxt + "\x04" + p.c.expect.id
						if e, ok := expect[key]; ok {
							e.refs = append(e.refs, ref)
						} else {
							cp := *p.c.expect
							cp.refs = []string{ref}
							expect[key] = &cp
						}
					}
				}
			}
			sb.WriteString(lineText + "\n")
		}
		if r.Chance(30) {
			// raw text (default raw-text elements) is not markup: a directive-looking call inside it is not extracted
			sb.WriteString(`<script>if (a<b ` + ap + `text="${__('inscript')}") {}</script>` + "\n")
		}
		files = append(files, [2]string{name, sb.String()})
		must(os.WriteFile(filepath.Join(dir, name), []byte(sb.String()), 0o644))
	}
	// a file that does not match the pattern must be ignored
	must(os.WriteFile(filepath.Join(dir, "notes.txt"), []byte(`<p :text="${__('ignored')}">`), 0o644))
	toStdout := r.Chance(15) // without -output the catalogue goes to standard output (followed by a hint line)
	args := []string{"-path", dir, "-output", filepath.Join(dir, "out.pot")}
	if toStdout {
		args = []string{"-path", dir}
	}
	if custom {
		args = append(args, "-keywords", kwSpec)
	}
	if r.Chance(20) { // explicitly empty list flags mean "the defaults"
		args = append(args, "-text_tags", "", "-void_elements", " ")
	}
	if ap != ":" {
		args = append(args, "-attr_prefix", ap)
	}
	cmd := exec.Command(xbin, args...)
	cmd.Env = append(os.Environ(), "LANG=C")
	var outb, potText []byte
	var err error
	var implLine, c20 string
	if toStdout {
		outb, err = cmd.Output()
		potText = outb
		if i := strings.LastIndex(string(outb), "default output to stdout"); i >= 0 {
			potText = outb[:i]
		}
		out.count("to-stdout")
	} else {
		outb, err = cmd.CombinedOutput()
		potText, _ = os.ReadFile(filepath.Join(dir, "out.pot"))
	}
	if err != nil {
		implLine = "ERR xtpl failed"
		c20 = "xtpl failed on a loadable template set: " + strings.TrimSpace(string(outb[:min(len(outb), 300)]))
	} else {
		entries, header, hasHeader := parsePot(string(potText))
		var lines []string
		for _, e := range entries {
			lines = append(lines, e.line())
		}
		sort.Strings(lines)
		hdr := "noheader"
		if hasHeader && strings.Contains(header, "Project-Id-Version") {
			hdr = "header"
		}
		implLine = "OK " + hdr + " " + strings.Join(lines, "")
		var want []string
		for _, e := range expect {
			want = append(want, e.line())
		}
		sort.Strings(want)
		if hdr != "header" {
			c20 = "the catalogue lost its header entry"
		} else if strings.Join(lines, "") != strings.Join(want, "") {
			c20 = fmt.Sprintf("catalogue %s differs from the expected entries %s", strings.Join(lines, ""), strings.Join(want, ""))
		}
	}
	out.count(fmt.Sprintf("files%d", nfiles))
	if custom {
		out.count("custom-keywords")
	}
	var fs []string
	sort.Slice(files, func(i, j int) bool { return files[i][0] < files[j][0] })
	for _, f := range files {
		fs = append(fs, encStr(f[0])+"~"+encStr(f[1]))
	}
	var kwEnc []string
	for _, k := range kws {
		kwEnc = append(kwEnc, fmt.Sprintf("%s:%d:%d:%d", encStr(k.name), k.ctx, k.id, k.id2))
	}
	out.put(fmt.Sprintf("xtpl %s %s %s", encStr(ap), strings.Join(kwEnc, "|"), strings.Join(fs, "|")), implLine, verdict("C20", c20))
}

func min(a, b int) int {
	if a < b {
		return a
	}
	return b
}
