module verif/harness

go 1.18

require code.gopub.tech/tpl v0.0.0

require (
	code.gopub.tech/errors v0.0.3
	code.gopub.tech/logs v0.0.5 // indirect
	github.com/antlr4-go/antlr/v4 v4.13.0
	github.com/fatih/color v1.15.0 // indirect
	github.com/mattn/go-colorable v0.1.13 // indirect
	github.com/mattn/go-isatty v0.0.18 // indirect
	golang.org/x/exp v0.0.0-20230515195305-f3d0a9c9a5cc // indirect
	golang.org/x/sys v0.6.0 // indirect
	gopkg.in/natefinch/lumberjack.v2 v2.2.1 // indirect
)

replace code.gopub.tech/tpl => /repo
