package main

import (
	"fmt"
	"math"
	"strings"

	"code.gopub.tech/tpl/exp"
)

var hostileExprs = []string{"", " ", "1 +", "a.", "a..b", "a.if", "a.nil", "nil", "nil.x", "a?.b", "a ?.5 : 1", "a?b:c", "a ? b : c ? d : e", "(a ? b : c) ? d : e",
	"a[1]", "a[1:2]", "a[:]", "a[1:]", "a[:2]", "a[1:2:3]", "a[:2:3]", "a[::]", "a[1::3]", "a[b ? 1 : 2]", "a[b ? 1 : 2 : 3]", "f()", "f(1,)", "f(xs...)", "f(xs...,)", "f(1, xs...)", "f(,)", "f(1,,2)", "f(...)",
	"0x", "0x_1", "0_7", "08", "09.5", "1__0", "1_", "0b102", "0o8", "1e", "1e+", "1.e5", ".5", "5.", "1.5.2", "0x1p", "0x1.8", "0x.p1", "0x1p-2", "1i", "0x1fi", "1.5i", "08i",
	"\"abc", "'abc", "`abc", "\"a\\qb\"", "\"\\x4\"", "'\\u12'", "\"\\101\"", "\\101", "\\x41", "\\u0041", "\"a\nb\"", "'a\nb'", "`a\nb`", "\"\\'\"", "'\\\"'", "'a\"b'", "'a\\\\'",
	"a /* c */ + b", "a // c", "a /* x", "1 /* x", "a /* a\nb */", "a /* a\nb */ + 1", "a\n", "a\n\n", "a\r\n", "a;", "a;b", "a\nb", "a \n + b", "a +\n b", "(a\n)", "f(a\n)", "f(a,\n b)", "[1]", "{a}", "a{", "a}", "a)", "(a", "a]", "#", "@a", "$a", "a$", "a~b", "~a", "a := 1", "a = 1", "a++", "a--", "a ++ b", "- -a", "--a", "+ +a", "!!a", "^^a", "&a", "*a", "<-a", "a<-b", "a < -b", "a&^b", "a & ^b", "a&&b", "a& &b", "a|||b", "if", "range", "map", "func", "go", "truex", "_", "_a1", "a1_", "é", "中文", "a.中", "😀", "a😀", "\t a \t", "\f", "a\fb", "\x00", "1 2", "a b", "a 'b'", "1.2.3", "a.b.c.d", "a.b(c).d[e]", "a[0][1]", "f(g(h(1)))", "((((1))))", "(1)(2)", "a.b?.c", "a ? : b", "a ? b :", "? a : b", "a ? b", ": a", "len(xs) == 3", "-9223372036854775808", "9223372036854775807", "9223372036854775808", "1<<63", "x[1", "x[1:", "x[", "f(", "f(1", "f(1,", "a.b.", "a ?. b", "a ? .5 : 1"}

func implParse(src string) (out string) {
	defer func() {
		if x := recover(); x != nil {
			out = fmt.Sprintf("PANIC %v", x)
		}
	}()
	tree, err := exp.ParseCode(src)
	if err != nil {
		return "ERR"
	}
	var sb strings.Builder
	sb.WriteString("OK ")
	pExpr(&sb, tree)
	return sb.String()
}

func defaultEnv() *Env {
	e := &Env{Vals: map[string]any{}}
	add := func(n string, v any) { e.Names = append(e.Names, n); e.Vals[n] = v }
	add("i", int(7))
	add("j", int64(-3))
	add("i8", int8(-100))
	add("i16", int16(300))
	add("i32", int32(1<<31-1))
	add("u", uint(12))
	add("u8", uint8(200))
	add("u16", uint16(65535))
	add("u32", uint32(1<<32-1))
	add("u64", uint64(1)<<40)
	add("f", float64(1.5))
	add("g", float64(-0.25))
	add("f32", float32(2.5))
	add("f32b", float32(0.1))
	add("z0", float64(0))
	add("nz", math.Copysign(0, -1))
	add("ubig", uint64(1)<<63+5)
	add("s", "hi")
	add("e", "")
	add("t", true)
	add("n", false)
	return e
}

var exprSuffixes = []string{";", ";2", "\n2", " 2", ")", "]", " +", " a", " 'x'", "\n+1", " :", " ?", ",", "...", " /* x", "}", "{", "\"", " nil", ".", "[", "(", " \n ;", "// c\n1", "/* a\nb */ 1", ";;", " = 1"}

// genParseCase: returns the expression source and a tag describing how it was made.
func genParseCase(r *Rng) (string, string) {
	g := &exGen{r: r, env: defaultEnv(), newlines: r.Chance(40)}
	switch c := r.Intn(100); {
	case c < 12:
		return r.Pick(hostileExprs), "hostile"
	case c < 62:
		e := g.Gen("?", 1+r.Intn(6))
		return g.Print(e), "wellformed"
	case c < 72:
		e := g.Gen("?", 1+r.Intn(4))
		pad := r.Pick([]string{" ", "\t", "\n", " /* c */ ", "// c\n", " \n\n ", "/* a\nb */", ""})
		lead := r.Pick([]string{"", " ", "\t", "\n", "/* c */", "// c\n"})
		return lead + g.Print(e) + pad, "padded"
	case c < 76:
		// an unterminated block comment after (or inside) a complete expression: always an error, never "/ *x"
		e := g.Gen("?", 1+r.Intn(4))
		open := r.Pick([]string{" /* x", "/* c", " /*x y", " /* a\nb", "/*", " /* 1 + 2", "/*x*"})
		if r.Chance(30) {
			e2 := g.Gen("?", 1+r.Intn(2))
			if tail := g.Print(e2); !strings.Contains(tail, "*/") { // a later "*/" would close the comment
				return g.Print(e) + " + " + open + " " + tail, "opencomment"
			}
		}
		return g.Print(e) + open, "opencomment"
	case c < 84:
		e := g.Gen("?", 1+r.Intn(4))
		if r.Chance(35) {
			// multi-byte text before the suffix: byte offsets and rune offsets of what follows differ
			lead := r.Pick([]string{"/*é中😀*/", "/* ü */ ", "\"é\" + ", "`中😀` + "})
			return lead + g.Print(e) + r.Pick([]string{"", " ", "/*ß*/"}) + r.Pick(exprSuffixes), "suffix"
		}
		return g.Print(e) + r.Pick(exprSuffixes), "suffix"
	case c < 92:
		e := g.Gen("?", 1+r.Intn(4))
		rs := []rune(g.Print(e))
		if len(rs) > 1 {
			rs = rs[:1+r.Intn(len(rs)-1)]
		}
		return string(rs), "truncated"
	default:
		e := g.Gen("?", 1+r.Intn(4))
		return mutate(r, g.Print(e)), "mutated"
	}
}
